#!/venv/bin/python
"""Regenerates MANIFEST.json from the table below (kept in one place so the file is always valid)."""
import json, os
HERE = os.path.dirname(os.path.abspath(__file__))

CHECKS = {
 "C13": dict(
    technique="online monitor on write_continue/write_lines during real Shroud runs + direct fuzz, oracle over recorded (logical line -> physical lines) events",
    text="Every call Shroud makes to the line splitter while generating the upstream corpus (50 configurations, plus line-length variants) and generated libraries is observed and judged by an independent oracle of the four clauses; 2e5 (quick) / 5e6 (thorough) synthetic logical lines are driven through the same two methods. Held = no refuting event on those executions.",
    note="Trusted: vf/oracles/lines.py (oracle), Python. Not covered: logical lines outside the fuzz alphabet, identifiers > 63 chars.",
    design="DESIGN.md §2 C13"),
 "C07": dict(
    technique="byte comparison of output directories between a reference execution and perturbed executions (hash seed, environment, cwd, stale output directory, in-process histories) + impurity monitor on clock/host/pid/random APIs",
    text="Real command-line runs in fresh interpreters for every corpus configuration and generated libraries are repeated under PYTHONHASHSEED 1/4242/random, two hostile environments, another current directory with identical absolute paths and a pre-populated output directory; sequences of up to 4 libraries are run through the real entry point in one interpreter and the last library's output is compared with a run alone. Held = every pair byte-identical and no impure API called from repository code.",
    note="Trusted: Python 3.12, byte comparison. Not covered: other Python versions; histories longer than 4; file systems that reorder directory listings (the monitor shows Shroud lists no directory).",
    design="DESIGN.md §2 C07"),
 "C15": dict(
    technique="audit-hook file monitor (emitter on the stack when a path is opened for writing) + directory snapshots; relation checks between runs differing only in wrap_python / wrap_lua",
    text="Real Shroud runs over corpus descriptions under all 12 library-level wrap_c/fortran/python/lua combinations (fortran=>c), generated libraries with random per-declaration overrides, and random assignments of the five directory options; every open-for-write is attributed to its emitter and compared with the wrap flags, the --cfiles/--ffiles contents and the designated directory; C/Fortran files are compared byte for byte across python/lua toggles.",
    note="Trusted: sys.addaudithook sees every file Python opens (cross-checked against the directory snapshot). By design bind(C) interfaces of C wrappers (c_*) and setup.py in --outdir are not counted as misplaced (DESIGN C15).",
    design="DESIGN.md §2 C15"),
 "C16": dict(
    technique="pairs of real Shroud runs differing only in debug/doxygen/show_splicer_comments/version stamp/per-declaration literalinclude; file sets compared, sources compared token for token after language-aware comment stripping",
    text="For every corpus configuration and generated libraries the all-off run is compared with single-option, all-on and random combinations (all 31 in the thorough tier), the options being set at library level or on a random half of the individual declarations. Held = same files, identical comment-free token streams in C/C++/Fortran/Python/YAML outputs, and the option combination never makes Shroud fail.",
    note="Trusted: vf/oracles/strip.py tokenisers. json/log dumps are excluded (they record the options). Library-level literalinclude/literalinclude2 are left as upstream set them in both runs (excluded by the property).",
    design="DESIGN.md §2 C16"),
 "C14": dict(
    technique="metamorphic pairs of real Shroud runs on descriptions / command lines documented as equivalent; byte comparison of generated sources",
    text="For generated libraries and every corpus configuration: a function-scoped option or format field set on library / block / class vs on each contained function (siblings outside the container left alone), inline +attributes vs attrs/fattrs, --option/--language vs YAML fields (bool, int and string values, both directions), declarations vs the same inside an empty block, and create_wrapper vs the command line. Held = both variants succeed and write byte-identical sources.",
    note="Trusted: the curated list of function-scoped options/fields (vf/checks/c14.py). json/log dumps excluded (they record where an option was written). Class containers with member variables and F_this are outside the relation (class-generated helpers have no declaration to attach the setting to).",
    design="DESIGN.md §2 C14"),
 "C12": dict(
    technique="splicer monitor (every block emitted: name, source, lines) + block extractor over emitted files, on real runs supplying user bodies through the three routes, deliberate precedence conflicts, and a round trip feeding generated files back as splicer files",
    text="For corpus configurations and generated libraries, random subsets of the splicer names of a plain run get generated user bodies (plausible statements, random printable text, blank lines, own indentation, trailing blanks, lines ending in + - &, embedded tabs) through splicer files (command line and YAML splicer list), splicer_code and declaration-level splicers and their combinations; oracle: each supplied block equals its body line by line modulo leading/trailing blanks, unsupplied blocks keep the plain run's body, text outside markers never appears, the declaration-level body wins a deliberate conflict, and every block survives feeding the generated files back.",
    note="Trusted: block extractor regexes; domain: lines not starting in column one with # @ ^ + - 0 and not containing 'splicer begin/end'. Two known findings (duplicate splicer names) are listed in known_findings.json.",
    design="DESIGN.md §2 C12"),
 "C17": dict(
    technique="exception / parser-position / watchdog monitors around declast.check_decl and the command-line driver under grammar-based mutation fuzzing, attribute name x value enumeration, documented illegal combinations and YAML structure fuzz; findings keyed by mechanism",
    text="~24k (quick) / ~380k (thorough) declarations (documented seeds, single-token mutations, random token sequences) go through the real parser with a monitor on the escaping exception class, the diagnostic text, the parser's position at return and a 5 s watchdog; ~2k / ~12k descriptions (every attribute x value, illegal combinations, must-reject inputs, wrong YAML kinds, misspelt keys, CLI misuse, and all valid corpus/generated descriptions) go through the full pipeline. Held = every rejection is a RuntimeError/SystemExit-style diagnostic that quotes the input, no accepted text leaves the parser before EOF or unbalanced, documented inputs are never rejected, must-reject inputs are never accepted.",
    note="Trusted: classification of diagnostic classes (RuntimeError, NotImplementedError, SystemExit, OSError family). Acceptance of arbitrary mutated text is only judged by EOF/balance/must-reject list, not by a reference C++ grammar (that is C09). Known findings listed in known_findings.json.",
    design="DESIGN.md §2 C17"),
 "C11": dict(
    technique="execute three compiled programs per generated library (C++ with the original enums, C with the generated headers, Fortran with the generated modules linked with the generated wrappers) and compare the printed enumerator values",
    text="2000 (quick) / 20000 (thorough) enums over the accepted expression grammar (+ - * / parentheses, unary sign, literals incl. leading-zero octal, references to earlier members, adjacent signs), 1-6 members with random explicit/implicit masks, plain / enum class / enum struct at library, namespace and class scope are run through Shroud; g++, gcc and gfortran then evaluate the original and the generated constants and every member is compared.",
    note="Trusted: gcc/g++/gfortran 12 constant evaluation; enumerators matched by position inside each emitted enum (names are C08's business). Values kept inside int, divisors non-zero.",
    design="DESIGN.md §2 C11"),
 "C09": dict(
    technique="g++ static_assert(std::is_same<...>) between the original declaration text and Shroud's C++/C renderings of the parsed declaration; online monitor on check_decl that re-parses Shroud's own rendering in the same namespace",
    text="3000 (quick) / 20000 (thorough) declarations from the declarator grammar (exhaustive cv x base x pointer-chain core, sampled functions, function pointers, arrays, vectors, qualified names, attributes, defaults) plus every declaration parsed while generating the 50 corpus configurations: for each text accepted by both Shroud and g++, the compiler decides that gen_arg_as_cxx (whole declaration, each parameter, the result variable) denotes the same type and gen_arg_as_c the documented C counterpart; gen_decl is re-parsed and the parse trees compared.",
    note="Trusted: g++ 12 -std=c++11; vf_c metafunction for the C counterpart (native/enum/typedef by value, std::string/class/vector behind a pointer or reference only). Whole function types with std::vector parameters are excluded (never emitted as C++).",
    design="DESIGN.md §2 C09"),
 "C10": dict(
    technique="string helpers extracted at run time from the working tree, compiled unchanged as C and C++ with ASan+UBSan and called exhaustively on exact-size heap blocks; results compared with an executable specification (level 1); end-to-end string traffic through generated wrappers (level 2, execution engine)",
    text="ShroudLenTrim, StrCopy, StrBlankFill, StrAlloc/Free, StrArrayAlloc/Free (C and C++ text) and ShroudStrToArray + CopyStringAndFree (C++) are called for all source lengths 0..N x destination lengths 0..N x trimmed lengths x nsrc=-1 x NULL source x all contents over {'a',' '} up to length 6 (N=10 quick, 14 thorough). Held = no sanitizer report, no guard violation, every result equal to the specification. Level 2: string libraries (char* in / out+charlen / inout / result / +len result incl. NULL results; std::string by value, const&, const*, & out, & inout, * out, * inout, result by value / const& / +len / owner(caller) pointer) for language c and c++, F_CFI off and on, are wrapped, built with ASan+UBSan and called from Fortran for every declared length 0..N x every C string length (or trimmed length) 0..N+2 exhaustively (N=7 quick, 10 thorough; 2.6k / 9k calls): the library must receive the argument without trailing blanks and NUL-terminated, the caller must see the C string truncated / blank-padded to the declared length, allocatable results with exactly the C length, NULL as zero-length.",
    note="Trusted: gcc 12 ASan/UBSan; the specification in native/c10_driver.c; the call model of vf/libgen/ir.py for level 2. nonnull-attribute check disabled (zero-length copies from NULL read nothing). char* intent(out): the Fortran variable is the library's buffer (docs/input.rst charlen), so declared lengths start at charlen there (a first version that went below was a false alarm of the harness and was corrected).",
    design="DESIGN.md §2 C10"),
 "C01": dict(
    technique="generated wrappers compiled with ASan+UBSan, linked with an instrumented subject library and driven by a synthesised Fortran program; library RECV/SEND trace and caller OUT records compared with a reference model; metamorphic comparison across F_CFI / debug; upstream FRUIT drivers under sanitizers",
    text="Libraries built from the admitted-grammar table (scalars of 10 native types, bool, pointers/references in every intent, rank-1 arrays with implied extent, dimension(n) and fixed outputs, char*/std::string in every intent and as result incl. +len, std::vector in/out/inout, overloads, default arguments with and without suffixes, function templates, fortran_generic, classes) for language c and c++, F_CFI off/on, debug off/on: every function is called from Fortran at a base point and with each battery value (integer/real boundary values, empty / blank / blank-containing / full-length strings, empty arrays) through the generic and the specific name; the library must log exactly the documented values and the caller must see exactly what the library produced, truncated/padded/allocated as documented. 1.4k calls quick, 5k thorough, plus upstream main.f drivers.",
    note="Trusted: reference model (vf/libgen/ir.py), documented-API mapping (vf/drivers/fortran.py), gfortran/gcc 12 sanitizers. Not covered: structs, pointer results with dimension, owner/deref variants (covered only by upstream drivers), compilers other than GNU 12.",
    design="DESIGN.md §2 C01"),
 "C02": dict(
    technique="generated C API compiled with ASan+UBSan, linked with an instrumented C++ subject library and driven by a synthesised C99 driver that includes only generated headers; RECV/SEND trace and OUT records compared with a reference model; upstream testc.c drivers",
    text="Generated C++ libraries (same shape table; customised C_prefix, namespaces) are called through the documented C names with the value battery; the C++ callee must log the passed values (references/strings/bool reconstructed, declaration order, right object serial as this) and the C caller must read back the produced result and outputs; constructors/destructors are followed through a live-object counter at every quiescent point.",
    note="Trusted: reference model and documented C API mapping (vf/drivers/c.py). Functions with std::vector arguments or std::string by-value results have no plain C entry point and are exercised through Fortran (C01).",
    design="DESIGN.md §2 C02"),
 "C05": dict(
    technique="real Shroud runs over generated libraries (every shape alone, plus a pairwise-covering array of language x wrapper subset x F_CFI x debug/doxygen/literalinclude/show_splicer_comments x line lengths) and the upstream corpus; every emitted file is compiled by gcc/g++/gfortran (headers on their own as C and C++), Python sources against Python.h, Lua sources against the minilua headers, and everything is linked with the subject library with --no-undefined",
    text="Held = Shroud exits 0 on every admitted description, every header is self-contained, every source and module compiles in dependency order and the link has no missing or duplicate symbol, for ~210 (quick) / ~700 (thorough) library x configuration builds and the 50 corpus configurations (those with upstream sources).",
    note="Trusted: gcc/g++/gfortran 12, CPython 3.12 headers, minilua headers (declarations per the Lua 5.3 manual). Unreachable here and reported as such: numpy- and MPI-dependent outputs, corpus inputs without library sources. Warnings are not events. Two known findings (forward.yaml python/lua) are listed.",
    design="DESIGN.md §2 C05"),
 "C06": dict(
    technique="runtime monitoring of call histories: Shroud-generated wrappers of an ownership library are built with ASan+UBSan(+LSan) and driven by synthesised Fortran, C and Python programs executing random valid histories (construct / factory result owned by caller, library or a free_pattern / by-value result / method / object argument / handle copy / release / release again / release through the memory destructor / array results pointer|allocatable x library|caller|pattern / capsule delete twice / string and vector results and arguments); after every step three monitors are compared with an ownership model: the library's live-object counter and DTOR/FREE trace records, the number of caller-owned heap blocks the sanitizer allocator still holds (__sanitizer_get_ownership over the library's registry), and sanitizer reports; upstream ownership/classes/strings/vectors drivers run under the same sanitizers",
    text="Held = on every step of every history (quick: ~1100 steps over 28 histories in 3 driver languages, F_CFI off/on, debug off/on, namespaces, C_prefix, free_pattern declared before/after the plain factory) the destructor ran exactly for the objects the model says were released (never for library-owned or already released ones), pattern releases went through the pattern, the live-object count and the count of allocated caller-owned blocks matched the model at the marker after the step, and no ASan/UBSan/LSan report was produced.",
    note="Trusted: gcc 12 sanitizer runtimes (quarantine keeps freed addresses from being reused within these short runs), the ownership model written from docs/pointers.rst / classes.rst / cwrapper.rst. Fortran finalisation at scope exit is not relied on (histories release explicitly). Python: +deref(allocatable), by-value class results and vector arguments are outside what the Python emitter supports and are left out. Six genuine defects found while building this check were repaired (fix: commits): reinterpret_cast in C memory destructor, copy_array helper missing for C, missing helper for vector->list, Python objects never destroyed on Python 3 (tp_dealloc), uninitialised destructor index of class results, owner(caller) arrays leaked after list conversion.",
    design="DESIGN.md §2 C06"),
 "C04": dict(
    technique="offline checker over the artifacts of real Shroud executions: gfortran -fc-prototypes (C view of every bind(C) interface and derived type) vs clang -ast-dump=json (typedef-resolved C prototypes and struct fields) vs nm --defined-only, compared by interoperability class; SH_TYPE_* constants from the module vs gcc -E -dM",
    text="All modules emitted for the 50 corpus configurations and for generated libraries (every Fortran-capable shape, language c and c++, F_CFI off and on; random option/prefix/namespace combinations in the thorough tier): ~900 interfaces / ~1400 arguments / ~55 derived types / ~90 constants per quick run. Held = every binding label is defined by the objects, argument counts and order agree, every argument/result/field has the same interoperability class and passing mode, constants are equal.",
    note="Trusted: gfortran's and clang's descriptions; x86-64 SysV sizes; F2003 section 15 rules (signedness ignored, void*/C_PTR ~ any object pointer, procedure dummy ~ function pointer). Interfaces gfortran cannot print (TYPE(*), some procedure dummies: counted) and libraries without sources are reported as unreachable. Run-time corroboration comes from C01's calls.",
    design="DESIGN.md §2 C04"),
 "C08": dict(
    technique="real Shroud runs on generated overload / default / template / fortran_generic / class / namespace combinations; emitted names read back (nm on compiled wrapper objects, prototypes in generated headers, module procedures and generic interfaces in the Fortran module, PyMethodDef / luaL_Reg tables) and compared with an independent naming model written from docs/reference.rst",
    text="Exhaustive product of overload-set size 1..3 x trailing defaults 0..2 x suffix policy {none, function_suffix, default_arg_suffix} x {plain, 2 template instantiations} x {no fortran_generic, 2 entries with / without explicit suffix} x {free function, class method} (6 C++ names per library; libraries vary namespace, C_prefix and wrapper set), plus random mixes in the thorough tier: every callable signature must have exactly one external C symbol with the predicted name bound to the predicted arity, exactly one Fortran specific, generic interfaces / type-bound generics listing exactly the specifics of their C++ name, and no duplicate symbol, module procedure, PyMethodDef or luaL_Reg entry.",
    note="Trusted: naming model (vf/libgen/libs.py:assign_names), nm, regex readers of the Fortran module. C++ names are lower case (un_camel = identity). Four known findings (template overload interactions) are listed.",
    design="DESIGN.md §2 C08"),
 "C03": dict(
    technique="generated extension compiled with ASan+UBSan together with an instrumented subject library, imported by CPython 3.12 under LD_PRELOAD=libasan and driven with positive, negative and repeated calls; library RECV/SEND trace, returned objects, exception classes and reference-count deltas compared with a reference model",
    text="numpy-free libraries (scalars of all native types, bool, char*/std::string in/out/result, list-mode arrays in/out/inout, overloads, default arguments, function templates, classes) for language c and c++: every function is called with every split into positional prefix + keywords (all keyword orders up to 3), every default arity, battery values; negative calls (wrong arity, each argument replaced by every other type class, unknown keyword, duplicate positional+keyword, no-match on overloaded names) must raise TypeError/ValueError and must not reach the library; sys.getrefcount of fresh argument objects must not drift over 2000 calls on the success and on the failure path; classes are followed through constructor (positional and keyword), methods, static methods and del with object serials. ~2.4k operations quick, ~4.7k thorough.",
    note="Trusted: reference model, documented Python API (result followed by out/inout arguments), CPython 3.12. Not covered: numpy mode (no numpy in the sandbox), size_t values above SSIZE_MAX ('n' unit), keyword calls that skip an earlier defaulted argument (documented as unsupported).",
    design="DESIGN.md §2 C03"),
 "C18": dict(
    technique="generated Lua binding compiled with ASan+UBSan against minilua (a reference emulator of the Lua 5.3 C API surface the emitter uses), linked with an instrumented subject library and driven by a synthesised C driver that builds argument stacks; library trace and results left on the stack compared with a reference model",
    text="Libraries of the Lua-capable shapes (scalars of all native types, bool, std::string in / result, overloads, default arguments with/without suffixes, classes with constructors, methods and __gc) for language c and c++: matching stacks with the value battery must reach the selected entry point with the same values and leave the library's result and count; non-matching stacks (wrong count, each slot replaced by other Lua types) must raise a Lua error; objects are followed by serial through construction, methods and collection, and the live-object count must be zero after close. ~1k stacks quick, ~3.4k thorough.",
    note="TRUSTED BASE: native/minilua/minilua.c stands in for the interpreter (no Lua runtime or headers can be installed here); the binding itself is the real generated code running under ASan. Five known findings (no argument checking outside overload dispatch; method argument indices) are listed.",
    design="DESIGN.md §2 C18"),
}

NOT_APPLICABLE = []

def main():
    checks = []
    for pid in sorted(CHECKS):
        c = CHECKS[pid]
        checks.append({
            "property_id": pid,
            "quick_cmd": "./check %s --tier quick" % pid,
            "thorough_cmd": "./check %s --tier thorough" % pid,
            "evidence_file": "evidence/%s.json" % pid,
            "replay_cmd_template": "./check %s --replay {path}" % pid,
            "engine": "vf",
            "level_claimed": {"category": c.get("category", "exploration"), "text": c["text"], "design_ref": c["design"]},
            "level_note": c["note"],
            "technique": c["technique"],
        })
    m = {
        "version": 1,
        "setup_cmd": "./setup.sh",
        "hooks": {
            "guard": "SHROUD_VERIF",
            "enable": "no source hooks: monitors are attached from /verif by wrapping functions of the imported shroud modules (vf/monitors.py); the guard name is reserved and unused",
            "baseline_off_cmd": "cd /repo && /venv/bin/python -m pytest -ra -q -p no:cacheprovider --timeout=900 --continue-on-collection-errors",
            "source_commits": [],
            "add_only": True,
        },
        "engines": [
            {"name": "vf", "path": "vf/", "serves_properties": sorted(CHECKS),
             "kind_free_text": "runtime monitoring: real Shroud runs under harness-attached monitors (audit hook, wrapped emit/parse functions), generated code compiled with ASan/UBSan and driven by synthesised drivers against instrumented subject libraries; offline oracles over recorded outputs and traces"},
        ],
        "checks": checks,
        "not_applicable": NOT_APPLICABLE + [
            {"property_id": json.loads(l)["id"], "reason": "check not built yet in this session (planned, see DESIGN.md section 2); not claimed until it runs clean on the unchanged tree"}
            for l in open(os.path.join(HERE, "properties.jsonl")) if l.strip()
            and json.loads(l)["id"] not in CHECKS and json.loads(l)["id"] not in [n["property_id"] for n in NOT_APPLICABLE]],
        "notes": "All checks run /repo's working tree (VERIF_REPO overrides for self-tests only). Exit 0 held / 1 violation / 2 inconclusive.",
    }
    with open(os.path.join(HERE, "MANIFEST.json"), "w") as f:
        json.dump(m, f, indent=1)
        f.write("\n")

if __name__ == "__main__":
    main()
