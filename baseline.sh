#!/bin/sh
cd /repo && /venv/bin/python -m pytest -ra -q -p no:cacheprovider --timeout=900 --continue-on-collection-errors 2>&1 | tail -6
