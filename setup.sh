#!/bin/sh
# Offline setup: nothing to build; verifies the tools the checks need are present.
set -e
cd "$(dirname "$0")"
/venv/bin/python -c "import yaml, sys; sys.path.insert(0,'/repo'); import shroud.main"
for t in gcc g++ gfortran; do command -v $t >/dev/null || { echo "missing $t"; exit 1; }; done
mkdir -p evidence
echo setup ok
