"""Generic Python driver (E3) for C03: runs inside /venv/bin/python with the ASan-built extension
(LD_PRELOAD=libasan).  Reads a plan (JSON) on argv[1]; for every op calls the extension and prints
one 'OUT k <json>' line.  Values: int, bool, str, None, {"f": hexfloat}, lists, {"t": [...]} tuples,
{"exc": class name, "msg": text} for exceptions.  vf_mark(k) (exported by the subject library inside
the extension .so) is called before every op so that the library trace can be attributed."""
import ctypes
import faulthandler
import gc
import importlib
import json
import sys

faulthandler.enable()


def dec(v):
    if isinstance(v, dict) and "f" in v:
        return float.fromhex(v["f"])
    if isinstance(v, dict) and "obj" in v:
        return OBJS[v["obj"]]
    if isinstance(v, dict) and "special" in v:
        return {"object": object(), "none": None}[v["special"]]
    if isinstance(v, list):
        return [dec(x) for x in v]
    return v


def enc(v):
    if isinstance(v, bool) or v is None or isinstance(v, (int, str)):
        return v
    if isinstance(v, float):
        return {"f": v.hex()}
    if isinstance(v, tuple):
        return {"t": [enc(x) for x in v]}
    if isinstance(v, list):
        return [enc(x) for x in v]
    if isinstance(v, bytes):
        return {"bytes": v.hex()}
    return {"repr": type(v).__name__}


OBJS = {}


def main():
    plan = json.load(open(sys.argv[1]))
    sys.path.insert(0, plan["dir"])
    mod = importlib.import_module(plan["module"])
    lib = ctypes.CDLL(mod.__file__)
    lib.vf_mark.argtypes = [ctypes.c_int]
    for op in plan["ops"]:
        k = op["k"]
        lib.vf_mark(k)
        try:
            pos = [dec(x) for x in op.get("pos", [])]
            kw = {a: dec(b) for a, b in op.get("kw", {}).items()}
            kind = op["kind"]
            if kind == "call":
                r = getattr(mod, op["name"])(*pos, **kw)
            elif kind == "new":
                OBJS[op["obj"]] = getattr(mod, op["name"])(*pos, **kw)
                r = True
            elif kind == "callobj":
                OBJS[op["obj"]] = getattr(mod, op["name"])(*pos, **kw)
                r = type(OBJS[op["obj"]]).__name__
            elif kind == "methodobj":
                OBJS[op["obj"]] = getattr(OBJS[op["src"]], op["name"])(*pos, **kw)
                r = type(OBJS[op["obj"]]).__name__
            elif kind == "alias":
                OBJS[op["obj"]] = OBJS[op["of"]]
                r = True
            elif kind == "method":
                r = getattr(OBJS[op["obj"]], op["name"])(*pos, **kw)
            elif kind == "static":
                r = getattr(getattr(mod, op["cls"]), op["name"])(*pos, **kw)
            elif kind == "del":
                del OBJS[op["obj"]]
                gc.collect()
                r = None
            elif kind == "repeat":
                # reference-count drift of fresh argument objects over many calls (success or failure path)
                fn = getattr(mod, op["name"])
                before = [sys.getrefcount(x) for x in pos] + [sys.getrefcount(x) for x in kw.values()]
                n_ok = n_exc = 0
                for _ in range(50):            # warm-up: caches, interned values, lazily created module state
                    try:
                        fn(*pos, **kw)
                    except (TypeError, ValueError):
                        pass
                gc.collect()
                blocks0 = sys.getallocatedblocks()
                for _ in range(op["n"]):
                    try:
                        fn(*pos, **kw)            # the result is dropped at once
                        n_ok += 1
                    except (TypeError, ValueError):
                        n_exc += 1
                gc.collect()
                blocks1 = sys.getallocatedblocks()
                after = [sys.getrefcount(x) for x in pos] + [sys.getrefcount(x) for x in kw.values()]
                r = {"t": [[b - a for a, b in zip(before, after)], n_ok, n_exc, blocks1 - blocks0]}
                print("OUT %d %s" % (k, json.dumps(r)), flush=True)
                continue
            else:
                raise RuntimeError("bad op")
            print("OUT %d %s" % (k, json.dumps(enc(r))), flush=True)
        except BaseException as e:
            print("OUT %d %s" % (k, json.dumps({"exc": type(e).__name__, "msg": str(e)[:200]})), flush=True)
    lib.vf_mark(len(plan["ops"]))
    OBJS.clear()
    gc.collect()
    lib.vf_mark(len(plan["ops"]) + 1)


main()
