/* minilua: a small reference emulator of exactly the Lua 5.3 C API surface that
 * Shroud's Lua emitter uses.  Semantics follow the Lua 5.3 reference manual
 * (section 4).  Only the interpreter behind the API is emulated; the generated
 * binding that includes this header is the real code under test.
 * Trusted base of C18 and of the Lua part of C05.
 */
#ifndef MINILUA_LUA_H
#define MINILUA_LUA_H

#include <stddef.h>
#include "luaconf.h"

#ifdef __cplusplus
extern "C" {
#endif

#define LUA_VERSION_MAJOR "5"
#define LUA_VERSION_MINOR "3"
#define LUA_VERSION_NUM 503

#define LUA_OK 0
#define LUA_ERRRUN 2

#define LUA_TNONE (-1)
#define LUA_TNIL 0
#define LUA_TBOOLEAN 1
#define LUA_TLIGHTUSERDATA 2
#define LUA_TNUMBER 3
#define LUA_TSTRING 4
#define LUA_TTABLE 5
#define LUA_TFUNCTION 6
#define LUA_TUSERDATA 7
#define LUA_TTHREAD 8

#define LUAI_MAXSTACK 1000000
#define LUA_REGISTRYINDEX (-LUAI_MAXSTACK - 1000)

typedef struct lua_State lua_State;
typedef LUA_NUMBER lua_Number;
typedef LUA_INTEGER lua_Integer;
typedef int (*lua_CFunction)(lua_State *L);

int lua_gettop(lua_State *L);
void lua_settop(lua_State *L, int idx);
void lua_pushvalue(lua_State *L, int idx);
int lua_checkstack(lua_State *L, int n);

int lua_type(lua_State *L, int idx);
const char *lua_typename(lua_State *L, int tp);
int lua_isinteger(lua_State *L, int idx);
int lua_isnumber(lua_State *L, int idx);
int lua_isstring(lua_State *L, int idx);

lua_Number lua_tonumberx(lua_State *L, int idx, int *isnum);
lua_Integer lua_tointegerx(lua_State *L, int idx, int *isnum);
int lua_toboolean(lua_State *L, int idx);
const char *lua_tolstring(lua_State *L, int idx, size_t *len);
void *lua_touserdata(lua_State *L, int idx);

void lua_pushnil(lua_State *L);
void lua_pushnumber(lua_State *L, lua_Number n);
void lua_pushinteger(lua_State *L, lua_Integer n);
const char *lua_pushstring(lua_State *L, const char *s);
const char *lua_pushlstring(lua_State *L, const char *s, size_t len);
void lua_pushboolean(lua_State *L, int b);
void lua_pushcclosure(lua_State *L, lua_CFunction fn, int n);

void lua_createtable(lua_State *L, int narr, int nrec);
void *lua_newuserdata(lua_State *L, size_t sz);
int lua_getfield(lua_State *L, int idx, const char *k);
void lua_setfield(lua_State *L, int idx, const char *k);
int lua_getmetatable(lua_State *L, int objindex);
int lua_setmetatable(lua_State *L, int objindex);

#define lua_tonumber(L, i) lua_tonumberx(L, (i), NULL)
#define lua_tointeger(L, i) lua_tointegerx(L, (i), NULL)
#define lua_tostring(L, i) lua_tolstring(L, (i), NULL)
#define lua_pop(L, n) lua_settop(L, -(n) - 1)
#define lua_newtable(L) lua_createtable(L, 0, 0)
#define lua_pushcfunction(L, f) lua_pushcclosure(L, (f), 0)
#define lua_isnil(L, n) (lua_type(L, (n)) == LUA_TNIL)
#define lua_isnone(L, n) (lua_type(L, (n)) == LUA_TNONE)
#define lua_isnoneornil(L, n) (lua_type(L, (n)) <= 0)
#define lua_isboolean(L, n) (lua_type(L, (n)) == LUA_TBOOLEAN)
#define lua_istable(L, n) (lua_type(L, (n)) == LUA_TTABLE)
#define lua_isfunction(L, n) (lua_type(L, (n)) == LUA_TFUNCTION)
#define lua_isuserdata(L, n) (lua_type(L, (n)) == LUA_TUSERDATA)

/* ---- driver side (not part of Lua): used only by the synthesised drivers */
lua_State *mini_newstate(void);
void mini_close(lua_State *L);                  /* runs pending __gc finalisers, frees everything */
/* call the function value at index -(nargs+1) with nargs arguments above it, like lua_pcall with
   LUA_MULTRET: returns LUA_OK and leaves the results, or LUA_ERRRUN and leaves the message */
int mini_pcall(lua_State *L, int nargs, int *nresults);
/* push field 'name' of the table (or of the metatable's __index of a userdata) at idx */
int mini_getmethod(lua_State *L, int idx, const char *name);
/* run the __gc metamethod of the userdata at idx once (as the collector would) */
int mini_collect(lua_State *L, int idx);
long mini_live_userdata(lua_State *L);          /* userdata created and not yet finalised */

#ifdef __cplusplus
}
#endif
#endif
