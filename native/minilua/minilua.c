/* minilua.c -- tagged-value stack machine behind the Lua 5.3 C API subset in lua.h.
 * Written to the Lua 5.3 reference manual, section 4 (the C API):
 *   - each C function call gets its own stack frame; index 1 is its first argument;
 *   - negative indices are relative to the top; LUA_REGISTRYINDEX is the registry;
 *   - lua_type of an unacceptable (beyond top) index is LUA_TNONE;
 *   - lua_tointegerx converts floats with an exact integer value and numeric strings;
 *     lua_tolstring converts numbers in place;
 *   - luaL_error raises an error (longjmp to the innermost protected call).
 * No garbage collector: values live until mini_close; __gc is run by mini_collect /
 * mini_close exactly once per userdata.
 */
#include <setjmp.h>
#include <stdarg.h>
#include <stdio.h>
#include <stdlib.h>
#include <string.h>
#include <math.h>
#include "lua.h"
#include "lauxlib.h"

typedef struct Table Table;
typedef struct Udata Udata;

typedef struct {
    int t;     /* LUA_T*  */
    int isint; /* for numbers */
    union {
        lua_Integer i;
        lua_Number n;
        int b;
        char *s;
        Table *tab;
        Udata *ud;
        lua_CFunction f;
        void *p;
    } u;
    size_t slen;
} TValue;

typedef struct Field {
    char *key;
    TValue val;
    struct Field *next;
} Field;

struct Table {
    Field *fields;
    Table *meta;
    Table *nextalloc;
};

struct Udata {
    void *block;
    size_t size;
    Table *meta;
    int finalised;
    Udata *nextalloc;
};

#define STACK_MAX 4096

struct lua_State {
    TValue stack[STACK_MAX];
    int top;   /* absolute index of first free slot */
    int base;  /* absolute index of slot for index 1 of the running function */
    Table *registry;
    Table *alltables;
    Udata *alludata;
    char **strings;
    size_t nstrings, capstrings;
    jmp_buf *errjmp;
    char errmsg[512];
    long live_udata;
};

static void mini_throw(lua_State *L, const char *msg)
{
    snprintf(L->errmsg, sizeof L->errmsg, "%s", msg);
    if (L->errjmp)
        longjmp(*L->errjmp, 1);
    fprintf(stderr, "minilua: unprotected error: %s\n", msg);
    abort();
}

static char *keep_string(lua_State *L, const char *s, size_t len)
{
    char *c = (char *) malloc(len + 1);
    memcpy(c, s, len);
    c[len] = '\0';
    if (L->nstrings == L->capstrings) {
        L->capstrings = L->capstrings ? L->capstrings * 2 : 64;
        L->strings = (char **) realloc(L->strings, L->capstrings * sizeof(char *));
    }
    L->strings[L->nstrings++] = c;
    return c;
}

static Table *new_table(lua_State *L)
{
    Table *t = (Table *) calloc(1, sizeof(Table));
    t->nextalloc = L->alltables;
    L->alltables = t;
    return t;
}

static TValue nilvalue(void)
{
    TValue v;
    memset(&v, 0, sizeof v);
    v.t = LUA_TNIL;
    return v;
}

static TValue *tab_find(Table *t, const char *k)
{
    Field *f;
    for (f = t->fields; f; f = f->next)
        if (strcmp(f->key, k) == 0)
            return &f->val;
    return NULL;
}

static void tab_set(lua_State *L, Table *t, const char *k, TValue v)
{
    TValue *p = tab_find(t, k);
    if (p) {
        *p = v;
        return;
    }
    Field *f = (Field *) calloc(1, sizeof(Field));
    f->key = keep_string(L, k, strlen(k));
    f->val = v;
    f->next = t->fields;
    t->fields = f;
}

/* absolute slot for an acceptable index, or NULL */
static TValue *index2value(lua_State *L, int idx)
{
    static TValue regval;
    if (idx > 0) {
        int a = L->base + idx - 1;
        if (a >= L->top)
            return NULL;
        return &L->stack[a];
    } else if (idx == LUA_REGISTRYINDEX) {
        regval.t = LUA_TTABLE;
        regval.u.tab = L->registry;
        return &regval;
    } else if (idx < 0) {
        int a = L->top + idx;
        if (a < L->base)
            mini_throw(L, "minilua: invalid negative index");
        return &L->stack[a];
    }
    mini_throw(L, "minilua: index 0 is not acceptable");
    return NULL;
}

static void push(lua_State *L, TValue v)
{
    if (L->top >= STACK_MAX)
        mini_throw(L, "stack overflow");
    L->stack[L->top++] = v;
}

/* ------------------------------------------------------------------ basic stack */
int lua_gettop(lua_State *L) { return L->top - L->base; }

void lua_settop(lua_State *L, int idx)
{
    int newtop;
    if (idx >= 0)
        newtop = L->base + idx;
    else
        newtop = L->top + idx + 1;
    if (newtop < L->base || newtop > STACK_MAX)
        mini_throw(L, "minilua: lua_settop out of range");
    while (L->top < newtop)
        L->stack[L->top++] = nilvalue();
    L->top = newtop;
}

void lua_pushvalue(lua_State *L, int idx)
{
    TValue *v = index2value(L, idx);
    push(L, v ? *v : nilvalue());
}

int lua_checkstack(lua_State *L, int n) { return L->top + n < STACK_MAX; }

int lua_type(lua_State *L, int idx)
{
    TValue *v = index2value(L, idx);
    return v ? v->t : LUA_TNONE;
}

const char *lua_typename(lua_State *L, int tp)
{
    static const char *names[] = {"no value", "nil", "boolean", "userdata", "number", "string", "table", "function", "userdata", "thread"};
    (void) L;
    return names[tp + 1];
}

static int str2number(const char *s, TValue *out)
{
    char *end;
    while (*s == ' ' || *s == '\t' || *s == '\n')
        s++;
    if (*s == '\0')
        return 0;
    long long i = strtoll(s, &end, 10);
    const char *e = end;
    while (*e == ' ' || *e == '\t' || *e == '\n')
        e++;
    if (end != s && *e == '\0') {
        out->t = LUA_TNUMBER;
        out->isint = 1;
        out->u.i = i;
        return 1;
    }
    double d = strtod(s, &end);
    e = end;
    while (*e == ' ' || *e == '\t' || *e == '\n')
        e++;
    if (end != s && *e == '\0') {
        out->t = LUA_TNUMBER;
        out->isint = 0;
        out->u.n = d;
        return 1;
    }
    return 0;
}

int lua_isinteger(lua_State *L, int idx)
{
    TValue *v = index2value(L, idx);
    return v && v->t == LUA_TNUMBER && v->isint;
}

int lua_isnumber(lua_State *L, int idx)
{
    TValue *v = index2value(L, idx), tmp;
    if (!v)
        return 0;
    if (v->t == LUA_TNUMBER)
        return 1;
    return v->t == LUA_TSTRING && str2number(v->u.s, &tmp);
}

int lua_isstring(lua_State *L, int idx)
{
    int t = lua_type(L, idx);
    return t == LUA_TSTRING || t == LUA_TNUMBER;
}

lua_Number lua_tonumberx(lua_State *L, int idx, int *isnum)
{
    TValue *v = index2value(L, idx), tmp;
    if (isnum)
        *isnum = 0;
    if (!v)
        return 0;
    if (v->t == LUA_TSTRING && str2number(v->u.s, &tmp))
        v = &tmp;
    if (v->t != LUA_TNUMBER)
        return 0;
    if (isnum)
        *isnum = 1;
    return v->isint ? (lua_Number) v->u.i : v->u.n;
}

lua_Integer lua_tointegerx(lua_State *L, int idx, int *isnum)
{
    TValue *v = index2value(L, idx), tmp;
    if (isnum)
        *isnum = 0;
    if (!v)
        return 0;
    if (v->t == LUA_TSTRING && str2number(v->u.s, &tmp))
        v = &tmp;
    if (v->t != LUA_TNUMBER)
        return 0;
    if (v->isint) {
        if (isnum)
            *isnum = 1;
        return v->u.i;
    }
    /* float with an exact integer representation */
    if (v->u.n == floor(v->u.n) && v->u.n >= -9223372036854775808.0 && v->u.n < 9223372036854775808.0) {
        if (isnum)
            *isnum = 1;
        return (lua_Integer) v->u.n;
    }
    return 0;
}

int lua_toboolean(lua_State *L, int idx)
{
    TValue *v = index2value(L, idx);
    if (!v || v->t == LUA_TNIL)
        return 0;
    if (v->t == LUA_TBOOLEAN)
        return v->u.b;
    return 1;
}

const char *lua_tolstring(lua_State *L, int idx, size_t *len)
{
    TValue *v = index2value(L, idx);
    if (!v) {
        if (len)
            *len = 0;
        return NULL;
    }
    if (v->t == LUA_TNUMBER) {
        char buf[64];
        if (v->isint)
            snprintf(buf, sizeof buf, "%lld", v->u.i);
        else {
            snprintf(buf, sizeof buf, "%.14g", v->u.n);
            if (!strpbrk(buf, ".eEni"))
                strcat(buf, ".0");
        }
        v->u.s = keep_string(L, buf, strlen(buf));
        v->slen = strlen(buf);
        v->t = LUA_TSTRING;
    }
    if (v->t != LUA_TSTRING) {
        if (len)
            *len = 0;
        return NULL;
    }
    if (len)
        *len = v->slen;
    return v->u.s;
}

void *lua_touserdata(lua_State *L, int idx)
{
    TValue *v = index2value(L, idx);
    if (!v)
        return NULL;
    if (v->t == LUA_TUSERDATA)
        return v->u.ud->block;
    if (v->t == LUA_TLIGHTUSERDATA)
        return v->u.p;
    return NULL;
}

/* ------------------------------------------------------------------ push */
void lua_pushnil(lua_State *L) { push(L, nilvalue()); }

void lua_pushnumber(lua_State *L, lua_Number n)
{
    TValue v = nilvalue();
    v.t = LUA_TNUMBER;
    v.isint = 0;
    v.u.n = n;
    push(L, v);
}

void lua_pushinteger(lua_State *L, lua_Integer n)
{
    TValue v = nilvalue();
    v.t = LUA_TNUMBER;
    v.isint = 1;
    v.u.i = n;
    push(L, v);
}

const char *lua_pushlstring(lua_State *L, const char *s, size_t len)
{
    TValue v = nilvalue();
    v.t = LUA_TSTRING;
    v.u.s = keep_string(L, s, len);
    v.slen = len;
    push(L, v);
    return v.u.s;
}

const char *lua_pushstring(lua_State *L, const char *s)
{
    if (s == NULL) {
        lua_pushnil(L);
        return NULL;
    }
    return lua_pushlstring(L, s, strlen(s));
}

void lua_pushboolean(lua_State *L, int b)
{
    TValue v = nilvalue();
    v.t = LUA_TBOOLEAN;
    v.u.b = b != 0;
    push(L, v);
}

void lua_pushcclosure(lua_State *L, lua_CFunction fn, int n)
{
    TValue v = nilvalue();
    if (n != 0)
        mini_throw(L, "minilua: upvalues are not supported");
    v.t = LUA_TFUNCTION;
    v.u.f = fn;
    push(L, v);
}

/* ------------------------------------------------------------------ tables / userdata */
void lua_createtable(lua_State *L, int narr, int nrec)
{
    TValue v = nilvalue();
    (void) narr;
    (void) nrec;
    v.t = LUA_TTABLE;
    v.u.tab = new_table(L);
    push(L, v);
}

void *lua_newuserdata(lua_State *L, size_t sz)
{
    TValue v = nilvalue();
    Udata *u = (Udata *) calloc(1, sizeof(Udata));
    u->block = malloc(sz ? sz : 1);
    u->size = sz;
    u->nextalloc = L->alludata;
    L->alludata = u;
    L->live_udata++;
    v.t = LUA_TUSERDATA;
    v.u.ud = u;
    push(L, v);
    return u->block;
}

static Table *metatable_of(TValue *v)
{
    if (v->t == LUA_TTABLE)
        return v->u.tab->meta;
    if (v->t == LUA_TUSERDATA)
        return v->u.ud->meta;
    return NULL;
}

int lua_getfield(lua_State *L, int idx, const char *k)
{
    TValue *t = index2value(L, idx), *f;
    if (!t || t->t != LUA_TTABLE) {
        /* userdata: __index metamethod that is a table */
        Table *mt = t ? metatable_of(t) : NULL;
        TValue *ix = mt ? tab_find(mt, "__index") : NULL;
        if (ix && ix->t == LUA_TTABLE && (f = tab_find(ix->u.tab, k)) != NULL) {
            push(L, *f);
            return f->t;
        }
        if (!t || t->t != LUA_TUSERDATA)
            mini_throw(L, "attempt to index a non-table value");
        lua_pushnil(L);
        return LUA_TNIL;
    }
    f = tab_find(t->u.tab, k);
    push(L, f ? *f : nilvalue());
    return f ? f->t : LUA_TNIL;
}

void lua_setfield(lua_State *L, int idx, const char *k)
{
    TValue *t = index2value(L, idx);
    if (!t || t->t != LUA_TTABLE)
        mini_throw(L, "attempt to index a non-table value (setfield)");
    if (L->top <= L->base)
        mini_throw(L, "minilua: lua_setfield on empty stack");
    Table *tab = t->u.tab; /* t may point into the stack slot that is popped below */
    tab_set(L, tab, k, L->stack[L->top - 1]);
    L->top--;
}

int lua_getmetatable(lua_State *L, int objindex)
{
    TValue *v = index2value(L, objindex);
    Table *mt = v ? metatable_of(v) : NULL;
    if (!mt)
        return 0;
    TValue t = nilvalue();
    t.t = LUA_TTABLE;
    t.u.tab = mt;
    push(L, t);
    return 1;
}

int lua_setmetatable(lua_State *L, int objindex)
{
    TValue *v = index2value(L, objindex);
    if (L->top <= L->base)
        mini_throw(L, "minilua: lua_setmetatable on empty stack");
    TValue mt = L->stack[L->top - 1];
    Table *m = NULL;
    if (mt.t == LUA_TTABLE)
        m = mt.u.tab;
    else if (mt.t != LUA_TNIL)
        mini_throw(L, "table or nil expected as metatable");
    if (v && v->t == LUA_TTABLE)
        v->u.tab->meta = m;
    else if (v && v->t == LUA_TUSERDATA)
        v->u.ud->meta = m;
    else
        mini_throw(L, "minilua: metatable only for tables and userdata");
    L->top--;
    return 1;
}

/* ------------------------------------------------------------------ auxiliary library */
int luaL_error(lua_State *L, const char *fmt, ...)
{
    char buf[480];
    va_list ap;
    va_start(ap, fmt);
    vsnprintf(buf, sizeof buf, fmt, ap);
    va_end(ap);
    mini_throw(L, buf);
    return 0;
}

int luaL_newmetatable(lua_State *L, const char *tname)
{
    TValue *f = tab_find(L->registry, tname);
    if (f && f->t != LUA_TNIL) {
        push(L, *f);
        return 0;
    }
    lua_createtable(L, 0, 2);
    TValue name = nilvalue();
    name.t = LUA_TSTRING;
    name.u.s = keep_string(L, tname, strlen(tname));
    name.slen = strlen(tname);
    tab_set(L, L->stack[L->top - 1].u.tab, "__name", name);
    tab_set(L, L->registry, tname, L->stack[L->top - 1]);
    return 1;
}

void luaL_setmetatable(lua_State *L, const char *tname)
{
    luaL_getmetatable(L, tname);
    lua_setmetatable(L, -2);
}

void *luaL_testudata(lua_State *L, int ud, const char *tname)
{
    TValue *v = index2value(L, ud);
    if (v && v->t == LUA_TUSERDATA) {
        TValue *f = tab_find(L->registry, tname);
        if (f && f->t == LUA_TTABLE && v->u.ud->meta == f->u.tab)
            return v->u.ud->block;
    }
    return NULL;
}

static void typeerror(lua_State *L, int arg, const char *tname)
{
    char buf[200];
    snprintf(buf, sizeof buf, "bad argument #%d (%s expected, got %s)", arg, tname, lua_typename(L, lua_type(L, arg)));
    mini_throw(L, buf);
}

void *luaL_checkudata(lua_State *L, int ud, const char *tname)
{
    void *p = luaL_testudata(L, ud, tname);
    if (p == NULL)
        typeerror(L, ud, tname);
    return p;
}

void luaL_setfuncs(lua_State *L, const luaL_Reg *l, int nup)
{
    if (nup != 0)
        mini_throw(L, "minilua: upvalues are not supported");
    if (L->top <= L->base || L->stack[L->top - 1].t != LUA_TTABLE)
        mini_throw(L, "luaL_setfuncs: table expected on top of the stack");
    Table *tab = L->stack[L->top - 1].u.tab;
    for (; l->name != NULL; l++) {
        TValue v = nilvalue();
        v.t = LUA_TFUNCTION;
        v.u.f = l->func;
        tab_set(L, tab, l->name, v);
    }
}

lua_Integer luaL_checkinteger(lua_State *L, int arg)
{
    int isnum;
    lua_Integer d = lua_tointegerx(L, arg, &isnum);
    if (!isnum)
        typeerror(L, arg, "number");
    return d;
}

lua_Number luaL_checknumber(lua_State *L, int arg)
{
    int isnum;
    lua_Number d = lua_tonumberx(L, arg, &isnum);
    if (!isnum)
        typeerror(L, arg, "number");
    return d;
}

const char *luaL_checklstring(lua_State *L, int arg, size_t *l)
{
    const char *s = lua_tolstring(L, arg, l);
    if (!s)
        typeerror(L, arg, "string");
    return s;
}

/* ------------------------------------------------------------------ driver side */
lua_State *mini_newstate(void)
{
    lua_State *L = (lua_State *) calloc(1, sizeof(lua_State));
    L->registry = new_table(L);
    return L;
}

int mini_pcall(lua_State *L, int nargs, int *nresults)
{
    jmp_buf jb, *saved = L->errjmp;
    int fidx = L->top - nargs - 1;
    int saved_base = L->base;
    if (fidx < L->base) {
        fprintf(stderr, "minilua: mini_pcall: not enough values\n");
        abort();
    }
    if (L->stack[fidx].t != LUA_TFUNCTION) {
        L->top = fidx;
        lua_pushstring(L, "attempt to call a non-function value");
        return LUA_ERRRUN;
    }
    lua_CFunction f = L->stack[fidx].u.f;
    L->errjmp = &jb;
    if (setjmp(jb) == 0) {
        L->base = fidx + 1;
        int n = f(L);
        if (n < 0 || n > L->top - L->base) {
            L->errjmp = saved;
            L->base = saved_base;
            L->top = fidx;
            lua_pushstring(L, "minilua: function returned more results than are on its stack");
            return LUA_ERRRUN;
        }
        /* move the n results down over the function and its arguments */
        int first = L->top - n, i;
        for (i = 0; i < n; i++)
            L->stack[fidx + i] = L->stack[first + i];
        L->top = fidx + n;
        L->base = saved_base;
        L->errjmp = saved;
        if (nresults)
            *nresults = n;
        return LUA_OK;
    }
    L->errjmp = saved;
    L->base = saved_base;
    L->top = fidx;
    lua_pushstring(L, L->errmsg);
    return LUA_ERRRUN;
}

int mini_getmethod(lua_State *L, int idx, const char *name)
{
    TValue *v = index2value(L, idx);
    if (v && v->t == LUA_TTABLE) {
        TValue *f = tab_find(v->u.tab, name);
        push(L, f ? *f : nilvalue());
        return f ? f->t : LUA_TNIL;
    }
    if (v && v->t == LUA_TUSERDATA && v->u.ud->meta) {
        TValue *ix = tab_find(v->u.ud->meta, "__index");
        TValue *f = (ix && ix->t == LUA_TTABLE) ? tab_find(ix->u.tab, name) : NULL;
        push(L, f ? *f : nilvalue());
        return f ? f->t : LUA_TNIL;
    }
    lua_pushnil(L);
    return LUA_TNIL;
}

static int finalise(lua_State *L, Udata *u)
{
    int rc = LUA_OK;
    if (u->finalised)
        return rc;
    u->finalised = 1;
    L->live_udata--;
    TValue *gc = u->meta ? tab_find(u->meta, "__gc") : NULL;
    if (gc && gc->t == LUA_TFUNCTION) {
        TValue self = nilvalue();
        int n;
        push(L, *gc);
        self.t = LUA_TUSERDATA;
        self.u.ud = u;
        push(L, self);
        rc = mini_pcall(L, 1, &n);
        if (rc == LUA_OK)
            L->top -= n;
        else
            L->top--;
    }
    return rc;
}

int mini_collect(lua_State *L, int idx)
{
    TValue *v = index2value(L, idx);
    if (!v || v->t != LUA_TUSERDATA)
        return -1;
    return finalise(L, v->u.ud);
}

long mini_live_userdata(lua_State *L) { return L->live_udata; }

void mini_close(lua_State *L)
{
    Udata *u, *un;
    Table *t, *tn;
    size_t i;
    for (u = L->alludata; u; u = u->nextalloc)
        finalise(L, u);
    for (u = L->alludata; u; u = un) {
        un = u->nextalloc;
        free(u->block);
        free(u);
    }
    for (t = L->alltables; t; t = tn) {
        Field *f, *fn;
        tn = t->nextalloc;
        for (f = t->fields; f; f = fn) {
            fn = f->next;
            free(f);
        }
        free(t);
    }
    for (i = 0; i < L->nstrings; i++)
        free(L->strings[i]);
    free(L->strings);
    free(L);
}
