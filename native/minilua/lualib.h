#ifndef MINILUA_LUALIB_H
#define MINILUA_LUALIB_H
#include "lua.h"
#endif
