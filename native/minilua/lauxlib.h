/* minilua: auxiliary library subset (see lua.h) */
#ifndef MINILUA_LAUXLIB_H
#define MINILUA_LAUXLIB_H
#include "lua.h"
#ifdef __cplusplus
extern "C" {
#endif

typedef struct luaL_Reg {
    const char *name;
    lua_CFunction func;
} luaL_Reg;

int luaL_error(lua_State *L, const char *fmt, ...);
int luaL_newmetatable(lua_State *L, const char *tname);
void luaL_setmetatable(lua_State *L, const char *tname);
void *luaL_checkudata(lua_State *L, int ud, const char *tname);
void *luaL_testudata(lua_State *L, int ud, const char *tname);
void luaL_setfuncs(lua_State *L, const luaL_Reg *l, int nup);
lua_Integer luaL_checkinteger(lua_State *L, int arg);
lua_Number luaL_checknumber(lua_State *L, int arg);
const char *luaL_checklstring(lua_State *L, int arg, size_t *l);

#define luaL_getmetatable(L, n) (lua_getfield(L, LUA_REGISTRYINDEX, (n)))
#define luaL_checkstring(L, n) (luaL_checklstring(L, (n), NULL))
#define luaL_newlibtable(L, l) lua_createtable(L, 0, sizeof(l) / sizeof((l)[0]) - 1)
#define luaL_newlib(L, l) (luaL_newlibtable(L, l), luaL_setfuncs(L, l, 0))

#ifdef __cplusplus
}
#endif
#endif
