/* minilua: configuration (part of the C18 trusted base) */
#ifndef MINILUA_LUACONF_H
#define MINILUA_LUACONF_H
#define LUA_INTEGER long long
#define LUA_NUMBER double
#endif
