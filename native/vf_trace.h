/* vf_trace.h -- trace, digest and output-derivation primitives of the synthesised subject
 * libraries (E2).  Must agree bit for bit with vf/libgen/ir.py (h_*, dmix, sub, out_*).
 * Header-only (static functions) so that C and C++ subject libraries and C drivers can all use it.
 */
#ifndef VF_TRACE_H
#define VF_TRACE_H
#include <stdio.h>
#include <stdlib.h>
#include <string.h>
#include <stdint.h>
#ifndef __cplusplus
#include <stdbool.h>
#endif

#ifdef __cplusplus
extern "C" {
#endif
long vf_live_objects(void); /* defined by the subject library */
#ifdef __cplusplus
}
#endif

static FILE *vf_fp(void)
{
    static FILE *fp = NULL;
    if (!fp) {
#ifdef VF_TRACE_STDOUT
        const char *p = NULL; /* drivers print their observations to stdout */
#else
        const char *p = getenv("VF_TRACE");
#endif
        fp = p ? fopen(p, "a") : stdout;
        if (!fp)
            fp = stdout;
    }
    return fp;
}

static void vf_begin(const char *what, const char *fid) { fprintf(vf_fp(), "%s %s", what, fid); }
static void vf_end(void)
{
    fputc('\n', vf_fp());
    fflush(vf_fp());
}
static void vf_log_i(const char *n, long long v, int is_signed)
{
    if (is_signed)
        fprintf(vf_fp(), " %s=i:%lld", n, v);
    else
        fprintf(vf_fp(), " %s=i:%llu", n, (unsigned long long) v);
}
static int32_t vf_bits4(float x)
{
    int32_t b;
    memcpy(&b, &x, 4);
    return b;
}
static int64_t vf_bits8(double x)
{
    int64_t b;
    memcpy(&b, &x, 8);
    return b;
}
static void vf_log_r4(const char *n, float v) { fprintf(vf_fp(), " %s=r4:%d", n, (int) vf_bits4(v)); }
static void vf_log_r8(const char *n, double v) { fprintf(vf_fp(), " %s=r8:%lld", n, (long long) vf_bits8(v)); }
static void vf_log_b(const char *n, int v) { fprintf(vf_fp(), " %s=b:%d", n, v ? 1 : 0); }
static void vf_log_s(const char *n, const char *s, long len)
{
    long i;
    if (s == NULL) {
        fprintf(vf_fp(), " %s=null", n);
        return;
    }
    if (len < 0)
        len = (long) strlen(s);
    fprintf(vf_fp(), " %s=s:%ld:", n, len);
    for (i = 0; i < len; i++)
        fprintf(vf_fp(), "%02x", (unsigned char) s[i]);
}

/* ---- digest */
static unsigned long long vf_mix(unsigned long long d, unsigned long long h) { return d * 1000003ULL + h; }
/* splitmix64 finaliser: every input bit influences every output bit, so outputs derived from a few
   bits of the result still depend on all arguments */
static unsigned long long vf_fin(unsigned long long z)
{
    z = (z ^ (z >> 30)) * 0xBF58476D1CE4E5B9ULL;
    z = (z ^ (z >> 27)) * 0x94D049BB133111EBULL;
    return z ^ (z >> 31);
}
static unsigned long long vf_sub(unsigned long long d, int k) { return vf_fin(d * 31ULL + 7ULL * (unsigned long long) (k + 1)); }
static unsigned long long vf_h_i(long long v) { return (unsigned long long) v; }
static unsigned long long vf_h_u(unsigned long long v) { return v; }
static unsigned long long vf_h_f(float v) { return (unsigned long long) (uint32_t) vf_bits4(v); }
static unsigned long long vf_h_d(double v) { return (unsigned long long) vf_bits8(v); }
static unsigned long long vf_h_b(int v) { return v ? 1ULL : 0ULL; }
#define VF_FNV0 1469598103934665603ULL
#define VF_FNVP 1099511628211ULL
static unsigned long long vf_h_s(const char *s, long len)
{
    unsigned long long h = VF_FNV0;
    long i;
    if (s == NULL)
        return 77ULL;
    if (len < 0)
        len = (long) strlen(s);
    h = (h ^ (unsigned long long) len) * VF_FNVP;
    for (i = 0; i < len; i++)
        h = (h ^ (unsigned long long) (unsigned char) s[i]) * VF_FNVP;
    return h;
}

/* ---- outputs derived from the digest */
static double vf_out_real(unsigned long long d) { return (double) ((d >> 8) % (1ULL << 20)) / 4.0 - 1000.0; }
static bool vf_out_bool(unsigned long long d) { return ((d >> 5) & 1ULL) != 0; }
static long vf_out_len(unsigned long long d) { return (long) ((d >> 13) % 6ULL); }
static void vf_out_str(char *buf, long maxlen, unsigned long long d)
{
    char tmp[64];
    switch ((d >> 33) % 6ULL) {
    case 0: snprintf(tmp, sizeof tmp, "r%08x", (unsigned) (d & 0xFFFFFFFFULL)); break;
    case 1: snprintf(tmp, sizeof tmp, "a b%04x", (unsigned) (d & 0xFFFFULL)); break;
    case 2: tmp[0] = '\0'; break;
    case 3: snprintf(tmp, sizeof tmp, "x"); break;
    case 4: snprintf(tmp, sizeof tmp, " lead%02x", (unsigned) (d & 0xFFULL)); break;
    default: snprintf(tmp, sizeof tmp, "mid  dle%x", (unsigned) (d & 0xFULL)); break;
    }
    if (maxlen >= 0 && (long) strlen(tmp) > maxlen)
        tmp[maxlen] = '\0';
    strcpy(buf, tmp);
}

/* exact-length variant (C10 level 2): the first min(max(n,0), maxlen) characters of a fixed pattern with
 * embedded and trailing blanks */
#define VF_PAT "ab c  de f   gh i jk  lmn o  pq r s t u v w x yz"
static void vf_out_strn(long n, char *buf, long maxlen, unsigned long long d)
{
    long k = n < 0 ? 0 : n;
    (void) d;
    if (maxlen >= 0 && k > maxlen)
        k = maxlen;
    if (k > (long) sizeof(VF_PAT) - 1)
        k = (long) sizeof(VF_PAT) - 1;
    memcpy(buf, VF_PAT, (size_t) k);
    buf[k] = '\0';
}

#define VF_ARR_INT(KEY, CT, SIGNED)                                                                       \
    static unsigned long long vf_h_arr_##KEY(const CT *a, long n)                                         \
    {                                                                                                     \
        unsigned long long h = VF_FNV0;                                                                   \
        long i;                                                                                           \
        h = (h ^ (unsigned long long) n) * VF_FNVP;                                                       \
        for (i = 0; i < n; i++)                                                                           \
            h = (h ^ (SIGNED ? vf_h_i((long long) a[i]) : vf_h_u((unsigned long long) a[i]))) * VF_FNVP;  \
        return h;                                                                                         \
    }                                                                                                     \
    static void vf_log_arr_##KEY(const char *nm, const CT *a, long n)                                     \
    {                                                                                                     \
        long i;                                                                                           \
        fprintf(vf_fp(), " %s=ai:%ld:", nm, n);                                                           \
        for (i = 0; i < n; i++) {                                                                         \
            if (SIGNED)                                                                                   \
                fprintf(vf_fp(), "%s%lld", i ? "," : "", (long long) a[i]);                               \
            else                                                                                          \
                fprintf(vf_fp(), "%s%llu", i ? "," : "", (unsigned long long) a[i]);                      \
        }                                                                                                 \
    }                                                                                                     \
    static void vf_fill_arr_##KEY(CT *a, long n, unsigned long long d)                                    \
    {                                                                                                     \
        long i;                                                                                           \
        for (i = 0; i < n; i++)                                                                           \
            a[i] = (CT) vf_sub(d, 1000 + (int) i);                                                        \
    }

#define VF_ARR_REAL(KEY, CT, HF, TAG, BITS)                                                               \
    static unsigned long long vf_h_arr_##KEY(const CT *a, long n)                                         \
    {                                                                                                     \
        unsigned long long h = VF_FNV0;                                                                   \
        long i;                                                                                           \
        h = (h ^ (unsigned long long) n) * VF_FNVP;                                                       \
        for (i = 0; i < n; i++)                                                                           \
            h = (h ^ HF(a[i])) * VF_FNVP;                                                                 \
        return h;                                                                                         \
    }                                                                                                     \
    static void vf_log_arr_##KEY(const char *nm, const CT *a, long n)                                     \
    {                                                                                                     \
        long i;                                                                                           \
        fprintf(vf_fp(), " %s=a" TAG ":%ld:", nm, n);                                                     \
        for (i = 0; i < n; i++)                                                                           \
            fprintf(vf_fp(), "%s%lld", i ? "," : "", (long long) BITS(a[i]));                             \
    }                                                                                                     \
    static void vf_fill_arr_##KEY(CT *a, long n, unsigned long long d)                                    \
    {                                                                                                     \
        long i;                                                                                           \
        for (i = 0; i < n; i++)                                                                           \
            a[i] = (CT) vf_out_real(vf_sub(d, 1000 + (int) i));                                           \
    }

VF_ARR_INT(int, int, 1)
VF_ARR_INT(long, long, 1)
VF_ARR_INT(short, short, 1)
VF_ARR_INT(long_long, long long, 1)
VF_ARR_INT(unsigned_int, unsigned int, 0)
VF_ARR_INT(size_t, size_t, 0)
VF_ARR_INT(int32_t, int32_t, 1)
VF_ARR_INT(int64_t, int64_t, 1)
VF_ARR_INT(int16_t, int16_t, 1)
VF_ARR_INT(uint16_t, uint16_t, 0)
VF_ARR_INT(uint32_t, uint32_t, 0)
VF_ARR_INT(uint64_t, uint64_t, 0)
VF_ARR_REAL(float, float, vf_h_f, "r4", vf_bits4)
VF_ARR_REAL(double, double, vf_h_d, "r8", vf_bits8)

/* registry of heap blocks the library handed to the caller as caller-owned (C06): at every marker the
 * library asks the sanitizer allocator which of them are still allocated.  -1 = not built with ASan. */
#define VF_MAX_OWNED 8192
static void *vf_owned_ptr[VF_MAX_OWNED];
static int vf_owned_n = 0;
#ifdef __cplusplus
extern "C"
#endif
int __sanitizer_get_ownership(const volatile void *p) __attribute__((weak));
static void vf_own(void *p)
{
    if (vf_owned_n < VF_MAX_OWNED)
        vf_owned_ptr[vf_owned_n++] = p;
}
static long vf_owned_live(void)
{
    long n = 0;
    int i;
    if (!__sanitizer_get_ownership)
        return -1;
    for (i = 0; i < vf_owned_n; i++)
        if (__sanitizer_get_ownership(vf_owned_ptr[i]))
            n++;
    return n;
}

/* quiescent-point marker: the drivers call it between operations */
static void vf_mark_impl(int k)
{
    fprintf(vf_fp(), "MARK %d live=%ld blocks=%ld\n", k, vf_live_objects(), vf_owned_live());
    fflush(vf_fp());
}

#if defined(__GNUC__)
#pragma GCC diagnostic ignored "-Wunused-function"
#endif
#endif
