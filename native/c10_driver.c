/* C10 level 1: exhaustive small-scope driver for Shroud's string helpers.
 *
 * Compiled twice, as C99 (c_source variants) and as C++11 (cxx_source
 * variants), with -fsanitize=address,undefined.  "helpers.inc" is the helper
 * text extracted at run time from whelpers.CHelpers of the working tree and
 * included unchanged.
 *
 * Every buffer handed to a helper is a heap block of exactly the stated size,
 * so AddressSanitizer reports any read or write outside [0,size).  Results are
 * compared with the executable specification written here (from the property
 * text, not from the helper code).
 */
#include <stdio.h>
#include <stdlib.h>
#include <string.h>
#ifdef __cplusplus
#include <string>
#endif

#ifndef VF_N
#define VF_N 8
#endif

static long vf_destructor_calls = 0;

#include "helpers.inc"

static long n_calls = 0, n_bad = 0;

#define BAD(...) do { if (n_bad < 40) { printf("MISMATCH " __VA_ARGS__); printf("\n"); } n_bad++; } while (0)

/* exact-size heap block; size 0 still gives a valid distinct pointer */
static char *blk(size_t n) { char *p = (char *) malloc(n ? n : 1); if (!p) abort(); return p; }

/* enumerate contents over {'a',' '}: all 2^len strings for len <= 6, else 6 patterns */
static int n_contents(int len) { return len <= 6 ? (1 << len) : 6; }
static void fill_content(char *p, int len, int k)
{
    int i;
    if (len <= 6) { for (i = 0; i < len; i++) p[i] = (k >> i) & 1 ? ' ' : 'a'; return; }
    for (i = 0; i < len; i++) {
        switch (k) {
        case 0: p[i] = 'a'; break;
        case 1: p[i] = ' '; break;
        case 2: p[i] = i < len / 2 ? 'a' : ' '; break;
        case 3: p[i] = i < len / 2 ? ' ' : 'a'; break;
        case 4: p[i] = i % 2 ? ' ' : 'b'; break;
        default: p[i] = i == len - 1 ? ' ' : 'c'; break;
        }
    }
}

static int spec_len_trim(const char *s, int n) { while (n > 0 && s[n - 1] == ' ') n--; return n; }

static void test_len_trim(void)
{
    int n, k;
    for (n = 0; n <= VF_N; n++)
        for (k = 0; k < n_contents(n); k++) {
            char *s = blk(n);
            fill_content(s, n, k);
            int got = ShroudLenTrim(s, n);
            n_calls++;
            if (got != spec_len_trim(s, n)) BAD("helper=ShroudLenTrim n=%d k=%d got=%d want=%d", n, k, got, spec_len_trim(s, n));
            free(s);
        }
}

static void test_str_copy(void)
{
    int ns, nd, k, mode;
    for (ns = 0; ns <= VF_N; ns++)
        for (nd = 0; nd <= VF_N; nd++)
            for (k = 0; k < n_contents(ns); k++)
                for (mode = 0; mode < 3; mode++) {
                    /* mode 0: explicit nsrc, source block of exactly nsrc bytes (no NUL)
                       mode 1: nsrc = -1, NUL-terminated source of ns characters
                       mode 2: src = NULL */
                    char *src = NULL;
                    int nsrc = ns, i;
                    if (mode == 0) { src = blk(ns); fill_content(src, ns, k); }
                    else if (mode == 1) { src = blk(ns + 1); fill_content(src, ns, k); src[ns] = '\0'; nsrc = -1; }
                    else if (k > 0) continue;
                    char *dest = blk(nd);
                    memset(dest, '#', nd);
                    ShroudStrCopy(dest, nd, src, nsrc);
                    n_calls++;
                    for (i = 0; i < nd; i++) {
                        char want = (src != NULL && i < ns) ? src[i] : ' ';
                        if (dest[i] != want) { BAD("helper=ShroudStrCopy mode=%d nsrc=%d ndest=%d k=%d pos=%d got=%d want=%d", mode, ns, nd, k, i, dest[i], want); break; }
                    }
                    free(dest);
                    free(src);
                }
}

static void test_blank_fill(void)
{
    int nd, L, k, i;
    /* caller contract (charlen): the library wrote L < ndest characters and a NUL */
    for (nd = 1; nd <= VF_N; nd++)
        for (L = 0; L < nd; L++)
            for (k = 0; k < n_contents(L); k++) {
                char *dest = blk(nd);
                char *ref = blk(nd);
                memset(dest, '#', nd);
                fill_content(dest, L, k);
                dest[L] = '\0';
                memcpy(ref, dest, nd);
                ShroudStrBlankFill(dest, nd);
                n_calls++;
                for (i = 0; i < nd; i++) {
                    char want = i < L ? ref[i] : ' ';
                    if (dest[i] != want) { BAD("helper=ShroudStrBlankFill ndest=%d L=%d k=%d pos=%d got=%d want=%d", nd, L, k, i, dest[i], want); break; }
                }
                free(dest);
                free(ref);
            }
}

static void test_str_alloc(void)
{
    int ns, nt, k;
    for (ns = 0; ns <= VF_N; ns++)
        for (k = 0; k < n_contents(ns); k++)
            for (nt = -1; nt <= ns; nt++) {
                char *src = blk(ns);
                fill_content(src, ns, k);
                int want = nt < 0 ? spec_len_trim(src, ns) : nt;
                char *rv = ShroudStrAlloc(src, ns, nt);
                n_calls++;
                if (rv == NULL) BAD("helper=ShroudStrAlloc returned NULL ns=%d nt=%d", ns, nt);
                else {
                    if ((int) strlen(rv) != want || memcmp(rv, src, want) != 0)
                        BAD("helper=ShroudStrAlloc nsrc=%d ntrim=%d k=%d got_len=%d want_len=%d", ns, nt, k, (int) strlen(rv), want);
                    ShroudStrFree(rv);
                }
                free(src);
            }
}

static void test_str_array(void)
{
    int n, len, k, i;
    for (n = 0; n <= 3; n++)
        for (len = 0; len <= (VF_N < 6 ? VF_N : 6); len++)
            for (k = 0; k < n_contents(len); k++) {
                char *src = blk((size_t) n * len);
                for (i = 0; i < n; i++) fill_content(src + i * len, len, (k + i * 5) % n_contents(len));
                char **rv = ShroudStrArrayAlloc(src, n, len);
                n_calls++;
                for (i = 0; i < n; i++) {
                    int want = spec_len_trim(src + i * len, len);
                    if ((int) strlen(rv[i]) != want || memcmp(rv[i], src + i * len, want) != 0)
                        BAD("helper=ShroudStrArrayAlloc n=%d len=%d k=%d item=%d got_len=%d want_len=%d", n, len, k, i, (int) strlen(rv[i]), want);
                }
                ShroudStrArrayFree(rv, n);
                free(src);
            }
}

#if defined(__cplusplus) && defined(VF_HAVE_COPY_STRING)
static void test_copy_string(void)
{
    int L, nv, k, i;
    for (L = 0; L <= VF_N; L++)
        for (nv = 0; nv <= VF_N; nv++)
            for (k = 0; k < n_contents(L); k++) {
                char *tmp = blk(L);
                fill_content(tmp, L, k);
                std::string *s = new std::string(tmp, L);
                VF_ARRAY_TYPE arr;
                memset(&arr, 0, sizeof arr);
                ShroudStrToArray(&arr, s, 1);
                n_calls++;
                if (arr.elem_len != (size_t) L) BAD("helper=ShroudStrToArray len=%d elem_len=%d", L, (int) arr.elem_len);
                if (L == 0 && arr.addr.ccharp != NULL) { /* documented: empty -> NULL */ BAD("helper=ShroudStrToArray empty string not NULL"); }
                char *c_var = blk(nv);
                memset(c_var, '#', nv);
                long before = vf_destructor_calls;
                VF_COPY_STRING(&arr, c_var, (size_t) nv);
                n_calls++;
                int ncopy = L < nv ? L : nv;
                for (i = 0; i < nv; i++) {
                    char want = i < ncopy ? tmp[i] : '#';
                    if (c_var[i] != want) { BAD("helper=ShroudCopyStringAndFree len=%d c_var_len=%d k=%d pos=%d got=%d want=%d", L, nv, k, i, c_var[i], want); break; }
                }
                if (vf_destructor_calls != before + 1) BAD("helper=ShroudCopyStringAndFree destructor calls %ld", vf_destructor_calls - before);
                free(c_var);
                free(tmp);
                delete s;
            }
}
#endif

int main(void)
{
    test_len_trim();
    test_str_copy();
    test_blank_fill();
    test_str_alloc();
    test_str_array();
#if defined(__cplusplus) && defined(VF_HAVE_COPY_STRING)
    test_copy_string();
#endif
    printf("DONE calls=%ld mismatches=%ld N=%d\n", n_calls, n_bad, VF_N);
    return n_bad ? 3 : 0;
}
