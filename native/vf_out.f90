! vf_out -- printing helpers of the synthesised Fortran drivers (E3).
! Values are printed in the representation shared with the subject library's trace
! (see native/vf_trace.h and vf/libgen/ir.py): i:<decimal>, r4:<bits>, r8:<bits>, b:0|1,
! s:<len>:<hex>, ai:<n>:v,v,...
module vf_out
  use iso_c_binding
  implicit none
  interface
     subroutine vf_mark(k) bind(C, name="vf_mark")
       import :: C_INT
       integer(C_INT), value :: k
     end subroutine vf_mark
  end interface
contains
  subroutine vfo_begin(k)
    integer, intent(in) :: k
    write(*,'(A,I0)',advance='no') 'OUT ', k
  end subroutine vfo_begin
  subroutine vfo_end()
    write(*,'(A)') ''
    flush(6)
  end subroutine vfo_end
  subroutine vfo_i(name, v)
    character(len=*), intent(in) :: name
    integer(C_LONG_LONG), intent(in) :: v
    write(*,'(1X,A,A,I0)',advance='no') name, '=i:', v
  end subroutine vfo_i
  subroutine vfo_r4(name, v)
    character(len=*), intent(in) :: name
    real(C_FLOAT), intent(in) :: v
    write(*,'(1X,A,A,I0)',advance='no') name, '=r4:', transfer(v, 0_C_INT32_T)
  end subroutine vfo_r4
  subroutine vfo_r8(name, v)
    character(len=*), intent(in) :: name
    real(C_DOUBLE), intent(in) :: v
    write(*,'(1X,A,A,I0)',advance='no') name, '=r8:', transfer(v, 0_C_INT64_T)
  end subroutine vfo_r8
  subroutine vfo_b(name, v)
    character(len=*), intent(in) :: name
    logical, intent(in) :: v
    if (v) then
       write(*,'(1X,A,A)',advance='no') name, '=b:1'
    else
       write(*,'(1X,A,A)',advance='no') name, '=b:0'
    end if
  end subroutine vfo_b
  subroutine vfo_s(name, s)
    character(len=*), intent(in) :: name
    character(len=*), intent(in) :: s
    integer :: i
    write(*,'(1X,A,A,I0,A)',advance='no') name, '=s:', len(s), ':'
    do i = 1, len(s)
       write(*,'(Z2.2)',advance='no') ichar(s(i:i))
    end do
  end subroutine vfo_s
  subroutine vfo_ai(name, a)
    character(len=*), intent(in) :: name
    integer(C_LONG_LONG), intent(in) :: a(:)
    integer :: i
    write(*,'(1X,A,A,I0,A)',advance='no') name, '=ai:', size(a), ':'
    do i = 1, size(a)
       if (i > 1) write(*,'(A)',advance='no') ','
       write(*,'(I0)',advance='no') a(i)
    end do
  end subroutine vfo_ai
  subroutine vfo_ar4(name, a)
    character(len=*), intent(in) :: name
    real(C_FLOAT), intent(in) :: a(:)
    integer :: i
    write(*,'(1X,A,A,I0,A)',advance='no') name, '=ar4:', size(a), ':'
    do i = 1, size(a)
       if (i > 1) write(*,'(A)',advance='no') ','
       write(*,'(I0)',advance='no') transfer(a(i), 0_C_INT32_T)
    end do
  end subroutine vfo_ar4
  subroutine vfo_ar8(name, a)
    character(len=*), intent(in) :: name
    real(C_DOUBLE), intent(in) :: a(:)
    integer :: i
    write(*,'(1X,A,A,I0,A)',advance='no') name, '=ar8:', size(a), ':'
    do i = 1, size(a)
       if (i > 1) write(*,'(A)',advance='no') ','
       write(*,'(I0)',advance='no') transfer(a(i), 0_C_INT64_T)
    end do
  end subroutine vfo_ar8
  ! callback handed to libraries that take  int (*fn)(int)
  function vf_cb3(i) bind(C) result(r)
    integer(C_INT), value :: i
    integer(C_INT) :: r
    r = 3*i + 1
  end function vf_cb3
  function vf_cbd(x) bind(C) result(r)
    real(C_DOUBLE), value :: x
    real(C_DOUBLE) :: r
    r = 2*x + 0.25_C_DOUBLE
  end function vf_cbd
  function vf_cbl(i, x) bind(C) result(r)
    integer(C_INT), value :: i
    real(C_DOUBLE), value :: x
    integer(C_LONG) :: r
    r = 100_C_LONG*i + int(2*x, C_LONG)
  end function vf_cbl
end module vf_out
