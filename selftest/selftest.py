#!/venv/bin/python
"""Self-validation of the monitors: apply one deliberate break to a scratch copy
of /repo and require the property's check to report a VIOLATION.

usage: selftest.py [--tier quick] [patch-name ...]      (default: all patches)
Patch files: selftest/patches/<PROP>-<name>.diff (git apply format, relative to repo root).
selftest/benign/*.diff are changes that do NOT break the property: the check must stay quiet on them.
"""
import argparse
import glob
import os
import shutil
import subprocess
import sys
import tempfile

HERE = os.path.dirname(os.path.abspath(__file__))
VERIF = os.path.dirname(HERE)


def run_one(patch, tier):
    prop = os.path.basename(patch).split("-")[0]
    tmp = tempfile.mkdtemp(prefix="selftest-")
    try:
        dst = os.path.join(tmp, "repo")
        shutil.copytree("/repo", dst, ignore=shutil.ignore_patterns(".git", "docs", "pdf", "dist-nuitka", "__pycache__"))
        r = subprocess.run(["git", "apply", "--unsafe-paths", "--directory=" + dst, patch], cwd="/", capture_output=True, text=True)
        if r.returncode != 0:
            r = subprocess.run(["patch", "-p1", "-d", dst, "-i", patch], capture_output=True, text=True)
            if r.returncode != 0:
                return prop, "PATCH-FAILED", r.stdout + r.stderr
        env = dict(os.environ, VERIF_REPO=dst, VERIF_TIER=tier, VERIF_EVIDENCE_DIR=os.path.join(tmp, "ev"))
        if prop == "ALL":
            # a behaviour-preserving change: every property's check must stay quiet on it
            from concurrent.futures import ThreadPoolExecutor
            props = ["C%02d" % i for i in range(1, 19)]
            with ThreadPoolExecutor(3) as ex:
                rs = list(ex.map(lambda q: subprocess.run([os.path.join(VERIF, "check"), q], env=env, capture_output=True, text=True), props))
            loud = [(q, r) for q, r in zip(props, rs) if r.returncode != 0 or "VIOLATION property=" in r.stdout]
            return prop, ("QUIET" if not loud else "FALSE-ALARM " + ",".join("%s(rc=%d)" % (q, r.returncode) for q, r in loud)), \
                "\n".join(q + ": " + r.stdout[-1200:] + r.stderr[-600:] for q, r in loud)
        r = subprocess.run([os.path.join(VERIF, "check"), prop], env=env, capture_output=True, text=True)
        fired = "VIOLATION property=%s" % prop in r.stdout
        if os.sep + "benign" + os.sep in patch:
            return prop, ("QUIET" if not fired and r.returncode == 0 else "FALSE-ALARM rc=%d" % r.returncode), r.stdout[-1500:] + r.stderr[-1500:]
        return prop, ("CAUGHT" if fired and r.returncode == 1 else "MISSED rc=%d" % r.returncode), r.stdout[-1500:] + r.stderr[-1500:]
    finally:
        shutil.rmtree(tmp, ignore_errors=True)


def main():
    ap = argparse.ArgumentParser()
    ap.add_argument("--tier", default="quick")
    ap.add_argument("-v", action="store_true")
    ap.add_argument("names", nargs="*")
    a = ap.parse_args()
    patches = sorted(glob.glob(os.path.join(HERE, "patches", "*.diff"))) + sorted(glob.glob(os.path.join(HERE, "benign", "*.diff")))
    if a.names:
        patches = [p for p in patches if any(n in os.path.basename(p) for n in a.names)]
    bad = 0
    for p in patches:
        prop, verdict, out = run_one(p, a.tier)
        print("%-40s %s" % (os.path.basename(p), verdict))
        if a.v or verdict not in ("CAUGHT", "QUIET"):
            print(out)
        bad += verdict not in ("CAUGHT", "QUIET")
    sys.exit(1 if bad else 0)


if __name__ == "__main__":
    main()
