#!/venv/bin/python
"""mk.py PROP-name relpath OLD NEW [relpath OLD NEW ...] -> selftest/patches/PROP-name.diff
OLD must occur exactly once in /repo/<relpath> (or use count prefix '@N:' to pick the Nth occurrence)."""
import difflib, os, sys
name = sys.argv[1]
args = sys.argv[2:]
out = []
for i in range(0, len(args), 3):
    rel, old, new = args[i:i+3]
    src = open(os.path.join("/repo", rel)).read()
    nth = None
    if old.startswith("@") and ":" in old[:5]:
        nth, old = int(old[1:old.index(":")]), old[old.index(":")+1:]
    cnt = src.count(old)
    if nth is None:
        assert cnt == 1, "%r occurs %d times in %s" % (old, cnt, rel)
        dst = src.replace(old, new)
    else:
        idx = -1
        for _ in range(nth):
            idx = src.index(old, idx + 1)
        dst = src[:idx] + new + src[idx+len(old):]
    out.extend(difflib.unified_diff(src.splitlines(True), dst.splitlines(True), "a/" + rel, "b/" + rel))
path = os.path.join(os.path.dirname(os.path.abspath(__file__)), "patches", name + ".diff")
open(path, "w").write("".join(out))
print(path)
