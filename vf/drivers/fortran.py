"""E3: Fortran driver (free form, uses only generated modules + the vf_out printing helpers) for C01.

The documented Fortran API (docs/fortran.rst, types.rst, pointers.rst, tutorial.rst) is the model used to
write each call and to state what the caller must see:
  scalars by value; T* / T& -> scalar intent(in|inout|out); bool <-> logical;
  const T* +rank(1) with implied size -> a(:) only; +dimension(n) out -> array of extent n;
  character input reaches C without trailing blanks, NUL terminated;
  fixed-length character output is the C string truncated or blank padded to the declared length;
  character function results are allocatable with exactly the C length, or len(N) when +len(N) is given;
  std::vector<T>& out copies min(size) elements into the caller's array;
  overloads / default arities / templates / fortran_generic variants through the generic name
  (= the C++ name, lower case) and through each specific; classes as derived types with a
  constructor generic named after the type and type-bound methods.
"""
from __future__ import annotations

from ..libgen import ir

LL = "C_LONG_LONG"


def fkind(T):
    return ir.KINDS_FOR_USE[T]


def ftype(T):
    return ir.TYPES[T]["f"]


def flit(v, T):
    t = ir.TYPES[T]
    if t.get("char"):
        return "achar(%d)" % v
    if t["k"] == "i":
        if not t["signed"]:
            v = ir.wrap_int(v, {16: "short", 32: "int", 64: "long"}[t["bits"]])      # same bits, Fortran has no unsigned
        k = fkind(T)
        lo = -(1 << (t["bits"] - 1))
        if v == lo:
            return "(%d_%s - 1_%s)" % (lo + 1, k, k)
        return "%d_%s" % (v, k) if v >= 0 else "(%d_%s)" % (v, k)
    if t["k"] == "r":
        if T == "float":
            return "transfer(%s, 1.0_C_FLOAT)" % flit(ir.fbits(v, T), "int32_t")
        return "transfer(%s, 1.0_C_DOUBLE)" % flit(ir.fbits(v, T), "int64_t")
    return ".true." if v else ".false."


def fstr(s):
    return "'" + s.replace("'", "''") + "'"


def prn(T, name, expr):
    t = ir.TYPES[T]
    if t.get("char"):
        return "call vfo_i('%s', int(iachar(%s), %s))" % (name, expr, LL)
    if t["k"] == "i":
        return "call vfo_i('%s', int(%s, %s))" % (name, expr, LL)
    if t["k"] == "r":
        return "call vfo_%s('%s', %s)" % ("r4" if T == "float" else "r8", name, expr)
    return "call vfo_b('%s', %s)" % (name, expr)


def prn_arr(T, name, expr):
    t = ir.TYPES[T]
    if t["k"] == "i":
        return "call vfo_ai('%s', int(%s, %s))" % (name, expr, LL)
    return "call vfo_%s('%s', %s)" % ("ar4" if T == "float" else "ar8", name, expr)


def plan_lengths(plan, lib, r):
    """Choose the declared Fortran lengths / extents of output variables for each call (recorded in the
    plan so that the model knows them)."""
    for k, call in enumerate(plan):
        f = lib["functions"][call["f"]]
        fl = {}
        for p in f["params"]:
            kd = p["kind"]
            if kd == "cstr_out":
                fl[p["name"]] = p["charlen"] + (0 if k % 2 else 10)
            elif kd in ("str_ref_out", "str_ptr_out"):
                fl[p["name"]] = [5, 20, 60, 1][k % 4]
            elif kd in ("cstr_inout", "str_ref_inout", "str_ptr_inout"):
                s = call["args"].get(p["name"], "")
                fl[p["name"]] = len(s) + [0, 3, 12][k % 3]
                if kd != "cstr_inout" and k % 5 == 0:
                    fl[p["name"]] = max(len(s), 45)
            elif kd == "vec_out":
                fl[p["name"]] = [0, 2, 6, 3][k % 4]
        call["flen"] = fl
    return plan


def gen_call(lib, k, call):
    f = lib["functions"][call["f"]]
    v = f["variants"][call["variant"]]
    Ti = v["template"]
    args = call["args"]
    fl = call.get("flen", {})
    gtypes = (call.get("generic") or {}).get("types", {})
    D, S, A, Pn = [], [], [], []     # declarations, setup, actual args, prints
    for p in f["params"][:v["nparams"]]:
        kd, n = p["kind"], p["name"]
        T = ir.tsub(p.get("T"), f, Ti)
        T = gtypes.get(n, T)
        vn = "%s_%d" % (n, k)
        if kd == "val":
            A.append(flit(args[n], T))
        elif kd == "fnptr":
            A.append(ir.FNPTR_SIGS[p.get("sig", "i")]["cb"])          # bind(C) functions of the harness module
        elif kd in ("implied", "len_hidden"):
            continue
        elif kd in ("cls_cptr", "cls_cref", "cls_ref"):
            A.append(call["arg_objs"][n])
        elif kd in ("ptr_in", "ptr_inout", "ref_inout"):
            D.append("%s :: %s" % (ftype(T), vn))
            S.append("%s = %s" % (vn, flit(args[n], T)))
            A.append(vn)
            if kd != "ptr_in":
                Pn.append(prn(T, n, vn))
        elif kd in ("ptr_out", "ref_out"):
            D.append("%s :: %s" % (ftype(T), vn))
            S.append("%s = %s" % (vn, flit(False if T == "bool" else 0, T) if ir.TYPES[T]["k"] != "r" else "0"))
            A.append(vn)
            Pn.append(prn(T, n, vn))
        elif kd == "vec_inout" and p.get("alloc"):
            vals = args[n]
            D.append("%s, allocatable :: %s(:)" % (ftype(T), vn))
            S.append("allocate(%s(%d))" % (vn, len(vals)))
            for i, x in enumerate(vals):
                S.append("%s(%d) = %s" % (vn, i + 1, flit(x, T)))
            A.append(vn)
            Pn.append(prn_arr(T, n, vn))
        elif kd == "vec_out" and p.get("alloc"):
            D.append("%s, allocatable :: %s(:)" % (ftype(T), vn))
            if k % 2:
                # already allocated with another extent: the wrapper gives it the library's extent
                S.append("allocate(%s(%d))" % (vn, [7, 1, 3][k % 3]))
                S.append("%s = -7" % vn)
            A.append(vn)
            Pn.append(prn_arr(T, n, vn))
        elif kd in ("arr_in", "arr_inout", "vec_in", "vec_inout"):
            vals = args[n]
            D.append("%s :: %s(%d)" % (ftype(T), vn, len(vals)))
            for i, x in enumerate(vals):
                S.append("%s(%d) = %s" % (vn, i + 1, flit(x, T)))
            A.append(vn)
            if kd in ("arr_inout", "vec_inout"):
                Pn.append(prn_arr(T, n, vn))
        elif kd in ("arr_out", "arr_out_fixed"):
            cnt = ir.arr_out_count(p, args) if kd == "arr_out" else p["K"]
            if p.get("dims"):
                ext = [int(eval(x, {}, dict(args))) for x in p["dims"]]
                D.append("%s :: %s(%s)" % (ftype(T), vn, ",".join(str(e) for e in ext)))
                Pn.append(prn_arr(T, n, "reshape(%s, [%d])" % (vn, cnt)))
            else:
                D.append("%s :: %s(%d)" % (ftype(T), vn, cnt))
                Pn.append(prn_arr(T, n, vn))
            S.append("%s = %s" % (vn, "0"))
            A.append(vn)
        elif kd == "vec_out":
            L = fl[n]
            D.append("%s :: %s(%d)" % (ftype(T), vn, L))
            S.append("%s = %s" % (vn, "-7"))
            A.append(vn)
            Pn.append(prn_arr(T, n, vn))
        elif kd in ("cstr_in", "str_cref", "str_val", "str_cptr"):
            s = args[n]
            D.append("character(len=%d) :: %s" % (len(s), vn))
            S.append("%s = %s" % (vn, fstr(s)))
            A.append(vn)
        elif kd in ("cstr_out", "str_ref_out", "str_ptr_out"):
            D.append("character(len=%d) :: %s" % (fl[n], vn))
            S.append("%s = repeat('#', %d)" % (vn, fl[n]))
            A.append(vn)
            Pn.append("call vfo_s('%s', %s)" % (n, vn))
        elif kd in ("cstr_inout", "str_ref_inout", "str_ptr_inout"):
            D.append("character(len=%d) :: %s" % (fl[n], vn))
            S.append("%s = %s" % (vn, fstr(args[n])))
            A.append(vn)
            Pn.append("call vfo_s('%s', %s)" % (n, vn))
        else:
            raise ValueError(kd)
    name = v["f_generic"] if call.get("via", "generic") == "generic" else v["f_specific"]
    if call.get("generic"):
        name = v["f_generic"] if call.get("via", "generic") == "generic" else v["f_specific"] + call["generic"]["function_suffix"]
    r = f["ret"]
    if "T" in r:
        r = dict(r, T=ir.tsub(r["T"], f, Ti))
    L = ["  block"]
    if f.get("ctor"):
        L += ["    call vf_mark(%d)" % k]
        L += ["    " + d for d in D] + ["    " + s for s in S]
        L.append("    %s = %s(%s)" % (call["obj"], f["cls"].lower(), ", ".join(A)))
        L += ["    call vfo_begin(%d)" % k, "    call vfo_b('ctor_returns_capsule', %s%%associated())" % call["obj"], "    call vfo_end()", "  end block"]
        return L
    if f.get("dtor"):
        L += ["    call vf_mark(%d)" % k, "    call %s%%%s()" % (call["obj"], f.get("dtor_name", "delete")),
              "    call vfo_begin(%d)" % k, "    call vfo_end()", "  end block"]
        return L
    if f.get("cls"):
        name = "%s%%%s" % (call["obj"], lib_un_camel(f["name"]))
    ptr_default = r["kind"] == "ptr_scalar" and r.get("deref", "scalar") != "scalar"
    if ptr_default:
        D.append("%s, pointer :: vfret" % ftype(r["T"]))        # documented default for a native pointer result
    elif r["kind"] in ("val", "ptr_scalar"):
        D.append("%s :: vfret" % ftype(r["T"]))
    elif r["kind"] in ("cstr", "str_val", "str_cref", "str_ptr_own"):
        D.append("character(len=:), allocatable :: vfret")
    elif r["kind"] == "arr_ptr" and r["deref"] == "pointer":
        D.append("%s, pointer :: vfret(%s)" % (ftype(r["T"]), ",".join(":" * len(r.get("dims") or [1]))))
        if r.get("owner") == "caller":
            A.append(call["crv"])          # documented: an extra capsule argument owns the memory
    elif r["kind"] in ("arr_ptr", "vec_val"):
        D.append("%s, allocatable :: vfret(%s)" % (ftype(r["T"]), ",".join(":" * len(r.get("dims") or [1]))))
    elif r["kind"] in ("cstr_len", "str_cref_len"):
        D.append("character(len=%d) :: vfret" % r["N"])
    L += ["    " + d for d in D]
    L.append("    call vf_mark(%d)" % k)
    L += ["    " + s for s in S]
    if r["kind"] == "void":
        L.append("    call %s(%s)" % (name, ", ".join(A)))
    elif r["kind"] in ("cls_ptr", "cls_val"):
        L.append("    %s = %s(%s)" % (call["res_obj"], name, ", ".join(A)))
    elif ptr_default or (r["kind"] == "arr_ptr" and r["deref"] == "pointer"):
        L.append("    vfret => %s(%s)" % (name, ", ".join(A)))
    else:
        L.append("    vfret = %s(%s)" % (name, ", ".join(A)))
        if call.get("twice"):
            # the same call twice more inside one expression: every call written in the source reaches the library
            # (the driver is compiled with optimisation; a function wrongly declared PURE would be called once)
            L.append("    vfret = max(%s(%s), %s(%s))" % (name, ", ".join(A), name, ", ".join(A)))
    L.append("    call vfo_begin(%d)" % k)
    if r["kind"] in ("val", "ptr_scalar"):
        L.append("    " + prn(r["T"], "ret", "vfret"))
    elif r["kind"] in ("cls_ptr", "cls_val"):
        L.append("    call vfo_b('associated', %s%%associated())" % call["res_obj"])
    elif r["kind"] == "arr_ptr" and r.get("dims"):
        # documented: the result has the declared extents; values in C (row-major storage) order = Fortran element order
        L.append("    " + prn_arr(r["T"], "ret", "reshape(vfret, [size(vfret)])"))
        L.append("    call vfo_ai('shape', int(shape(vfret), %s))" % LL)
    elif r["kind"] in ("arr_ptr", "vec_val"):
        L.append("    " + prn_arr(r["T"], "ret", "vfret"))
    elif r["kind"] != "void":
        L.append("    call vfo_s('ret', vfret)")
    L += ["    " + x for x in Pn]
    L += ["    call vfo_end()", "  end block"]
    return L


def lib_un_camel(s):
    from ..libgen.libs import un_camel
    return un_camel(s)


def gen_driver(lib, plan):
    mod = lib["name"].lower() + "_mod"
    L = ["program vf_driver", "  use iso_c_binding", "  use vf_out", "  use %s" % mod]
    for nsb in sorted({f["ns"] for f in lib["functions"] if f.get("ns")}):
        # only the wrapped names: both modules also export the interfaces of the helpers they share
        names = sorted({v["f_generic"] for f in lib["functions"] if f.get("ns") == nsb for v in f["variants"]} |
                       {v["f_specific"] for f in lib["functions"] if f.get("ns") == nsb for v in f["variants"]})
        L.append("  use %s_%s_mod, only: %s" % (lib["name"].lower(), nsb.lower(), ", ".join(names)))
    L.append("  implicit none")
    objs = {}
    for c in plan:
        if c.get("obj"):
            objs[c["obj"]] = c["cls"]
    for o, cls in sorted(objs.items()):
        L.append("  type(%s) :: %s" % (cls.lower(), o))
    for k, call in enumerate(plan):
        L.extend(gen_call(lib, k, call))
    L += ["  call vf_mark(%d)" % len(plan), "end program vf_driver"]
    # free-form line limit: break long lines
    out = []
    for ln in L:
        while len(ln) > 120:
            cut = ln.rfind(",", 0, 118)
            if cut < 20:
                break
            out.append(ln[:cut + 1] + " &")
            ln = "      " + ln[cut + 1:]
        out.append(ln)
    return "\n".join(out) + "\n"


# ------------------------------------------------------------------ documented conversions for the comparer

def conv_in(call, p, value):
    if p["kind"] in ("cstr_in", "str_cref", "str_val", "str_cptr", "cstr_inout", "str_ref_inout", "str_ptr_inout"):
        return value.rstrip(" ")
    return value


def _fixed(s_repr, L):
    # s:<len>:<hex> -> truncated / blank padded to L
    _, n, hx = s_repr.split(":")
    b = bytes.fromhex(hx)[:L]
    b = b + b" " * (L - len(b))
    return "s:%d:%s" % (L, b.hex())


def conv_out(call, p, want, lib=None, model_out=None):
    kd = p["kind"]
    if want == "null":
        want = "s:0:"          # documented: a NULL char* result is a zero-length / blank value
    fl = call.get("flen", {})
    if kd in ("cstr_out", "str_ref_out", "str_ptr_out", "cstr_inout", "str_ref_inout", "str_ptr_inout"):
        return _fixed(want, fl[p["name"]])
    if kd in ("cstr_len", "str_cref_len"):
        return _fixed(want, p["N"])
    Tp = p.get("T")
    uns = Tp in ir.TYPES and ir.TYPES[Tp]["k"] == "i" and not ir.TYPES[Tp]["signed"]

    def uw(vals_):
        # Fortran has no unsigned integers: same bits, read as signed
        return [str(ir.wrap_int(int(x), {16: "short", 32: "int", 64: "long"}[ir.TYPES[Tp]["bits"]])) for x in vals_] if uns else vals_
    if kd in ("vec_out", "vec_inout") and p.get("alloc"):
        # allocatable argument: exactly what the library left, extent included
        tag, n, vals = want.split(":")
        vals = uw([x for x in vals.split(",") if x != ""])
        return "%s:%d:%s" % (tag, len(vals), ",".join(vals))
    if kd == "vec_out":
        L = fl[p["name"]]
        tag, n, vals = want.split(":")
        vals = uw([x for x in vals.split(",") if x != ""])
        sent = "-7" if tag == "ai" else str(ir.fbits(-7.0, "float" if tag == "ar4" else "double"))
        merged = vals[:L] + [sent] * max(0, L - len(vals))
        return "%s:%d:%s" % (tag, L, ",".join(merged))
    if kd == "vec_inout":
        L = len(call["args"][p["name"]])
        tag, n, vals = want.split(":")
        vals = uw([x for x in vals.split(",") if x != ""])
        orig = call["args"][p["name"]]
        T = p["T"]
        keep = [str(x) if tag == "ai" else str(ir.fbits(x, T)) for x in orig]
        merged = vals[:L] + keep[len(vals):L]
        return "%s:%d:%s" % (tag, L, ",".join(merged))
    T = p.get("T")
    if T in ir.TYPES and ir.TYPES[T]["k"] == "i" and not ir.TYPES[T]["signed"]:
        if want.startswith("i:"):
            return "i:%d" % ir.wrap_int(int(want[2:]), {16: "short", 32: "int", 64: "long"}[ir.TYPES[T]["bits"]])
        if want.startswith("ai:"):
            tag, n, vals = want.split(":")
            return "ai:%s:%s" % (n, ",".join(str(ir.wrap_int(int(x), {16: "short", 32: "int", 64: "long"}[ir.TYPES[T]["bits"]])) for x in vals.split(",") if x != ""))
    return want
