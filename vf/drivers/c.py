"""E3: C driver (C99, includes only generated headers) for the generated C API of a library (C02).

The documented C API (docs/cwrapper.rst, types.rst) is the model used to write each call:
  scalars by value; T* / T& -> T*; bool stays bool; const char* / const std::string& -> const char*;
  char* / std::string& / std::string* (out, inout) -> char* into a caller buffer;
  results: scalar, const char*; methods take the capsule struct pointer first;
  constructors fill a caller-provided capsule and return it.
Functions with std::vector arguments or std::string by-value results have no plain C entry point
(only the Fortran-facing bufferify one) and are not called from C.
"""
from __future__ import annotations

from ..libgen import ir

C_UNSUPPORTED_KINDS = {"vec_in", "vec_out", "vec_inout"}


def c_callable(f):
    if any(p["kind"] in C_UNSUPPORTED_KINDS for p in f["params"]):
        return False
    if f["ret"]["kind"] in ("str_val", "arr_ptr", "vec_val", "str_ptr_own"):
        return False       # raw pointers / Fortran-facing entry points only: nothing for the C wrapper to release
    return True


def lit(v, T):
    t = ir.TYPES[T]
    if t["k"] == "i":
        if t["bits"] == 64:
            if t["signed"]:
                return "(%s)(%dLL%s)" % (t["c"], v + 1 if v == -(1 << 63) else v, " - 1" if v == -(1 << 63) else "")
            return "(%s)%dULL" % (t["c"], v)
        if v == -(1 << 31):
            return "(%s)(-2147483647 - 1)" % t["c"]
        return "(%s)%d%s" % (t["c"], v, "u" if not t["signed"] and v >= (1 << 31) else "")
    if t["k"] == "r":
        return "%s%s" % (float.hex(float(v)), "f" if T == "float" else "")
    return "true" if v else "false"


def cstr(s):
    return '"' + "".join("\\x%02x\"\"" % ord(c) if not (32 <= ord(c) < 127) or c in '"\\?' else c for c in s) + '"'


def print_scalar(T, name, expr):
    t = ir.TYPES[T]
    if t["k"] == "i":
        return 'vf_log_i("%s", (long long)(%s), %d);' % (name, expr, 1 if t["signed"] else 0)
    if t["k"] == "r":
        return ('vf_log_r4("%s", %s);' if T == "float" else 'vf_log_r8("%s", %s);') % (name, expr)
    return 'vf_log_b("%s", %s);' % (name, expr)


def gen_call(lib, k, call):
    """C statements for one call; prints 'OUT k name=repr ...' in the shared value representation."""
    f = lib["functions"][call["f"]]
    v = f["variants"][call["variant"]]
    T_inst = v["template"]
    args = call["args"]
    L = ["  { /* call %d: %s */" % (k, v["c_name"]), "    vf_mark(%d);" % k]
    actual = []
    post = []
    if f.get("cls") and not f.get("static") and not f.get("ctor"):
        actual.append(call["obj"])
    for p in f["params"][:v["nparams"]]:
        kd, n = p["kind"], p["name"]
        T = ir.tsub(p.get("T"), f, T_inst)
        vn = "%s_%d" % (n, k)
        if kd == "val":
            actual.append(lit(args[n], T))
        elif kd == "fnptr":
            actual.append(ir.FNPTR_SIGS[p.get("sig", "i")]["cb"])
        elif kd == "implied":
            actual.append("(%s)%d" % (ir.TYPES[T]["c"], len(args[p["of"]])))
        elif kd in ("cls_cptr", "cls_cref", "cls_ref"):
            actual.append(call["arg_objs"][n])
        elif kd in ("ptr_in", "ptr_inout", "ref_inout"):
            L.append("    %s %s = %s;" % (ir.TYPES[T]["c"], vn, lit(args[n], T)))
            actual.append("&" + vn)
            if kd != "ptr_in":
                post.append(print_scalar(T, n, vn))
        elif kd in ("ptr_out", "ref_out"):
            L.append("    %s %s; memset(&%s, 0x5a, sizeof %s);" % (ir.TYPES[T]["c"], vn, vn, vn))
            actual.append("&" + vn)
            post.append(print_scalar(T, n, vn))
        elif kd in ("arr_in", "arr_inout"):
            vals = args[n]
            L.append("    %s *%s = (%s *) malloc(%d * sizeof(%s) + (%d == 0));" % (ir.TYPES[T]["c"], vn, ir.TYPES[T]["c"], len(vals), ir.TYPES[T]["c"], len(vals)))
            for i, x in enumerate(vals):
                L.append("    %s[%d] = %s;" % (vn, i, lit(x, T)))
            actual.append(vn)
            if kd == "arr_inout":
                post.append('%s("%s", %s, %d);' % (ir.arr_fns(T)[1], n, vn, len(vals)))
            post.append("free(%s);" % vn)
        elif kd in ("arr_out", "arr_out_fixed"):
            cnt = ir.arr_out_count(p, args) if kd == "arr_out" else p["K"]
            L.append("    %s *%s = (%s *) malloc(%d * sizeof(%s) + (%d == 0));" % (ir.TYPES[T]["c"], vn, ir.TYPES[T]["c"], cnt, ir.TYPES[T]["c"], cnt))
            actual.append(vn)
            post.append('%s("%s", %s, %d);' % (ir.arr_fns(T)[1], n, vn, cnt))
            post.append("free(%s);" % vn)
        elif kd in ("cstr_in", "str_cref", "str_val", "str_cptr"):
            # exact-size heap copy so that an over-read is visible to ASan
            s = args[n]
            L.append("    char *%s = (char *) malloc(%d); memcpy(%s, %s, %d);" % (vn, len(s) + 1, vn, cstr(s), len(s) + 1))
            actual.append(vn)
            post.append("free(%s);" % vn)
        elif kd == "cstr_out":
            L.append("    char *%s = (char *) malloc(%d); memset(%s, '#', %d);" % (vn, p["charlen"], vn, p["charlen"]))
            actual.append(vn)
            post.append('vf_log_s("%s", %s, -1);' % (n, vn))
            post.append("free(%s);" % vn)
        elif kd in ("cstr_inout", "str_ref_inout", "str_ptr_inout"):
            s = args[n]
            size = (len(s) + 1) if kd == "cstr_inout" else 64
            L.append("    char *%s = (char *) malloc(%d); memset(%s, '#', %d); memcpy(%s, %s, %d);" % (vn, size, vn, size, vn, cstr(s), len(s) + 1))
            actual.append(vn)
            post.append('vf_log_s("%s", %s, -1);' % (n, vn))
            post.append("free(%s);" % vn)
        elif kd in ("str_ref_out", "str_ptr_out"):
            L.append("    char *%s = (char *) malloc(64); memset(%s, '#', 64);" % (vn, vn))
            actual.append(vn)
            post.append('vf_log_s("%s", %s, -1);' % (n, vn))
            post.append("free(%s);" % vn)
        else:
            raise ValueError(kd)
    r = f["ret"]
    if "T" in r:
        r = dict(r, T=ir.tsub(r["T"], f, T_inst))
    callexpr = "%s(%s)" % (v["c_name"], ", ".join(actual))
    if f.get("ctor"):
        L.append("    %s%s *rvp = %s(%s);" % (lib["c_prefix"], f["cls"], v["c_name"], ", ".join(actual + ["&" + call["obj"] + "_buf"])))
        L.append("    %s = rvp;" % call["obj"])
        L.append('    printf("OUT %d"); vf_log_b("ctor_returns_capsule", rvp == &%s_buf); printf("\\n");' % (k, call["obj"]))
        L.append("  }")
        return L
    if r["kind"] in ("cls_ptr", "cls_val"):
        # documented: a class-typed result is returned through an extra capsule argument
        ro = call["res_obj"]
        L.append("    %s%s *rvp = %s(%s);" % (lib["c_prefix"], r["cls"], v["c_name"], ", ".join(actual + ["&" + ro + "_buf"])))
        L.append("    %s = rvp;" % ro)
        L.append('    printf("OUT %d"); vf_log_b("associated", rvp == &%s_buf && %s_buf.addr != NULL); printf("\\n"); fflush(stdout);' % (k, ro, ro))
        L.append("  }")
        return L
    if r["kind"] == "ptr_scalar" and r.get("deref", "scalar") != "scalar":
        L.append("    %s vfret = *%s;" % (ir.TYPES[r["T"]]["c"], callexpr))       # pointer result kept by the C API
    elif r["kind"] in ("val", "ptr_scalar"):       # +deref(scalar): the C wrapper dereferences (pointers.yaml returnIntScalar)
        L.append("    %s vfret = %s;" % (ir.TYPES[r["T"]]["c"], callexpr))
    elif r["kind"] in ("cstr", "cstr_len", "str_cref", "str_cref_len"):
        L.append("    const char *vfret = %s;" % callexpr)
    else:
        L.append("    %s;" % callexpr)
    L.append('    printf("OUT %d");' % k)
    if r["kind"] in ("val", "ptr_scalar"):
        L.append("    " + print_scalar(r["T"], "ret", "vfret"))
    elif r["kind"] in ("cstr", "cstr_len", "str_cref", "str_cref_len"):
        L.append('    vf_log_s("ret", vfret, -1);')
    for ln in post:
        if not ln.startswith("free("):
            L.append("    " + ln)
    L.append('    printf("\\n"); fflush(stdout);')
    for ln in post:
        if ln.startswith("free("):
            L.append("    " + ln)
    L.append("  }")
    return L


def gen_driver(lib, plan, headers):
    L = ["/* generated C driver: includes ONLY generated headers + the harness trace header */",
         "#include <stdio.h>", "#include <stdlib.h>", "#include <string.h>", "#include <stdbool.h>"]
    for h in headers:
        L.append('#include "%s"' % h)
    # the driver logs to stdout, the library to the file named by VF_TRACE
    L += ["#define VF_TRACE_STDOUT 1", '#include "vf_trace.h"', "void vf_mark(int k);", "static int vf_cb3(int i) { return 3 * i + 1; }", "static double vf_cbd(double x) { return 2 * x + 0.25; }",
         "static long vf_cbl(int i, double x) { return 100L * i + (long)(2 * x); }", "int main(void) {"]
    objs = sorted({c["obj"] for c in plan if c.get("obj")})
    for o in objs:
        cls = next(c["cls"] for c in plan if c.get("obj") == o)
        L.append("  %s%s %s_buf; %s%s *%s = NULL; memset(&%s_buf, 0, sizeof %s_buf);" % (lib["c_prefix"], cls, o, lib["c_prefix"], cls, o, o, o))
    for k, call in enumerate(plan):
        L.extend(gen_call(lib, k, call))
    L += ["  vf_mark(%d);" % len(plan), "  return 0;", "}"]
    return "\n".join(L) + "\n"
