"""Execution engine (Level B): one generated library -> Shroud -> sanitizer build -> driver run ->
comparison of the driver's observations (OUT) and the library's trace (RECV/SEND) with the reference
model.  Used by C01 (Fortran driver), C02 (C driver), C03 (Python), C18 (Lua), C05 (build only), C06.
"""
from __future__ import annotations

import os
import re
import subprocess

from . import buildfarm, common
from .libgen import ir, libs

NATIVE = os.path.join(common.VERIF, "native")
SANF = buildfarm.SAN.split()


def sh(cmd, cwd, timeout=600, env=None):
    try:
        p = subprocess.run(cmd, cwd=cwd, capture_output=True, text=True, timeout=timeout, env=env, errors="replace")
        return p.returncode, p.stdout, p.stderr
    except subprocess.TimeoutExpired:
        return -999, "", "WATCHDOG"


def generate(lib, extra_argv=(), before=None):
    """Run Shroud on the library; returns (outdir, run result).  before: run specs of other libraries that are
    processed first in the same Python process (only the last library's output is kept)."""
    from . import shroudrun
    from .libgen import gen
    d = libs.yaml_of(lib)
    sp = gen.spec_for(d, lib["name"], extra_argv=extra_argv)
    sp["keep"] = True
    if before:
        sp = dict(sp, seq=list(before) + [dict(sp)])
    rr = shroudrun.run(sp)
    return rr


def reject_mech(rr):
    """Mechanism key + text for a Shroud run that failed on an admitted description."""
    e = rr.get("exc") or {}
    if e:
        return "%s:%s" % (e.get("type"), e.get("where")), "%s %s" % (e.get("type"), (e.get("msg") or "")[:600])
    text = (rr.get("exit_msg") or "") + "\n" + (rr.get("stdout") or "") + "\n" + (rr.get("stderr") or "")
    lines = [ln.strip() for ln in text.split("\n") if ln.strip() and not ln.startswith(("Wrote ", "Close "))]
    err = next((ln for ln in reversed(lines) if re.search(r"rror|llegal|nknown|must|cannot|not ", ln)), lines[-1] if lines else "exit %s" % rr.get("exit"))
    key = re.sub(r"\d+", "N", re.sub(r"\b[a-z]+\d+\w*\b", "X", err))[:60]
    return "exit:%s" % key, "exit %s: %s" % (rr.get("exit"), "\n".join(lines[-6:])[:800])


def first_error(se):
    for ln in se.split("\n"):
        m = re.search(r"([\w./-]+):(\d+)[:.](?:\d+:)?\s*(?:fatal )?[Ee]rror:?\s*(.*)", ln)
        if m:
            msg = re.sub(r"‘[^’]*’|'[^']*'", "'X'", m.group(3))
            return os.path.basename(m.group(1)), re.sub(r"\d+", "N", msg)[:60]
    if "undefined reference" in se:
        m = re.search(r"undefined reference to `([^']*)'", se)
        return "link", "undefined reference"
    if "multiple definition" in se:
        return "link", "multiple definition"
    return "?", "?"


def c_family_files(out):
    """Files written by the C emitter (not python / lua)."""
    return sorted(f for f in os.listdir(out) if f.endswith((".c", ".cpp")) and not f.startswith(("py", "lua")) and f.startswith(("wrap", "util")))


def fortran_files(out):
    fs = sorted(f for f in os.listdir(out) if f.endswith(".f") and f.startswith("wrapf"))
    # namespace modules are used by the library module: order by 'use' dependencies
    mods = {}
    for f in fs:
        text = open(os.path.join(out, f)).read()
        mods[f] = (set(m.lower() for m in re.findall(r"^\s*module\s+(\w+)\s*$", text, re.M | re.I)),
                   set(m.lower() for m in re.findall(r"^\s*use\s+(\w+)", text, re.M | re.I)))
    order = []
    left = list(fs)
    defined = set()
    while left:
        progress = False
        for f in list(left):
            need = {u for u in mods[f][1] if any(u in mods[g][0] for g in fs if g != f)}
            if need <= defined:
                order.append(f)
                defined |= mods[f][0]
                left.remove(f)
                progress = True
        if not progress:
            order.extend(left)
            break
    return order


def build_objects(lib, out, res, sanitize=True):
    """Compile subject library + generated C-family wrappers. Returns list of object files or None."""
    lang = lib["language"]
    h, c = ir.library_sources(lib)
    ext = ".hpp" if lang == "c++" else ".h"
    open(os.path.join(out, lib["name"] + ext), "w").write(h)
    src = lib["name"] + "_impl" + (".cpp" if lang == "c++" else ".c")
    open(os.path.join(out, src), "w").write(c)
    flags = ["-g", "-O0", "-w", "-I", NATIVE, "-I", "."] + (SANF if sanitize else [])
    objs = []
    for f in [src] + c_family_files(out):
        cc = ["g++", "-std=c++11"] if f.endswith(".cpp") else ["gcc", "-std=c99"]
        rc, so, se = sh(cc + flags + ["-c", f, "-o", f + ".o"], out)
        if rc != 0:
            where, msg = first_error(se)
            kind = "subject-library" if f == src else "generated"
            res["violations"].append({"mech": "compile-fails:%s:%s:%s" % (kind, "c" if not f.endswith(".cpp") else "cxx", msg),
                                      "detail": "%s: %s\n%s" % (lib["name"], f, se[:2500])})
            if f == src:
                res["harness_error"] = "subject library does not compile: " + se[:1500]
            return None
        objs.append(f + ".o")
    return objs


def parse_trace(text):
    """{k: [("RECV"|"SEND"|"DTOR", fid, {name: repr})...]}, marks {k: live}"""
    calls = {}
    marks = {}
    cur = None
    for ln in text.split("\n"):
        if ln.startswith("MARK "):
            m = re.match(r"MARK (\d+) live=(-?\d+)", ln)
            cur = int(m.group(1))
            marks[cur] = int(m.group(2))
            calls.setdefault(cur, [])
        elif ln.startswith(("RECV ", "SEND ", "DTOR ", "FREE ")):
            parts = ln.split(" ")
            kv = {}
            for x in parts[2:]:
                if "=" in x:
                    a, b = x.split("=", 1)
                    kv[a] = b
            calls.setdefault(cur, []).append((parts[0], parts[1], kv))
    return calls, marks


def parse_blocks(text):
    """{k: number of caller-owned heap blocks still allocated at marker k} (-1: library built without ASan)."""
    return {int(m.group(1)): int(m.group(2)) for m in re.finditer(r"^MARK (\d+) live=-?\d+ blocks=(-?\d+)", text, re.M)}


def parse_out(text):
    out = {}
    for ln in text.split("\n"):
        if ln.startswith("OUT "):
            parts = ln.split(" ")
            kv = {}
            for x in parts[2:]:
                if "=" in x:
                    a, b = x.split("=", 1)
                    kv[a] = b.lower() if b.startswith("s:") else b     # Fortran prints hex digits upper case
            out[int(parts[1])] = kv
    return out


def expected_call(lib, call, serials):
    f = lib["functions"][call["f"]]
    v = f["variants"][call["variant"]]
    g = ir.instantiate(f, v["template"])
    args = dict(call["args"])
    # parameters beyond this variant's arity take the library's own default values
    for p in g["params"][v["nparams"]:]:
        if "default" in p:
            args[p["name"]] = ir.default_value(p)
    # documented conversions on the way in (C01): applied by the caller-specific layer (see drivers)
    this = None
    if f.get("cls") and not f.get("static") and not f.get("ctor") and not f.get("dtor"):
        this = serials.get(call.get("obj"))
    return g, ir.model_call(g, args, this_serial=this)


def compare_call(lib, k, call, trace, outkv, serials, conv):
    """Violations for one call. conv: driver-language conversion hooks {"in": fn(p, value)->value seen by library,
    "out": fn(p_or_ret, repr)->repr expected at the caller}"""
    v = []
    f = lib["functions"][call["f"]]
    var = f["variants"][call["variant"]]
    g, exp = expected_call(lib, call, serials)
    if conv.get("in"):
        args2 = dict(call["args"])
        for p in g["params"]:
            if p["name"] in args2:
                args2[p["name"]] = conv["in"](call, p, args2[p["name"]])
        call2 = dict(call, args=args2)
        g, exp = expected_call(lib, call2, serials)
    recs = [t for t in trace.get(k, []) if t[0] == "RECV"]
    sends = [t for t in trace.get(k, []) if t[0] == "SEND"]
    label = "%s (%s)" % (var.get("label") or var["c_name"], g.get("fid"))
    nwant = 3 if call.get("twice") else 1
    if len(recs) != nwant:
        v.append(("library-entered-%d-times%s" % (len(recs), ":of-3-written" if call.get("twice") else ""),
                  "%s: the driver calls the function %d time(s) here, trace has %r" % (label, nwant, [t[1] for t in recs])))
        return v
    kind, fid, kv = recs[0]
    if fid != g["fid"]:
        v.append(("wrong-entry-point", "%s: reached %s, expected %s" % (label, fid, g["fid"])))
        return v
    for n, want in exp["recv"].items():
        got = kv.get(n)
        if got != want:
            p = next((p for p in g["params"] if p["name"] == n), {"kind": "this"})
            v.append(("library-received-wrong-value:%s" % p["kind"], "%s: parameter %s received %s, expected %s (args %r)" % (
                label, n, got, want, call["args"])))
    if sends:
        skv = sends[0][2]
        for n, want in exp["send"].items():
            if skv.get(n) != want:
                v.append(("HARNESS:model-disagrees-with-library", "%s: SEND %s=%s, model %s" % (label, n, skv.get(n), want)))
    elif not f.get("ctor"):
        v.append(("HARNESS:no-send-record", label))
    # what the caller got back
    if outkv is None:
        v.append(("caller-observed-nothing", "%s: driver printed no OUT record (crash?)" % label))
        return v
    for n, want in exp["send"].items():
        if n == "ret":
            p = g["ret"]
        else:
            p = next(p for p in g["params"] if p["name"] == n)
        want2 = conv["out"](call, p, want) if conv.get("out") else want
        if want2 is None:
            continue
        got = outkv.get(n)
        if got != want2:
            v.append(("caller-got-wrong-value:%s" % p["kind"], "%s: %s at the caller is %s, library produced %s (expected at caller %s)" % (
                label, n, got, want, want2)))
    return v
