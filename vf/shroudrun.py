"""E1: run the real Shroud (current working tree) under monitors.

run(spec) is meant to be called inside a forked child (see vf.pool) or a
fresh subprocess; it changes cwd, patches modules and never cleans up the
interpreter state.  All paths in spec are relative to a fresh scratch cwd so
two runs of the same spec get byte-identical path-valued inputs.

spec = {
  "files": {relpath: text},      # created before the run (yaml, splicers, stale outputs)
  "dirs": [relpath, ...],        # created before the run
  "links": {relpath: abspath},   # symlinks created before the run
  "argv": [...],                 # shroud command line (without program name)
  "entry": "cli" | "create_wrapper" | "main_with_args",
  "cw": {"filename":..., "outdir":..., "path":...}   # for create_wrapper
  "monitors": ["files","lines","splice","parse","impure","stmts"],
  "seq": [spec, spec...]         # optional: run several in the same process (C07 histories); result of the last
  "keep": bool                   # keep the scratch dir (caller removes it)
}
"""
from __future__ import annotations

import io
import os
import sys
import tempfile
import traceback

from . import monitors


def _scratch():
    root = os.environ.get("VERIF_SCRATCH_ROOT") or tempfile.gettempdir()
    return tempfile.mkdtemp(prefix="run-", dir=root)


def _prepare(spec, cwd):
    for d in spec.get("dirs", []):
        os.makedirs(os.path.join(cwd, d), exist_ok=True)
    for rel, target in (spec.get("links") or {}).items():
        p = os.path.join(cwd, rel)
        os.makedirs(os.path.dirname(p) or cwd, exist_ok=True)
        os.symlink(target, p)
    for rel, text in (spec.get("files") or {}).items():
        p = os.path.join(cwd, rel)
        os.makedirs(os.path.dirname(p) or cwd, exist_ok=True)
        with open(p, "w") as f:
            f.write(text)


def _snapshot(cwd, inputs):
    out = {}
    for dp, dn, fn in os.walk(cwd):
        dn[:] = [d for d in dn if not os.path.islink(os.path.join(dp, d))]
        for n in fn:
            p = os.path.join(dp, n)
            if os.path.islink(p):
                continue
            rel = os.path.relpath(p, cwd)
            try:
                with open(p, "r", errors="surrogateescape") as f:
                    text = f.read()
            except Exception as e:  # pragma: no cover
                text = "<unreadable %r>" % (e,)
            if rel in inputs and inputs[rel] == text:
                continue
            out[rel] = text
    return out


def exc_info(e):
    tb = traceback.extract_tb(e.__traceback__)
    where = None
    for fr in reversed(tb):
        if os.sep + "shroud" + os.sep in fr.filename and "/verif/" not in fr.filename:
            where = "%s:%s" % (os.path.basename(fr.filename), fr.name)
            break
    return {"type": type(e).__name__, "msg": str(e)[:2000], "where": where,
            "lineno": tb[-1].lineno if tb else None,
            "tb": "".join(traceback.format_exception(type(e), e, e.__traceback__))[-4000:]}


def _invoke(spec):
    import shroud.main as smain
    entry = spec.get("entry", "cli")
    if entry == "cli":
        sys.argv = ["shroud"] + list(spec["argv"])
        smain.main()
    elif entry == "create_wrapper":
        import shroud
        cw = spec["cw"]
        shroud.create_wrapper(cw["filename"], **{k: v for k, v in cw.items() if k != "filename"})
    else:
        raise ValueError(entry)


def run_one(spec, cwd, ev):
    res = {"exit": None, "exc": None}
    old_out, old_err = sys.stdout, sys.stderr
    so, se = io.StringIO(), io.StringIO()
    sys.stdout, sys.stderr = so, se
    oldcwd = os.getcwd()
    os.chdir(cwd)
    try:
        _invoke(spec)
        res["exit"] = 0
    except SystemExit as e:
        code = e.code
        if code is None:
            res["exit"] = 0
        elif isinstance(code, int):
            res["exit"] = code
        else:
            res["exit"] = 1
            res["exit_msg"] = str(code)[:2000]
    except BaseException as e:
        res["exc"] = exc_info(e)
    finally:
        sys.stdout, sys.stderr = old_out, old_err
        os.chdir(oldcwd)
    res["stdout"] = so.getvalue()[-4000:]
    res["stderr"] = se.getvalue()[-4000:]
    return res


def run(spec):
    ev = monitors.install(spec.get("monitors", []))
    seq = spec.get("seq")
    specs = seq if seq else [spec]
    res = None
    cwd = None
    for i, sp in enumerate(specs):
        if cwd is not None and not (i == len(specs)):
            import shutil
            shutil.rmtree(cwd, ignore_errors=True)
        cwd = _scratch()
        ev.active = False
        _prepare(sp, cwd)
        if spec.get("last_run_events") and i == len(specs) - 1:
            ev.files = []            # file events of the last run only (the earlier runs wrote into their own directories)
        ev.active = True
        res = run_one(sp, cwd, ev)
        last = sp
    ev.active = False
    res["outputs"] = _snapshot(cwd, last.get("files") or {})
    res["events"] = ev.to_json()
    # make event paths relative to the scratch cwd
    real = os.path.realpath(cwd)
    for f in res["events"]["files"]:
        p = f["path"]
        ap = os.path.realpath(os.path.join(cwd, p)) if not os.path.isabs(p) else os.path.realpath(p)
        f["rel"] = os.path.relpath(ap, real) if ap.startswith(real + os.sep) else ap
    if spec.get("keep"):
        res["cwd"] = cwd
    else:
        import shutil
        shutil.rmtree(cwd, ignore_errors=True)
    return res


def run_case(case):
    """Pool entry point."""
    return run(case)


# ------------------------------------------------------------------ fresh-process runs

def run_subprocess(spec):
    """Run the real command line in a fresh interpreter.
    Extra spec keys: env (dict, replaces the environment apart from PATH),
    hashseed (str), cwd_abs (bool: run from another directory with absolute paths),
    pre_files ({relpath: text} stale files created before the run, not counted as inputs)."""
    import shutil
    import subprocess
    repo = os.environ.get("VERIF_REPO", "/repo")
    cwd = _scratch()
    try:
        _prepare(spec, cwd)
        for rel, text in (spec.get("pre_files") or {}).items():
            p = os.path.join(cwd, rel)
            os.makedirs(os.path.dirname(p), exist_ok=True)
            with open(p, "w") as f:
                f.write(text)
        env = {"PATH": os.environ.get("PATH", "/usr/bin:/bin")}
        env.update(spec.get("env") or {})
        env["PYTHONHASHSEED"] = str(spec.get("hashseed", "0"))
        env["PYTHONPATH"] = repo
        env["PYTHONDONTWRITEBYTECODE"] = "1"
        argv = list(spec["argv"])
        runcwd = cwd
        if spec.get("cwd_abs"):
            runcwd = os.path.join(cwd, "elsewhere")
            os.makedirs(runcwd, exist_ok=True)
        code = "import shroud.main as m; m.main()"
        try:
            p = subprocess.run([sys.executable, "-c", code] + argv, cwd=runcwd, env=env,
                               capture_output=True, text=True, timeout=spec.get("timeout", 120))
            res = {"exit": p.returncode, "stdout": p.stdout[-3000:], "stderr": p.stderr[-3000:], "exc": None}
        except subprocess.TimeoutExpired:
            return {"timeout": True}
        inputs = dict(spec.get("files") or {})
        res["outputs"] = _snapshot(cwd, inputs)
        res["events"] = {}
        return res
    finally:
        shutil.rmtree(cwd, ignore_errors=True)
