"""C13 oracle: what write_continue / write_lines may do to a logical line.

Pure functions over (inputs, observed output); no repository code is used, so
the oracle is independent of util.py.
"""

BREAKS = "\t\f"


def segments(line):
    """Split a logical line (leading \\r already removed) at \\t and \\f.
    Returns (T, boundaries): T is the text with break hints removed and
    boundaries the set of offsets in T where a hint stood."""
    out = []
    bounds = set()
    n = 0
    for ch in line:
        if ch in BREAKS:
            bounds.add(n)
        else:
            out.append(ch)
            n += 1
    return "".join(out), bounds


def check_continue(line, spaces, indent, linelen, cont, produced):
    """Return list of (mech, detail) violations for one write_continue call.

    line     logical line as passed in (may start with \\r, contains \\t \\f)
    produced exact text written to the stream by the call
    """
    v = []
    if not isinstance(linelen, int):
        return v  # domain guard: a non-integer linelen is C14/C17's business
    if not produced.endswith("\n"):
        v.append(("no-final-newline", repr(produced[-40:])))
        return v
    phys = produced[:-1].split("\n")
    if line[:1] == "\r":
        line = line[1:]
    T, bounds = segments(line)
    k = len(phys)
    # (2) continuation marker on every broken line
    Q = []
    for i, p in enumerate(phys):
        if i < k - 1:
            if cont and not p.endswith(cont):
                v.append(("missing-continuation-marker", "physical line %d %r lacks %r" % (i, p, cont)))
                Q.append(p)
            else:
                Q.append(p[:len(p) - len(cont)] if cont else p)
        else:
            Q.append(p)
    if v:
        return v
    # (1)+(3) text preserved, breaks only at hints (whitespace at breaks ignored)
    pos = 0
    prefix0 = spaces * indent if indent > 0 else ""
    spans = []
    for i, q in enumerate(Q):
        if i == 0:
            if not q.startswith(prefix0):
                v.append(("first-line-indent", "expected prefix %r, line %r" % (prefix0, q)))
                return v
            core = q[len(prefix0):]
        else:
            core = q.lstrip()
            while pos < len(T) and T[pos].isspace():
                pos += 1
        if i < k - 1:
            core = core.rstrip()
        if not T.startswith(core, pos):
            v.append(("text-altered", "at offset %d expected %r..., physical line %d has %r; logical %r" % (
                pos, T[pos:pos + len(core) + 8], i, core, line)))
            return v
        start = pos
        pos += len(core)
        spans.append((start, pos))
        if i < k - 1:
            e = pos
            while e < len(T) and T[e].isspace():
                e += 1
            s0 = pos
            while s0 > 0 and T[s0 - 1].isspace():
                s0 -= 1
            if not any(s0 <= b <= e for b in bounds):
                # allow whitespace on the left of pos that belonged to core's rstrip
                v.append(("break-not-at-hint", "break after offset %d of %r (hints at %s)" % (
                    pos, T, sorted(bounds))))
                return v
    if pos != len(T):
        rest = T[pos:]
        if rest.strip() or k == 1:
            v.append(("text-lost", "unwritten tail %r of %r" % (rest, line)))
            return v
    # (4) over-long physical line although a hint inside it would have let it fit
    for i, q in enumerate(Q):
        if len(q) > linelen:
            start, end = spans[i]
            lead = len(q) - len(q.lstrip()) if i > 0 else len(prefix0)
            for b in sorted(bounds):
                if start < b < end and T[start:b].strip() and T[b:end].strip():
                    if lead + len(T[start:b].rstrip()) <= linelen:
                        v.append(("overlong-despite-break-point",
                                  "physical line %d has %d > %d columns; hint at %d would fit: %r" % (
                                      i, len(q), linelen, b, q)))
                        break
    return v


def model_write_lines(lines, indent, spaces="    "):
    """Reference model of the documented directive rules.
    Returns (events, final_indent); events are ("raw", text) for text that
    goes to the stream verbatim and ("cont", text, indent) for text that is
    handed to the continuation splitter at that indent."""
    ev = []
    for line in lines:
        if isinstance(line, bool):
            indent += int(line)
        elif isinstance(line, int):
            indent += line
        elif type(line).__name__ == "UserCode":
            # user splicer code: copied unchanged at the current indent (C12), '#' lines in column one
            for sub in line.split("\n"):
                if sub == "":
                    ev.append(("raw", "\n"))
                elif sub[0] == "#":
                    ev.append(("raw", sub + "\n"))
                else:
                    ev.append(("raw", spaces * max(indent, 0) + sub + "\n"))
        else:
            for sub in line.split("\n"):
                if sub == "":
                    ev.append(("raw", "\n"))
                elif sub[0] == "#":
                    ev.append(("raw", sub + "\n"))
                elif sub[0] == "@":
                    ev.append(("cont", sub[1:], indent))
                elif sub[0] == "^":
                    ev.append(("raw", sub[1:] + "\n"))
                elif sub[0] == "+":
                    indent += 1
                    if sub[-1] == "-":
                        ev.append(("cont", sub[1:-1], indent))
                        indent -= 1
                    else:
                        ev.append(("cont", sub[1:], indent))
                else:
                    while sub[:1] == "-":
                        indent -= 1
                        sub = sub[1:]
                    if sub[-1:] == "+":
                        ev.append(("cont", sub[:-1], indent))
                        indent += 1
                    else:
                        ev.append(("cont", sub, indent))
    return ev, indent


def fortran_overlong(text, limit=132):
    """Non-comment Fortran (free-form) lines longer than limit."""
    bad = []
    for n, ln in enumerate(text.split("\n"), 1):
        if len(ln) > limit:
            s = ln.lstrip()
            if s.startswith("!") or s.startswith("#"):
                continue
            bad.append((n, len(ln), ln))
    return bad
