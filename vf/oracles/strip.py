"""E6: language-aware comment strippers / tokenisers (C16).

Each function maps source text to a list of tokens with comments and blank
lines removed.  String and character literals are kept as single tokens, so
comment introducers inside them are not mistaken for comments.
"""
from __future__ import annotations

import io
import re
import tokenize

_C_TOKEN = re.compile(r"""
    (?P<ws>\s+)
  | (?P<lc>//[^\n]*)
  | (?P<bc>/\*.*?\*/)
  | (?P<str>"(?:\\.|[^"\\\n])*")
  | (?P<chr>'(?:\\.|[^'\\\n])*')
  | (?P<id>[A-Za-z_][A-Za-z_0-9]*)
  | (?P<num>\.?[0-9](?:[0-9A-Za-z_.]|[eEpP][+-])*)
  | (?P<op>.)
""", re.S | re.X)


def c_tokens(text):
    toks = []
    for m in _C_TOKEN.finditer(text):
        k = m.lastgroup
        if k in ("ws", "lc", "bc"):
            continue
        toks.append(m.group())
    return toks


_F_TOKEN = re.compile(r"""
    (?P<ws>[ \t]+)
  | (?P<com>![^\n]*)
  | (?P<str>"(?:""|[^"\n])*"|'(?:''|[^'\n])*')
  | (?P<nl>\n)
  | (?P<id>[A-Za-z_][A-Za-z_0-9]*)
  | (?P<num>[0-9][0-9A-Za-z_.]*)
  | (?P<op>.)
""", re.S | re.X)


def fortran_tokens(text):
    """Free-form Fortran: comments removed, '&' continuations joined, blank lines dropped.
    Statement boundaries (newlines) are kept as ';' tokens because they are syntax.
    cpp directive lines (# in column one) are kept whole."""
    toks = []
    lines = text.split("\n")
    pending_cont = False
    for ln in lines:
        if ln.startswith("#"):
            toks.append(ln.rstrip())
            toks.append(";")
            continue
        lt = []
        for m in _F_TOKEN.finditer(ln):
            k = m.lastgroup
            if k in ("ws", "com"):
                continue
            lt.append(m.group())
        if not lt:
            continue           # blank or comment-only line (legal inside a continued statement)
        if pending_cont and lt and lt[0] == "&":
            lt = lt[1:]
        cont = bool(lt) and lt[-1] == "&"
        if cont:
            lt = lt[:-1]
        toks.extend(lt)
        if not cont:
            toks.append(";")
        pending_cont = cont
    return toks


def python_tokens(text):
    toks = []
    try:
        for t in tokenize.generate_tokens(io.StringIO(text).readline):
            if t.type in (tokenize.COMMENT, tokenize.NL):
                continue
            if t.type in (tokenize.NEWLINE, tokenize.INDENT, tokenize.DEDENT, tokenize.ENDMARKER):
                toks.append(tokenize.tok_name[t.type])
            else:
                toks.append(t.string)
    except (tokenize.TokenError, IndentationError, SyntaxError) as e:
        toks.append("<tokenize-error %s>" % (e,))
    return toks


def yaml_tokens(text):
    out = []
    for ln in text.split("\n"):
        s = ln.split(" #")[0] if not ln.lstrip().startswith("#") else ""
        if s.strip():
            out.append(s.rstrip())
    return out


def tokens_for(path, text):
    p = path.lower()
    if p.endswith((".c", ".h", ".cpp", ".hpp", ".cxx", ".hxx", ".cc")):
        return "c", c_tokens(text)
    if p.endswith((".f", ".f90", ".f03", ".f08")):
        return "fortran", fortran_tokens(text)
    if p.endswith(".py"):
        return "python", python_tokens(text)
    if p.endswith((".yaml", ".yml")):
        return "yaml", yaml_tokens(text)
    return None, None


def strip_c_comments(text):
    """Text with comments replaced by a blank (for 'stripping must not change compilability')."""
    out = []
    for m in _C_TOKEN.finditer(text):
        k = m.lastgroup
        if k in ("lc",):
            continue
        if k == "bc":
            out.append(" ")
            continue
        out.append(m.group())
    return "".join(out)


def strip_fortran_comments(text):
    out = []
    for ln in text.split("\n"):
        if ln.startswith("#"):
            out.append(ln)
            continue
        buf = []
        for m in _F_TOKEN.finditer(ln):
            if m.lastgroup == "com":
                break
            buf.append(m.group())
        s = "".join(buf).rstrip()
        if s.strip():
            out.append(s)
    return "\n".join(out) + "\n"
