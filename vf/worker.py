"""Worker process: `python -m vf.worker <module> <func> <timeout>`.
Reads one JSON case per line on stdin, forks, runs func(case) in the child,
writes one JSON result per line on the protocol fd (original stdout)."""
import importlib
import json
import os
import select
import signal
import sys
import time
import traceback


def main():
    modname, func, timeout = sys.argv[1], sys.argv[2], float(sys.argv[3])
    proto = os.fdopen(os.dup(1), "w")
    devnull = os.open(os.devnull, os.O_WRONLY)
    os.dup2(devnull, 1)
    repo = os.environ.get("VERIF_REPO", "/repo")
    if repo not in sys.path:
        sys.path.insert(0, repo)
    mod = importlib.import_module(modname)
    fn = getattr(mod, func)
    pre = getattr(mod, "worker_init", None)
    if pre:
        pre()
    for line in sys.stdin:
        line = line.strip()
        if not line:
            continue
        case = json.loads(line)
        r, w = os.pipe()
        pid = os.fork()
        if pid == 0:
            os.close(r)
            try:
                os.setsid()
            except Exception:
                pass
            try:
                res = fn(case)
            except BaseException:
                res = {"harness_error": traceback.format_exc()}
            try:
                data = json.dumps(res, default=str).encode()
            except Exception:
                data = json.dumps({"harness_error": "unserialisable result: " + traceback.format_exc()}).encode()
            try:
                with os.fdopen(w, "wb") as f:
                    f.write(data)
            finally:
                os._exit(0)
        os.close(w)
        chunks = []
        deadline = time.time() + timeout
        timed_out = False
        while True:
            left = deadline - time.time()
            if left <= 0:
                timed_out = True
                break
            rl, _, _ = select.select([r], [], [], min(left, 5.0))
            if rl:
                b = os.read(r, 1 << 16)
                if not b:
                    break
                chunks.append(b)
        os.close(r)
        if timed_out:
            try:
                os.killpg(pid, signal.SIGKILL)
            except Exception:
                try:
                    os.kill(pid, signal.SIGKILL)
                except Exception:
                    pass
        _, status = os.waitpid(pid, 0)
        if timed_out:
            res = {"timeout": True}
        elif not chunks:
            res = {"crashed": status}
        else:
            try:
                res = json.loads(b"".join(chunks).decode())
            except Exception as e:
                res = {"harness_error": "bad child result: %r" % (e,)}
        proto.write(json.dumps(res) + "\n")
        proto.flush()


if __name__ == "__main__":
    main()
