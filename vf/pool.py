"""Worker pool: N long-lived worker processes, each forks one child per case.

The worker imports the repository's modules once (state = import-time state),
every case then runs in a forked child, so no case can see registries mutated
by another (C07 shows Shroud leaks state in-process; isolation keeps that out of
every other check).  A child that crashes or exceeds the watchdog is an
observation ('crashed' / 'timeout'), never a hang of the harness.
"""
from __future__ import annotations

import json
import os
import queue
import subprocess
import sys
import threading

from . import common


def run_cases(modname, cases, func="run_case", nproc=None, timeout=300, on_result=None):
    """Run func(case) of module modname for every case; yields nothing, calls
    on_result(case, result) in the caller's thread order of completion."""
    nproc = nproc or common.NPROC
    cases = list(cases)
    if not cases:
        return []
    nproc = max(1, min(nproc, len(cases)))
    q = queue.Queue()
    for i, c in enumerate(cases):
        q.put((i, c))
    results = [None] * len(cases)
    lock = threading.Lock()
    env = dict(os.environ)
    env["VERIF_REPO"] = common.REPO
    env["PYTHONPATH"] = common.VERIF + os.pathsep + common.REPO
    env.setdefault("PYTHONHASHSEED", "0")
    env["VERIF_SCRATCH_ROOT"] = common.scratch_root()

    def feeder():
        p = None
        while True:
            try:
                i, c = q.get_nowait()
            except queue.Empty:
                break
            if p is None or p.poll() is not None:
                p = subprocess.Popen(
                    [common.PY, "-m", "vf.worker", modname, func, str(timeout)],
                    stdin=subprocess.PIPE, stdout=subprocess.PIPE, env=env,
                    cwd=common.VERIF, text=True)
            try:
                p.stdin.write(json.dumps(c) + "\n")
                p.stdin.flush()
                line = p.stdout.readline()
                res = json.loads(line) if line else {"harness_error": "worker died"}
            except (BrokenPipeError, ValueError) as e:
                res = {"harness_error": "worker protocol: %r" % (e,)}
                try:
                    p.kill()
                except Exception:
                    pass
                p = None
            with lock:
                results[i] = res
                if on_result:
                    on_result(c, res)
        if p is not None:
            try:
                p.stdin.close()
                p.wait(timeout=10)
            except Exception:
                p.kill()

    threads = [threading.Thread(target=feeder, daemon=True) for _ in range(nproc)]
    for t in threads:
        t.start()
    for t in threads:
        t.join()
    return results
