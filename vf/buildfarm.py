"""E4: compile, link and run generated wrappers under sanitizers.

corpus_job: freshly generated wrappers of one upstream configuration are
built with upstream's own library sources, Makefile and drivers
(regression/run/<name>: main.f with FRUIT assertions, testc.c, maincpp.cpp)
with -fsanitize=address,undefined, and the driver is executed.
"""
from __future__ import annotations

import os
import re
import shutil
import subprocess

from . import common, corpus

SAN = "-fsanitize=address,undefined -fno-sanitize=nonnull-attribute,returns-nonnull-attribute -fno-omit-frame-pointer"
CFLAGS = "-g -O0 -std=c99 -w " + SAN
CXXFLAGS = "-g -O0 -std=c++11 -w " + SAN
FFLAGS = "-g -O0 -cpp -ffree-form -w " + SAN
ASAN_ENV = {
    "ASAN_OPTIONS": "halt_on_error=1:abort_on_error=0:detect_leaks=1:alloc_dealloc_mismatch=1:detect_stack_use_after_return=0",
    "UBSAN_OPTIONS": "print_stacktrace=1:halt_on_error=1",
    "LSAN_OPTIONS": "print_suppressions=0",
}

# upstream configurations with a Fortran driver (regression/run/Makefile: test-fortran, test-cfi),
# C driver (test-c) and C++ driver
FORTRAN_TARGETS = ["tutorial", "types", "classes", "forward", "enum-c", "namespace", "pointers-c", "pointers-cxx",
                   "arrayclass", "struct-c", "struct-cxx", "vectors", "cdesc", "preprocess", "strings", "ccomplex",
                   "clibrary", "cxxlibrary", "ownership", "generic", "statement", "templates", "generic-cfi",
                   "strings-cfi"]
C_TARGETS = ["types", "classes", "enum-c", "namespace", "struct-cxx", "statement", "templates"]


def load_quirks():
    import json
    try:
        with open(os.path.join(common.VERIF, "corpus_quirks.json")) as f:
            return json.load(f)["quirks"]
    except FileNotFoundError:
        return []


def is_quirk(quirks, config, kind, gen, lib):
    for q in quirks:
        if config in q["config"] and q["kind"] == kind and q["gen"] == gen and q["lib"] == lib:
            return q
    return None


WRAPPER_TEMP_ALLOCATORS = ("ShroudStrAlloc", "ShroudStrArrayAlloc")


def leak_blocks(text):
    """LeakSanitizer: one entry per 'Direct leak' block with its allocation stack."""
    out = []
    for b in re.split(r"(?=^(?:Direct|Indirect) leak of )", text, flags=re.M):
        if not b.startswith(("Direct leak", "Indirect leak")):
            continue
        frames = re.findall(r"#\d+ 0x[0-9a-f]+ in (\S+) ([^\n]*)", b)
        out.append({"kind": "lsan:" + b.split(" leak")[0].lower(), "frames": frames[:12], "text": b[:2000]})
    return out


def sanitizer_reports(text):
    """Parse ASan/UBSan/LSan output into [(kind, generated-code frame, library frame)]."""
    out = []
    blocks = re.split(r"(?==+\d+==ERROR: |^[^\n]*runtime error: )", text, flags=re.M)
    for b in blocks:
        m = re.search(r"ERROR: (AddressSanitizer|LeakSanitizer): ([\w-]+)", b)
        kind = None
        if m:
            kind = "%s:%s" % ("asan" if m.group(1) == "AddressSanitizer" else "lsan", m.group(2))
        else:
            m2 = re.search(r"runtime error: (.*)", b)
            if m2:
                kind = "ubsan:" + re.sub(r"\d+", "N", m2.group(1))[:50]
        if not kind:
            continue
        frames = re.findall(r"#\d+ 0x[0-9a-f]+ in (\S+) ([^\n]*)", b)
        out.append({"kind": kind, "frames": frames[:12], "text": b[:2500]})
    return out


def classify_frames(frames, gen_files):
    """(innermost frame in generated code, innermost frame in the subject library / driver)"""
    gen = lib = None
    for fn, loc in frames:
        base = os.path.basename(loc.split(":")[0]) if loc else ""
        if base in gen_files or fn.startswith(("__wrap", "Shroud")) or "_mod_MOD_" in fn and base.startswith("wrapf"):
            if gen is None:
                gen = fn
        elif base and not base.startswith(("lib", "ld-")) and lib is None and not fn.startswith("__interceptor"):
            lib = "%s@%s" % (fn, base)
    return gen, lib


def make_top(name, cfg, scratch):
    """Scratch tree that makes upstream's Makefile compile the FRESH wrappers instead of the stored
    references: top/regression/run -> /repo/regression/run, top/regression/reference/<name> = new output."""
    from . import shroudrun
    top = os.path.join(scratch, "top")
    os.makedirs(os.path.join(top, "regression", "reference"), exist_ok=True)
    os.symlink(os.path.join(common.REPO, "regression", "run"), os.path.join(top, "regression", "run"))
    sp = corpus.spec(cfg)
    sp["keep"] = True
    rr = shroudrun.run(sp)
    if rr.get("exit") != 0 or rr.get("exc"):
        return None, rr
    out = os.path.join(rr["cwd"], "out")
    shutil.move(out, os.path.join(top, "regression", "reference", name))
    common.rmtree(rr["cwd"])
    return top, rr


def corpus_job(case):
    """case = {"name": config name, "targets": ["fortran","c"]}; runs in a pool child."""
    name = case["name"]
    cfgs = {c["name"]: c for c in corpus.configs()}
    cfg = cfgs[name]
    scratch = common.mkscratch("bf-")
    res = {"name": name, "builds": [], "violations": [], "stats": {}}
    try:
        top, rr = make_top(name, cfg, scratch)
        if top is None:
            e = rr.get("exc") or {}
            res["violations"].append({"mech": "shroud-fails:%s" % e.get("type"), "detail": str(e.get("msg"))[:500]})
            return res
        gen_dir = os.path.join(top, "regression", "reference", name)
        gen_files = set(os.listdir(gen_dir))
        res["stats"]["generated_files"] = len(gen_files)
        mk = os.path.join(top, "regression", "run", name, "Makefile")
        for target in case["targets"]:
            exe = {"fortran": name, "c": "testc", "cxx": "maincpp"}[target]
            bdir = os.path.join(scratch, "build-" + target)
            os.makedirs(bdir)
            cmd = ["make", "-C", bdir, "-f", mk, "top=" + top, exe, "CFLAGS=" + CFLAGS, "CXXFLAGS=" + CXXFLAGS,
                   "FFLAGS=" + FFLAGS, "CLIBS=-lstdc++ " + SAN, "FLIBS=-lstdc++ " + SAN, "CXXLIBS=" + SAN, "LIBS=" + SAN]
            p = subprocess.run(cmd, capture_output=True, text=True, timeout=900)
            b = {"target": target, "build_rc": p.returncode}
            if p.returncode != 0:
                err = p.stdout[-3000:] + p.stderr[-3000:]
                b["error"] = err
                m = re.search(r"([\w./-]+\.(?:c|cpp|cc|h|hpp|f|F|f90)):(\d+)[:.](?:\d+:)?\s*(?:fatal )?[Ee]rror:?\s*([^\n]*)", err)
                where = os.path.basename(m.group(1)) if m else "?"
                msg = re.sub(r"\d+", "N", m.group(3))[:50] if m else ("undefined-reference" if "undefined reference" in err else "?")
                in_gen = where in gen_files
                missing_env = re.search(r"(numpy/arrayobject\.h|mpi\.h|lua\.h|Python\.h): No such file", err)
                if missing_env:
                    b["unreachable"] = missing_env.group(1)
                else:
                    res["violations"].append({"mech": "build-fails:%s:%s:%s" % (target, "generated" if in_gen else "other", msg),
                                              "detail": "%s %s\n%s" % (name, target, err[-2500:])})
                res["builds"].append(b)
                continue
            env = dict(os.environ)
            env.update(ASAN_ENV)
            try:
                q = subprocess.run([os.path.join(bdir, exe)], cwd=bdir, capture_output=True, text=True, timeout=600, env=env,
                                   errors="replace")
            except subprocess.TimeoutExpired:
                b["watchdog"] = True
                res["builds"].append(b)
                continue
            b["run_rc"] = q.returncode
            out = q.stdout + "\n" + q.stderr
            m = re.search(r"Successful asserts / total asserts : \[\s*(\d+)\s*/\s*(\d+)\s*\]", out)
            if m:
                b["asserts_ok"], b["asserts_total"] = int(m.group(1)), int(m.group(2))
                res["stats"]["fruit_asserts"] = res["stats"].get("fruit_asserts", 0) + int(m.group(2))
            reps = sanitizer_reports(q.stderr)
            b["sanitizer_reports"] = len(reps)
            quirks = load_quirks()
            hard = 0
            for rp in reps:
                if rp["kind"].startswith("lsan"):
                    # upstream drivers do not release every object they create, so only leaks of memory that a
                    # WRAPPER allocated for its own temporaries are the wrapper's (C06)
                    for lb in leak_blocks(rp["text"] if "Direct leak" in rp["text"] else q.stderr):
                        alloc = [fn for fn, loc in lb["frames"][1:4]]
                        first_user = next(((fn, loc) for fn, loc in lb["frames"][1:] if not fn.startswith(("__interceptor", "operator"))), ("?", ""))
                        base = os.path.basename(first_user[1].split(":")[0]) if first_user[1] else ""
                        via_new = bool(lb["frames"]) and lb["frames"][0][0].startswith("operator") and lb["frames"][0][1].startswith("new")
                        # objects created with 'new' in a wrapper are handed to the caller (constructors,
                        # copies for owner(caller)); malloc'ed blocks are the wrapper's own temporaries
                        if first_user[0] in WRAPPER_TEMP_ALLOCATORS or (base in gen_files and not via_new):
                            hard += 1
                            res["violations"].append({"mech": "sanitizer:lsan:wrapper-temporary-leaked:%s" % first_user[0],
                                                      "detail": "%s %s\n%s" % (name, target, lb["text"])})
                        else:
                            res["stats"]["leaks_of_objects_upstream_driver_never_releases"] = res["stats"].get("leaks_of_objects_upstream_driver_never_releases", 0) + 1
                    continue
                gen, lib = classify_frames(rp["frames"], gen_files)
                qk = is_quirk(quirks, name, rp["kind"], gen or "-", lib or "-")
                if qk:
                    res.setdefault("quirks_seen", []).append("%s: %s" % (name, qk["why"][:80]))
                    continue
                hard += 1
                res["violations"].append({"mech": "sanitizer:%s:%s:%s" % (rp["kind"], gen or "-", lib or "-"),
                                          "detail": "%s %s\n%s" % (name, target, rp["text"]), "lib_frame": lib, "gen_frame": gen})
            if not hard:
                failed = (m and m.group(1) != m.group(2)) or (q.returncode != 0 and not reps)
                if failed:
                    fails = re.findall(r"^.*(?:\[[^\]]*\]|Expected|FAIL|Assertion)[^\n]*", out, flags=re.M)[:8]
                    case_names = sorted(set(re.findall(r"\[([\w ]+)\]:", out)))[:6]
                    res["violations"].append({"mech": "driver-assertion-fails:%s:%s" % (target, ",".join(case_names) or "rc%d" % q.returncode),
                                              "detail": "%s %s rc=%d\n%s" % (name, target, q.returncode, out[-2500:])})
            res["builds"].append(b)
        return res
    finally:
        common.rmtree(scratch)


# ------------------------------------------------------------------ upstream Python unit tests (numpy-free ones)

PYTHON_TARGETS = ["classes", "tutorial", "types", "strings", "clibrary", "enum-c", "namespace", "ccomplex"]
# upstream assertions that depend on the interpreter version, not on Shroud
PY_TEST_QUIRKS = {("classes", "test_class1_create1"): "expects CPython < 3.10 wording 'an integer is required' of the TypeError PyArg_Parse raises"}


def python_corpus_job(case):
    """Build the freshly generated Python extension of an upstream configuration with ASan+UBSan, link the
    upstream library sources, run regression/run/<name>/python/test.py under LD_PRELOAD=libasan."""
    import sysconfig
    name = case["name"]
    cfg = {c["name"]: c for c in corpus.configs()}[name]
    scratch = common.mkscratch("bfpy-")
    res = {"name": name, "builds": [], "violations": [], "stats": {}}
    try:
        top, rr = make_top(name, cfg, scratch)
        if top is None:
            e = rr.get("exc") or {}
            res["violations"].append({"mech": "shroud-fails:%s" % e.get("type"), "detail": str(e.get("msg"))[:500]})
            return res
        gen_dir = os.path.join(top, "regression", "reference", name)
        run_dir = os.path.join(top, "regression", "run", name)
        test = os.path.join(run_dir, "python", "test.py")
        pys = sorted(f for f in os.listdir(gen_dir) if f.startswith("py") and f.endswith((".c", ".cpp")))
        if not pys or not os.path.exists(test):
            res["unreachable"] = "no python wrapper or no upstream test"
            return res
        modsrc = "".join(open(os.path.join(gen_dir, f)).read() for f in pys)
        m = re.search(r"PyInit_(\w+)", modsrc)
        if not m:
            res["unreachable"] = "module name not found"
            return res
        mod = m.group(1)
        libsrc = sorted(f for f in os.listdir(run_dir) if f.endswith((".c", ".cpp")) and not f.startswith(("main", "test")))
        cxx = any(f.endswith(".cpp") for f in pys + libsrc)
        bdir = os.path.join(scratch, "build-python")
        os.makedirs(bdir)
        objs = []
        for d_, f in [(gen_dir, f) for f in pys] + [(run_dir, f) for f in libsrc]:
            cc = ["g++", "-std=c++11"] if f.endswith(".cpp") else ["gcc", "-std=c99"]
            o = os.path.join(bdir, f + ".o")
            p = subprocess.run(cc + ["-c", "-fPIC", "-g", "-O0", "-w", "-I", gen_dir, "-I", run_dir, "-I", sysconfig.get_paths()["include"]] + SAN.split() +
                               [os.path.join(d_, f), "-o", o], capture_output=True, text=True, timeout=600)
            if p.returncode != 0:
                if re.search(r"numpy/arrayobject\.h", p.stderr):
                    res["unreachable"] = "needs numpy"
                    return res
                msg = re.sub(r"\d+", "N", (re.search(r"error:?\s*([^\n]*)", p.stderr) or [None, "?"])[1])[:60]
                res["violations"].append({"mech": "python-build-fails:%s:%s" % ("generated" if d_ == gen_dir else "other", msg),
                                          "detail": "%s %s\n%s" % (name, f, p.stderr[-2500:])})
                return res
            objs.append(o)
        p = subprocess.run((["g++"] if cxx else ["gcc"]) + ["-shared"] + SAN.split() + objs + ["-o", os.path.join(bdir, mod + ".so")],
                           capture_output=True, text=True, timeout=600)
        if p.returncode != 0:
            res["violations"].append({"mech": "python-link-fails", "detail": "%s\n%s" % (name, p.stderr[-2500:])})
            return res
        env = dict(os.environ)
        env.update({"ASAN_OPTIONS": "detect_leaks=0:halt_on_error=1:abort_on_error=0", "UBSAN_OPTIONS": "print_stacktrace=1:halt_on_error=1",
                    "LD_PRELOAD": subprocess.check_output(["gcc", "-print-file-name=libasan.so"], text=True).strip(),
                    "PYTHONPATH": bdir, "PYTHONDONTWRITEBYTECODE": "1"})
        try:
            q = subprocess.run([common.PY, test], cwd=bdir, capture_output=True, text=True, timeout=600, env=env, errors="replace")
        except subprocess.TimeoutExpired:
            res["watchdog"] = True
            return res
        out = q.stdout + "\n" + q.stderr
        m = re.search(r"Ran (\d+) tests?", out)
        res["stats"]["python_tests_run"] = int(m.group(1)) if m else 0
        res["builds"].append({"target": "python", "run_rc": q.returncode})
        reps = sanitizer_reports(q.stderr)
        gen_files = set(os.listdir(gen_dir))
        quirks = load_quirks()
        for rp in reps:
            if rp["kind"].startswith("lsan"):
                continue
            gen, lib = classify_frames(rp["frames"], gen_files)
            if is_quirk(quirks, name, rp["kind"], gen or "-", lib or "-"):
                continue
            res["violations"].append({"mech": "sanitizer:%s:%s:%s" % (rp["kind"], gen or "-", lib or "-"), "detail": "%s python\n%s" % (name, rp["text"])})
        if not reps and (q.returncode != 0 or not re.search(r"^OK", out, re.M)):
            fails = sorted(set(re.findall(r"^(?:FAIL|ERROR): (\w+)", out, re.M)))[:6]
            if fails and all((name, t) in PY_TEST_QUIRKS for t in fails):
                res.setdefault("quirks_seen", []).extend("%s.%s: %s" % (name, t, PY_TEST_QUIRKS[(name, t)]) for t in fails)
                return res
            res["violations"].append({"mech": "upstream-python-test-fails:%s" % (",".join(fails) or "rc%d" % q.returncode),
                                      "detail": "%s\n%s" % (name, out[-3000:])})
        return res
    finally:
        common.rmtree(scratch)
