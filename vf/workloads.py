"""Workloads for the Level-A checks (Shroud runs only): corpus configurations,
generated libraries, and YAML-to-YAML variants of them."""
from __future__ import annotations

import copy
import os

import yaml

from . import common, corpus


def load_yaml(text):
    return yaml.safe_load(text)


def dump_yaml(d):
    return yaml.safe_dump(d, sort_keys=False, default_flow_style=False, width=10000)


def with_options(text, opts):
    d = load_yaml(text) or {}
    d = copy.deepcopy(d)
    d.setdefault("options", {})
    if d["options"] is None:
        d["options"] = {}
    d["options"].update(opts)
    return dump_yaml(d)


def genlib_specs(monitors, thorough=False, count=None):
    try:
        from .libgen import gen
    except ImportError:
        return []
    return gen.level_a_specs(monitors=monitors, thorough=thorough, count=count)


def level_a_specs(monitors=(), linelen_variants=False, thorough=False, corpus_only=False):
    specs = []
    cfgs = corpus.configs()
    for c in cfgs:
        specs.append(corpus.spec(c, monitors=monitors))
    if linelen_variants:
        r = common.rng("linelen")
        # 0 is documented as "shortest possible lines" (every break hint is taken)
        lens = [40, 72, 100, 0, 20]
        for c in cfgs:
            picks = lens if thorough else [r.choice(lens)]
            for n in picks:
                sp = corpus.spec(c, monitors=monitors,
                                 yaml_override=with_options(corpus.yaml_text(c), {"C_line_length": n, "F_line_length": n}))
                sp["name"] = "%s@len%d" % (c["name"], n)
                sp["linelen"] = n
                specs.append(sp)
        # the two settings are independent: the Fortran emitter writes with F_line_length, the others with C_line_length
        for ci, c in enumerate(cfgs):
            if not thorough and ci % 4 != common.seed() % 4 and c["name"] not in ("tutorial", "strings", "classes", "vectors"):
                continue
            for nc, nf in ((100, 60), (60, 100)) if (thorough or ci % 2 == 0) else ((100, 60),):
                sp = corpus.spec(c, monitors=monitors,
                                 yaml_override=with_options(corpus.yaml_text(c), {"C_line_length": nc, "F_line_length": nf}))
                sp["name"] = "%s@lenC%dF%d" % (c["name"], nc, nf)
                sp["linelen"] = nc
                sp["linelen_f"] = nf
                specs.append(sp)
    if not corpus_only:
        specs.extend(genlib_specs(monitors, thorough))
    return specs


def bad_run(rec, sp, r):
    """Classify a run that cannot be judged. Returns True if the caller should skip it."""
    if r is None or "harness_error" in r:
        rec.count("harness_errors")
        rec.inconclusive = "harness error in %s: %s" % (sp.get("name"), (r or {}).get("harness_error", "")[-600:])
        return True
    if r.get("timeout"):
        rec.count("watchdog_hits")
        rec.unreach("watchdog")
        return True
    if r.get("crashed") is not None:
        rec.count("child_crashes")
        rec.inconclusive = "child crashed in %s: status %r" % (sp.get("name"), r.get("crashed"))
        return True
    if r.get("exc") or r.get("exit") not in (0,):
        rec.count("workload_rejected_by_shroud")
        rec.add_to_set("rejected", [sp.get("name", "?")])
        return True
    return False
