"""Monitors attached from the harness to the imported shroud modules.

install(names) wraps functions of the *imported* repository modules (no
edit of the repository) and returns an Events object that the monitors fill.
Designed to be called inside a forked child: nothing is ever uninstalled.
"""
from __future__ import annotations

import io
import os
import sys

from .oracles import lines as lines_oracle


class Events:
    def __init__(self):
        self.files = []        # {"path","mode","kind"}
        self.continue_calls = 0
        self.continue_split = 0     # calls that produced > 1 physical line
        self.lines_calls = 0
        self.line_violations = []   # (mech, detail)
        self.line_samples = []
        self.splicers = []     # {"file_kind","path","name","source","lines"}
        self.parsed = []       # declaration texts
        self.parse_not_eof = []
        self.impure = []       # names of impure APIs called
        self.stmts = set()
        self.dirlist = 0
        self.linelens = {}     # emitter class -> set of line lengths it wrote with
        self.active = True

    def to_json(self):
        return {
            "files": self.files,
            "continue_calls": self.continue_calls,
            "continue_split": self.continue_split,
            "lines_calls": self.lines_calls,
            "line_violations": self.line_violations[:50],
            "n_line_violations": len(self.line_violations),
            "line_samples": self.line_samples[:3],
            "splicers": self.splicers,
            "parsed": self.parsed,
            "parse_not_eof": self.parse_not_eof,
            "impure": sorted(set(self.impure)),
            "stmts": sorted(self.stmts),
            "dirlist": self.dirlist,
            "linelens": {k: sorted(v) for k, v in self.linelens.items()},
        }


class Tee:
    """File-like wrapper that records what is written through it."""

    def __init__(self, fp):
        self.fp = fp
        self.log = []

    def write(self, s):
        self.log.append(s)
        return self.fp.write(s)

    def __getattr__(self, name):
        return getattr(self.fp, name)


def _emitter_kind():
    """Walk the stack to the emitter instance behind a write (C15)."""
    f = sys._getframe(2)
    kinds = []
    while f is not None:
        s = f.f_locals.get("self")
        if s is not None:
            n = type(s).__name__
            if n in ("Wrapc", "Wrapf", "Wrapp", "Wrapl", "TypeOut"):
                kinds.append(n)
                break
        f = f.f_back
    if kinds:
        return kinds[0]
    # not from an emitter: name the innermost shroud function
    f = sys._getframe(2)
    while f is not None:
        fn = f.f_code.co_filename
        if os.sep + "shroud" + os.sep in fn:
            return "main:" + f.f_code.co_name
        f = f.f_back
    return "other"


def install(names, ev=None):
    ev = ev or Events()
    import shroud.util as util

    if "files" in names:
        def hook(event, args):
            if not ev.active:
                return
            if event == "open":
                path, mode, flags = args
                if isinstance(path, int) or mode is None:
                    return
                if any(c in mode for c in "wax+"):
                    ev.files.append({"path": os.fspath(path) if not isinstance(path, bytes) else path.decode(),
                                     "mode": mode, "kind": _emitter_kind()})
            elif event in ("os.listdir", "os.scandir", "glob.glob"):
                ev.dirlist += 1
        sys.addaudithook(hook)

    if "lines" in names:
        orig_continue = util.WrapperMixin.write_continue
        orig_lines = util.WrapperMixin.write_lines
        state = {"in_lines": None}

        def write_continue(self, fp, line, spaces="    "):
            tee = Tee(fp)
            indent = self.indent
            orig_continue(self, tee, line, spaces)
            produced = "".join(tee.log)
            ev.continue_calls += 1
            ev.linelens.setdefault(type(self).__name__, set()).add(self.linelen)
            if produced.count("\n") > 1:
                ev.continue_split += 1
                if len(ev.line_samples) < 3:
                    ev.line_samples.append({"line": line, "linelen": self.linelen, "indent": indent,
                                            "cont": self.cont, "produced": produced})
            for mech, detail in lines_oracle.check_continue(
                    line, spaces, indent, self.linelen, self.cont, produced):
                ev.line_violations.append(("write_continue:" + mech, detail))
            if state["in_lines"] is not None:
                state["in_lines"].append(("cont", line, indent))
            return None

        def write_lines(self, fp, lines, spaces="    "):
            outer = state["in_lines"]
            rec = []
            state["in_lines"] = rec
            tee = _RawTee(fp, rec, state)
            indent0 = self.indent
            try:
                snapshot = list(lines)
            except TypeError:
                snapshot = lines
            try:
                orig_lines(self, tee, lines, spaces)
            finally:
                state["in_lines"] = outer
            ev.lines_calls += 1
            try:
                model, final = lines_oracle.model_write_lines(snapshot, indent0, spaces)
            except Exception:
                return None
            got = _merge_raw(rec)
            want = _merge_raw(model)
            if got != want:
                # locate first difference
                i = 0
                while i < min(len(got), len(want)) and got[i] == want[i]:
                    i += 1
                ev.line_violations.append(("write_lines:directive-model", "event %d: got %r want %r" % (
                    i, got[i:i + 2], want[i:i + 2])))
            elif final != self.indent:
                ev.line_violations.append(("write_lines:final-indent", "got %r want %r" % (self.indent, final)))
            return None

        util.WrapperMixin.write_continue = write_continue
        util.WrapperMixin.write_lines = write_lines

    if "splice" in names:
        orig_cs = util.WrapperMixin._create_splicer

        def _create_splicer(self, name, out, default=None, force=None):
            before = len(out)
            if force is not None:
                src = "force"
            elif name in self.splicer_stack[-1]:
                src = "user"
            elif default is not None:
                src = "default"
            else:
                src = "none"
            r = orig_cs(self, name, out, default, force)
            ev.splicers.append({"emitter": type(self).__name__, "name": self.splicer_path + name,
                                "source": src, "lines": [x for x in out[before:]]})
            return r
        util.WrapperMixin._create_splicer = _create_splicer

    if "parse" in names:
        import shroud.declast as declast
        orig_check = declast.check_decl

        def check_decl(decl, *a, **k):
            ev.parsed.append(decl)
            return orig_check(decl, *a, **k)
        declast.check_decl = check_decl
        orig_pinit = declast.Parser.__init__

        def pinit(self, decl, *a, **k):
            ev.parsed.append(decl)
            return orig_pinit(self, decl, *a, **k)
        declast.Parser.__init__ = pinit

    if "stmts" in names:
        import shroud.statements as statements
        orig_lookup = statements.lookup_fc_stmts

        def lookup_fc_stmts(path):
            r = orig_lookup(path)
            try:
                ev.stmts.add(r.name)
            except Exception:
                pass
            return r
        statements.lookup_fc_stmts = lookup_fc_stmts
        for modname in ("wrapc", "wrapf"):
            m = sys.modules.get("shroud." + modname)
            if m is not None and getattr(m, "statements", None) is statements:
                pass  # they call statements.lookup_fc_stmts through the module: patched

    if "impure" in names:
        import time, datetime, socket, platform, getpass, uuid, random as _random

        def wrapfn(mod, name, label):
            orig = getattr(mod, name, None)
            if orig is None:
                return

            def w(*a, **k):
                # only count calls made from repository code
                f = sys._getframe(1)
                depth = 0
                while f is not None and depth < 30:
                    if os.sep + "shroud" + os.sep in f.f_code.co_filename and "/verif/" not in f.f_code.co_filename:
                        ev.impure.append(label)
                        break
                    f = f.f_back
                    depth += 1
                return orig(*a, **k)
            try:
                setattr(mod, name, w)
            except (TypeError, AttributeError):
                pass
        for n in ("time", "ctime", "strftime", "localtime", "gmtime", "asctime", "monotonic", "perf_counter"):
            wrapfn(time, n, "time." + n)
        wrapfn(socket, "gethostname", "socket.gethostname")
        for n in ("node", "uname", "platform"):
            wrapfn(platform, n, "platform." + n)
        for n in ("getpid", "getlogin", "uname", "getcwd", "urandom"):
            wrapfn(os, n, "os." + n)
        wrapfn(getpass, "getuser", "getpass.getuser")
        for n in ("uuid1", "uuid4"):
            wrapfn(uuid, n, "uuid." + n)
        for n in ("random", "randint", "choice", "shuffle"):
            wrapfn(_random, n, "random." + n)
    return ev


class _RawTee:
    """Tee used by the write_lines monitor: raw writes that do not come from
    write_continue are recorded as ("raw", text)."""

    def __init__(self, fp, rec, state):
        self.fp = fp
        self.rec = rec
        self.state = state

    def write(self, s):
        # writes made inside write_continue go through its own Tee first and
        # arrive here too; distinguish by caller
        f = sys._getframe(1)
        if f.f_code.co_name == "write" and f.f_back is not None:
            f = f.f_back
        if f.f_code.co_name != "write_continue":
            self.rec.append(("raw", s))
        return self.fp.write(s)

    def __getattr__(self, name):
        return getattr(self.fp, name)


def _merge_raw(events):
    """Concatenate adjacent raw writes so that write(a);write('\\n') == write(a+'\\n')."""
    out = []
    for e in events:
        if e[0] == "raw" and out and out[-1][0] == "raw":
            out[-1] = ("raw", out[-1][1] + e[1])
        else:
            out.append(tuple(e))
    return out
