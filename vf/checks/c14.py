"""C14 — equivalent ways of stating the same customisation give identical output.

Deciding method: pairs of real Shroud runs on two descriptions / command
lines that the documentation declares equivalent; byte comparison of the
generated source files (json/log debug dumps record *where* an option was
written and are excluded).
"""
from __future__ import annotations

import copy
import os
import re

from .. import common, corpus, pool, workloads
from ..libgen import gen
from .c07 import diff_outputs, file_role
from .c16 import decl_entries

LEVEL = "exploration"

# function-scoped options and format fields (curated from docs/reference.rst: consulted while a
# single function / method is wrapped).  value = list of non-default values to try
FUNC_OPTIONS = {
    "C_force_wrapper": [True],
    "F_force_wrapper": [True],
    "F_string_len_trim": [False],
    "F_create_bufferify_function": [False],
    "F_create_generic": [False],
    "F_CFI": [True],
    "return_scalar_pointer": ["scalar"],
    "F_return_fortran_pointer": [False],
    "C_line_length": [100],       # read by each emitter per line? (library-level in emitters: expected equal only at library scope) -- excluded below
}
FUNC_OPTIONS.pop("C_line_length")
FUNC_FORMATS = {
    "C_result": ["myrv"],
    "F_result": ["my_rv"],
    "C_this": ["me"],
    "F_this": ["me"],
    "CXX_this": ["my_this"],
    "C_local": ["LOC_"],
    "CXX_local": ["LCXX_"],
    "c_temp": ["TMP_"],
    "LUA_result": ["lrv"],
    "PY_result": ["pyrv"],
}


def is_func_entry(e):
    d = e["decl"].lstrip()
    return not d.startswith(("class", "struct", "enum", "namespace", "typedef", "extern", "template<typename T> class",
                             "template <", "using")) and "(" in d


def source_outputs(rr):
    return {k: v for k, v in rr["outputs"].items() if not k.endswith((".json", ".log"))}


# ---------------------------------------------------------------- (ii) attributes inline vs attrs/fattrs

def split_top(s, sep=","):
    out, depth, cur = [], 0, []
    for ch in s:
        if ch in "(<[":
            depth += 1
        elif ch in ")>]":
            depth -= 1
        if ch == sep and depth == 0:
            out.append("".join(cur))
            cur = []
        else:
            cur.append(ch)
    out.append("".join(cur))
    return out


ATTR_RE = re.compile(r"\+\s*([A-Za-z_]\w*)\s*(?:\(((?:[^()]|\([^()]*\))*)\)|=\s*([A-Za-z_0-9]+))?")


def pull_attrs(text):
    """Remove +attr / +attr(value) / +attr=value from a fragment; return (stripped, {name: value})."""
    attrs = {}

    def rep(m):
        name = m.group(1)
        if m.group(2) is not None:
            v = m.group(2).strip()
        elif m.group(3) is not None:
            v = m.group(3)
        else:
            v = True
        attrs[name] = v
        return ""
    stripped = ATTR_RE.sub(rep, text)
    return stripped.rstrip(), attrs


def yaml_value(v):
    """Attribute value as a user would write it in YAML (ints as ints)."""
    if v is True:
        return True
    if isinstance(v, str) and re.fullmatch(r"-?\d+", v):
        return int(v)
    return v


def move_attrs_out(entry):
    """Return a copy of a function entry with inline attributes moved to attrs/fattrs, or None."""
    decl = entry["decl"]
    if "(*" in decl or "template" in decl or "=" in decl.split("(", 1)[-1].split("+", 1)[0]:
        return None
    if "+" not in decl:
        return None
    try:
        head, rest = decl.split("(", 1)
        # find the parenthesis matching the first '('
        depth, idx = 1, None
        for i, ch in enumerate(rest):
            if ch == "(":
                depth += 1
            elif ch == ")":
                depth -= 1
                if depth == 0:
                    idx = i
                    break
        if idx is None:
            return None
        params_s, tail = rest[:idx], rest[idx + 1:]
    except ValueError:
        return None
    new = copy.deepcopy(entry)
    attrs = {}
    params = []
    if params_s.strip() and params_s.strip() != "void":
        for p in split_top(params_s):
            if "=" in p.split("+")[0]:
                return None      # default value before attributes: not handled
            stripped, a = pull_attrs(p)
            m = re.search(r"([A-Za-z_]\w*)\s*$", stripped)
            if not m:
                return None
            if a:
                attrs[m.group(1)] = {k: yaml_value(v) for k, v in a.items()}
            params.append(stripped.strip())
    else:
        params = [params_s.strip()] if params_s.strip() else []
    tail_stripped, fattrs = pull_attrs(tail)
    if not attrs and not fattrs:
        return None
    new["decl"] = "%s(%s)%s" % (head, ", ".join(params), tail_stripped)
    if attrs:
        new.setdefault("attrs", {}).update(attrs)
    if fattrs:
        new.setdefault("fattrs", {}).update({k: yaml_value(v) for k, v in fattrs.items()})
    return new


# ---------------------------------------------------------------- pair builders

def spec_of(name, d, argv_extra=(), yrel=None, links=None, path=None):
    yrel = yrel or "work/%s.yaml" % name
    argv = ["--logdir", "out", "--outdir", "out"] + (["--path", path] if path else []) + list(argv_extra) + [yrel]
    sp = {"name": name, "files": {yrel: d if isinstance(d, str) else workloads.dump_yaml(d)}, "dirs": ["out"], "argv": argv,
          "monitors": []}
    if links:
        sp["links"] = links
    return sp


def pairs_scope(r, name, d, thorough, offset=0, small=False):
    """(i) option / format on a container vs on each contained function."""
    out = []
    funcs_top = [e for e in d.get("declarations", []) if is_func_entry(e)]
    settings = [("options", k, v) for k, vs in FUNC_OPTIONS.items() for v in vs] + \
               [("format", k, v) for k, vs in FUNC_FORMATS.items() for v in vs]
    if not thorough:
        # rotate through the whole list from library to library (every setting meets several libraries in every run);
        # the wrapper-forcing options only matter where wrappers are optional (language c), so they are always tried there
        n_ = len(settings)
        pick = [settings[(offset + j) % n_] for j in range(1 if small else 4)]
        if d.get("language") == "c":
            pick += [x for x in settings if x[1] in ("C_force_wrapper", "F_force_wrapper") and x not in pick]
        # options that only act on particular declaration forms are always tried where such a declaration exists
        text = " ; ".join(e.get("decl", "") for e in decl_entries(d))
        want = []
        if re.search(r"(^|; )\s*(const\s+)?\w[\w ]*\*\s*\w+\(", text):
            want += ["return_scalar_pointer", "F_return_fortran_pointer"]
        if re.search(r"char|string", text):
            want += ["F_string_len_trim", "F_create_bufferify_function"]
        pick += [x for x in settings if x[1] in want and x not in pick]
        settings = pick
    classes = [e for e in decl_entries(d) if e["decl"].lstrip().startswith(("class", "template<typename T> class"))]
    has_members = any("(" not in m["decl"] for c in classes for m in c.get("declarations") or [])
    for field, k, v in settings:
        # Functions Shroud generates for a class itself (get_instance/set_instance/associated/final use
        # F_this; member getters/setters use every naming field) take the *container's* fields and have no
        # declaration a per-function setting could be attached to: outside the relation.
        class_ok = not has_members and k != "F_this"
        # container = library
        if classes and not class_ok:
            continue
        a = copy.deepcopy(d)
        a.setdefault(field, {})
        a[field] = dict(a[field] or {}, **{k: v})
        b = copy.deepcopy(d)
        for e in decl_entries(b):
            if is_func_entry(e):
                e[field] = dict(e.get(field) or {}, **{k: v})
        out.append(("scope:library:%s.%s" % (field, k), a, b))
        # container = block holding a subset; siblings stay outside
        if len(funcs_top) >= 2:
            idx = [i for i, e in enumerate(d["declarations"]) if is_func_entry(e)]
            pick = set(r.sample(idx, max(1, len(idx) // 2)))
            a = copy.deepcopy(d)
            inside = [copy.deepcopy(e) for i, e in enumerate(d["declarations"]) if i in pick]
            rest = [copy.deepcopy(e) for i, e in enumerate(d["declarations"]) if i not in pick]
            # keep relative order simple: picked functions moved to the end in both variants
            a["declarations"] = rest + [{"block": True, field: {k: v}, "declarations": inside}]
            b = copy.deepcopy(d)
            inside_b = [dict(copy.deepcopy(e), **{field: dict(e.get(field) or {}, **{k: v})}) for e in inside]
            b["declarations"] = copy.deepcopy(rest) + inside_b
            out.append(("scope:block:%s.%s" % (field, k), a, b))
        # container = class
        for ci, e in enumerate(d.get("declarations", [])):
            if e["decl"].lstrip().startswith("class") and e.get("declarations") and class_ok:
                a = copy.deepcopy(d)
                a["declarations"][ci][field] = dict(a["declarations"][ci].get(field) or {}, **{k: v})
                b = copy.deepcopy(d)
                for m in b["declarations"][ci]["declarations"]:
                    if is_func_entry(m) or "(" in m["decl"]:
                        m[field] = dict(m.get(field) or {}, **{k: v})
                out.append(("scope:class:%s.%s" % (field, k), a, b))
                break
    return out


def pairs_attrs(name, d):
    b = copy.deepcopy(d)
    n = 0
    for lst in _decl_lists(b):
        for i, e in enumerate(lst):
            if isinstance(e, dict) and "decl" in e and is_func_entry(e):
                ne = move_attrs_out(e)
                if ne is not None:
                    lst[i] = ne
                    n += 1
    if n:
        return [("attrs:inline-vs-yaml", copy.deepcopy(d), b)]
    return []


def _decl_lists(d):
    out = []

    def walk(x):
        if isinstance(x, dict) and isinstance(x.get("declarations"), list):
            out.append(x["declarations"])
            for e in x["declarations"]:
                walk(e)
    walk(d)
    return out


def pairs_block(r, name, d):
    decls = d.get("declarations") or []
    if not decls:
        return []
    a = copy.deepcopy(d)
    b = copy.deepcopy(d)
    i = r.randrange(0, len(decls))
    j = r.randrange(i, len(decls)) + 1
    b["declarations"] = decls[:i] + [{"block": True, "declarations": copy.deepcopy(decls[i:j])}] + decls[j:]
    c = copy.deepcopy(d)
    c["declarations"] = [{"block": True, "declarations": copy.deepcopy(decls)}]
    out = [("block:transparent-some", a, b), ("block:transparent-all", copy.deepcopy(d), c)]
    # a block inside a class (docs/input.rst: blocks group declarations of a library, namespace or class)
    for ci, e in enumerate(decls):
        if isinstance(e, dict) and e.get("decl", "").lstrip().startswith("class") and len(e.get("declarations") or []) >= 2:
            g = copy.deepcopy(d)
            mem = g["declarations"][ci]["declarations"]
            k1 = r.randrange(0, len(mem))
            k2 = r.randrange(k1, len(mem)) + 1
            g["declarations"][ci]["declarations"] = mem[:k1] + [{"block": True, "declarations": mem[k1:k2]}] + mem[k2:]
            out.append(("block:transparent-in-class", copy.deepcopy(d), g))
            break
    # a block that carries settings, with and without an empty block nested inside it (settings reach through)
    fld, key, val = r.choice([("options", "wrap_python", False), ("options", "wrap_fortran", False), ("options", "wrap_c", False),
                              ("options", "F_force_wrapper", True), ("options", "debug", True), ("format", "C_result", "myrv"),
                              ("format", "F_result", "my_rv"), ("options", "wrap_lua", False)])
    if key == "wrap_c":
        setting = {"options": {"wrap_c": False, "wrap_fortran": False}}
    else:
        setting = {fld: {key: val}}
    e1 = copy.deepcopy(d)
    e1["declarations"] = decls[:i] + [dict({"block": True, "declarations": copy.deepcopy(decls[i:j])}, **copy.deepcopy(setting))] + decls[j:]
    e2 = copy.deepcopy(d)
    e2["declarations"] = decls[:i] + [dict({"block": True, "declarations": [{"block": True, "declarations": copy.deepcopy(decls[i:j])}]},
                                           **copy.deepcopy(setting))] + decls[j:]
    out.append(("block:nested-inherits:%s.%s" % (fld, key), e1, e2))
    return out


def pairs_namespace(name, d):
    """Container = a namespace declaration (at any depth): a setting written on the namespace equals the same setting on
    every function declared inside it (nested namespaces included).  Wrapper switches are tried with the wrapper off
    at library level, so that the namespace is the only place that turns it on."""
    out = []
    paths = []

    def walk(lst, path):
        for i, e in enumerate(lst):
            if isinstance(e, dict) and e.get("decl", "").lstrip().startswith("namespace") and isinstance(e.get("declarations"), list):
                paths.append(path + [i])
                walk(e["declarations"], path + [i])
    walk(d.get("declarations") or [], [])

    def node(dd, path):
        cur = dd
        for i in path:
            cur = cur["declarations"][i]
        return cur

    def each_func(nsnode, fn):
        for e in nsnode["declarations"]:
            if isinstance(e, dict) and isinstance(e.get("declarations"), list) and e.get("decl", "").lstrip().startswith("namespace"):
                each_func(e, fn)
            elif isinstance(e, dict) and is_func_entry(e):
                fn(e)
    settings = [("options", k, vs[0], None) for k, vs in FUNC_OPTIONS.items()] + [("format", k, vs[0], None) for k, vs in FUNC_FORMATS.items() if k in ("C_result", "F_result")]
    for w in ("wrap_python", "wrap_lua", "wrap_fortran", "wrap_c"):
        settings.append(("options", w, True, w))
    for path in paths:
        for field, k, v, lib_off in settings:
            base = copy.deepcopy(d)
            if lib_off:
                base.setdefault("options", {})[lib_off] = False
                if lib_off == "wrap_c":
                    base["options"]["wrap_fortran"] = False
            a = copy.deepcopy(base)
            na = node(a, path)
            na[field] = dict(na.get(field) or {}, **{k: v})
            b = copy.deepcopy(base)
            each_func(node(b, path), lambda e: e.__setitem__(field, dict(e.get(field) or {}, **{k: v})))
            out.append(("scope:namespace%d:%s.%s" % (len(path), field, k), a, b))
    return out


SIB_OPTS = [("F_CFI", True), ("F_force_wrapper", True), ("C_force_wrapper", True), ("debug", True), ("literalinclude", True),
            ("F_string_len_trim", False), ("F_create_bufferify_function", False), ("wrap_python", False), ("wrap_fortran", False)]
STEM = re.compile(r"\b(f\d+[a-z0-9]+)")


def pairs_sibling(r, name, d, n):
    """An option set on ONE declaration: everything Shroud emits for the other declarations must not move."""
    tops = [(i, e) for i, e in enumerate(d.get("declarations") or []) if isinstance(e, dict) and STEM.search(e.get("decl", ""))]
    stems = {}
    for i, e in tops:
        stems.setdefault(STEM.search(e["decl"]).group(1), []).append(i)
    out = []
    if len(stems) < 2:
        return out
    picks = [(r.choice(sorted(stems)), ) + r.choice(SIB_OPTS) for _ in range(n)]
    # F_CFI changes the whole calling convention of the declaration that carries it: every declaration that really is
    # converted (character / string arguments or results) is tried, wherever it stands among its siblings
    cfi = [st for st in sorted(stems) if any(re.search(r"char|std::string", d["declarations"][i]["decl"]) for i in stems[st])]
    r.shuffle(cfi)
    picks += [(st, "F_CFI", True) for st in cfi[:4]]
    for st, opt, val in picks:
        b = copy.deepcopy(d)
        for i in stems[st]:                       # every entry of the chosen name (an overload set is one unit)
            b["declarations"][i].setdefault("options", {})[opt] = val
        a = copy.deepcopy(d)
        info = {"stem": st, "others": sorted(x for x in stems if x != st), "option": opt, "position": min(stems[st])}
        out.append(("sibling:%s" % opt, a, b, info))
    return out


def sibling_view(rr, info):
    """What the outputs say about the other declarations: every line that names one of them (and not the changed one),
    and the body of every splicer block named after one of them."""
    from .c12 import extract_blocks
    others, me = [x.lower() for x in info["others"]], info["stem"].lower()
    view = {}
    for rel, text in source_outputs(rr).items():
        # the index of a release routine in the library's destructor table is a sequence number over the whole library:
        # it moves consistently when another declaration gains or loses a routine (not a change of this declaration)
        text = re.sub(r"(idtor\s*=\s*)\d+", r"\1N", text)
        text = re.sub(r"(ShroudStrToArray\([^;]*?,\s*)\d+(\s*\);)", r"\1N\2", text)
        text = re.sub(r"(_to_Object_idtor\([^;]*?,\s*)\d+(\s*\);)", r"\1N\2", text)
        text = re.sub(r"(SHROUD_(?:release_memory|fetch_context)\(\s*)\d+", r"\1N", text)
        low = text.lower()
        lines = [ln for ln in low.split("\n") if any(o in ln for o in others) and me not in ln]
        blocks = {n_: b_ for n_, b_ in extract_blocks(text).items() if any(o in n_.lower() for o in others) and me not in n_.lower()}
        view[rel] = (lines, blocks)
    return view


def main(rec):
    thorough = common.tier() == "thorough"
    r = common.rng("c14")
    rec.rule = ("one evaluation = a pair of runs on two descriptions/command lines that are documented as equivalent: "
                "(i) function-scoped option or format field on library/block/class vs on every contained function, "
                "(ii) inline +attributes vs attrs/fattrs, (iii) --option/--language vs YAML fields, (iv) declarations "
                "vs the same inside an empty block, (v) create_wrapper vs command line; distinct_nontrivial = distinct "
                "(description, relation) pairs whose runs both wrote wrapper sources")
    rec.assumptions = ["the curated list of function-scoped options/format fields in vf/checks/c14.py"]
    jobs = []   # (relation, name, specA, specB)
    libs = gen.libraries(thorough, count=(60 if thorough else 14), salt="c14")
    mixes = [x for x in libs if x[0].startswith("gmix")]
    singles = [x for x in libs if not x[0].startswith("gmix")]
    if not thorough:
        allsingles = singles
        singles = [x for i, x in enumerate(singles) if i % 6 == common.seed() % 6]
        # one library per declaration form that has options of its own is always kept (pointer results, strings)
        for pat in (r"resptr", r"strres|cstrres", r"strrefout|cstrout"):
            m_ = next((x for x in allsingles if re.search(pat, x[0]) and x not in singles), None)
            if m_ is not None and not any(re.search(pat, x[0]) for x in singles):
                singles.append(m_)
    # two fixed libraries that are always part of the run: declaration forms whose processing writes options or flags
    # (templates, overloads, default arguments, converted strings / vectors) next to plain ones, in two orders
    by_id = {}
    for row_, T_ in gen.instances("c++", ("c", "fortran")):
        by_id.setdefault(row_["id"], (row_, T_))
    fixed_ids = ["scalar2", "str_cref", "template_arg", "str_ref_out", "overload2", "vec_in", "default2", "str_res_val", "res_ptr_fixed",
                 "cstr_in", "generic_real", "generic_attrs", "vec_out", "mixed", "str_res_cref", "cstr_inout", "res_ptr_scalar", "class_long_overloads", "class_named", "res_ptr_deref_scalar", "class_basic"]
    fixed_items = [by_id[i] for i in fixed_ids if i in by_id]
    fixed = [("gfixa", gen.library("gfixa", "c++", fixed_items, ("c", "fortran")), {}),
             ("gfixb", gen.library("gfixb", "c++", list(reversed(fixed_items)), ("c", "fortran")), {})]
    ns_items = [by_id[i] for i in ("namespace_scalar", "namespace_fn", "scalar2") if i in by_id]
    nsfixed = gen.library("gnsa", "c++", ns_items, ("c", "fortran", "python"))
    for rel, a, b in pairs_namespace("gnsa", nsfixed):
        jobs.append((rel, "gnsa", spec_of("gnsa", a), spec_of("gnsa", b)))
    for li, (name, d, meta) in enumerate(mixes + singles + fixed):
        prs = []
        if name.startswith("gfix"):
            prs += pairs_scope(r, name, d, True)           # the fixed libraries meet every setting of the curated list
        else:
            prs += pairs_scope(r, name, d, thorough, 4 * li) if (name.startswith("gmix") or thorough) else pairs_scope(r, name, d, False, 4 * li, small=True)
        prs += pairs_attrs(name, d)
        prs += pairs_block(r, name, d)
        for rel, a, b in prs:
            jobs.append((rel, name, spec_of(name, a), spec_of(name, b)))
        for rel, a, b, info in pairs_sibling(common.rng("c14sib", name), name, d, (6 if thorough else 3) if name.startswith("gmix") else (8 if name.startswith("gfix") else 1)):
            sa_ = spec_of(name, a)
            sa_["sib"] = info
            jobs.append((rel, name, sa_, spec_of(name, b)))
    links = {"input": os.path.join(common.REPO, "regression", "input")}
    cw_list = []
    for c in corpus.configs():
        text = corpus.yaml_text(c)
        d = workloads.load_yaml(text) or {}
        yrel = "work/" + c["yaml"]
        base_argv = [a for a in c["cmdline"]]
        # (iii) command-line options moved into the YAML file (and --language)
        opts, lang, rest = {}, None, []
        i = 0
        while i < len(base_argv):
            if base_argv[i] == "--option":
                k, v = base_argv[i + 1].split("=", 1)
                opts[k] = {"true": True, "True": True, "false": False, "False": False}.get(v, v)
                i += 2
            elif base_argv[i] == "--language":
                lang = base_argv[i + 1]
                i += 2
            else:
                rest.append(base_argv[i])
                i += 1
        if opts or lang:
            b = copy.deepcopy(d)
            if opts:
                b["options"] = dict(b.get("options") or {}, **opts)
            if lang:
                b["language"] = lang
            jobs.append(("cmdline:to-yaml", c["name"],
                         spec_of(c["name"], d, base_argv, yrel, links, "input"),
                         spec_of(c["name"], b, rest, yrel, links, "input")))
        # (iii') YAML library options moved to the command line, including typed values
        yo = dict(d.get("options") or {})
        movable = {k: v for k, v in yo.items() if isinstance(v, (bool, int, str)) and "{" not in str(v)}
        extra = {}
        if r.random() < 0.5:
            extra = r.choice([{"C_line_length": 100}, {"F_line_length": 60}, {"F_assumed_rank_max": 3},
                              {"C_line_length": 40, "F_line_length": 100}])
        if movable or extra:
            a = copy.deepcopy(d)
            a["options"] = dict(yo, **extra)
            b = copy.deepcopy(d)
            b["options"] = {k: v for k, v in yo.items() if k not in movable}
            if not b["options"]:
                b.pop("options")
            argv = list(base_argv)
            both = dict(movable, **extra)
            # command-line --option of the configuration itself wins in both variants
            for k, v in both.items():
                if k in opts:
                    continue
                argv += ["--option", "%s=%s" % (k, v)]
            jobs.append(("cmdline:from-yaml" + (":typed" if extra else ""), c["name"],
                         spec_of(c["name"], a, base_argv, yrel, links, "input"),
                         spec_of(c["name"], b, argv, yrel, links, "input")))
        # (iv) transparent block on corpus
        for rel, a, b in pairs_block(r, c["name"], d)[:1 if not thorough else 2]:
            jobs.append((rel, c["name"], spec_of(c["name"], a, base_argv, yrel, links, "input"),
                         spec_of(c["name"], b, base_argv, yrel, links, "input")))
        # (v) create_wrapper vs command line with the same arguments
        if not c["cmdline"]:
            cl = {"name": c["name"], "files": {yrel: text}, "dirs": ["out"], "links": links,
                  "argv": ["--outdir", "out", "--path", "input", yrel], "monitors": []}
            cw = {"name": c["name"], "files": {yrel: text}, "dirs": ["out"], "links": links, "entry": "create_wrapper",
                  "cw": {"filename": yrel, "outdir": "out", "path": ["input"]}, "monitors": []}
            jobs.append(("create_wrapper", c["name"], cl, cw))
            # ... also when it is not the first library the process wraps (a build script calling create_wrapper twice)
            cw_list.append(cw)
            for prev in (cw_list[-2:-1] + [x for x in cw_list if x["name"] in ("ownership", "strings")])[:2]:
                if prev is cw and c["name"] not in ("ownership", "strings"):
                    continue
                jobs.append(("create_wrapper:after-%s" % ("same-library" if prev is cw else "another-library"), c["name"], cl,
                             {"name": c["name"], "seq": [dict(prev), dict(cw)], "monitors": [], "files": cw["files"]}))
    flat = []
    for rel, name, a, b in jobs:
        flat.append(a)
        flat.append(b)
    res = pool.run_cases("vf.shroudrun", flat, timeout=300)
    for k, (rel, name, a, b) in enumerate(jobs):
        ra, rb = res[2 * k], res[2 * k + 1]
        case = {"relation": rel, "name": name, "a": a, "b": b}
        for rr in (ra, rb):
            if rr is None or "harness_error" in rr or rr.get("timeout") or rr.get("crashed") is not None:
                workloads.bad_run(rec, a, rr)
                break
        else:
            fa = bool(ra.get("exc")) or ra.get("exit") != 0
            fb = bool(rb.get("exc")) or rb.get("exit") != 0
            if fa and fb:
                rec.count("both_variants_rejected")
                continue
            if fa != fb and a.get("sib") and fb:
                # the option makes the declaration that carries it unwrappable (e.g. F_create_bufferify_function: false on a
                # function that needs the buffer conversion): Shroud says so; nothing to compare
                rec.count("sibling_option_not_applicable")
                continue
            if fa != fb:
                bad = ra if fa else rb
                e = bad.get("exc") or {}
                rec.violation("%s:one-variant-fails:%s:%s" % (rel.split(":")[0] if rel.startswith("scope") else rel, e.get("type"), e.get("where")),
                              "%s [%s]: variant %s fails: %s: %s %s" % (name, rel, "A" if fa else "B", e.get("type"),
                                                                       e.get("msg", "")[:300], bad.get("exit_msg", "")), case)
                rec.case(key="%s|%s" % (name, rel), sample={"description": name, "relation": rel, "result": "one variant fails"})
                continue
            if a.get("sib"):
                va, vb = sibling_view(ra, a["sib"]), sibling_view(rb, a["sib"])
                rec.count("sibling_pairs_compared")
                rec.count("pairs_compared")
                rec.case(key="%s|%s|%s" % (name, rel, a["sib"]["stem"]), sample={"description": name, "relation": rel, "changed": a["sib"]["stem"],
                                                                                "others": a["sib"]["others"][:4]})
                for fn in sorted(set(va) & set(vb)):
                    if va[fn] != vb[fn]:
                        la, lb = va[fn][0], vb[fn][0]
                        diff = [x for x in la if x not in lb][:4] + ["=>"] + [x for x in lb if x not in la][:4]
                        blk = [n_ for n_ in set(va[fn][1]) | set(vb[fn][1]) if va[fn][1].get(n_) != vb[fn][1].get(n_)][:4]
                        rec.violation("%s:sibling-changed:%s" % (rel, file_role(fn)),
                                      "%s [%s on %s]: what %s says about the other declarations changed\n lines: %r\n blocks: %r" % (
                                          name, a["sib"]["option"], a["sib"]["stem"], fn, diff, blk), case)
                        break
                continue
            sa, sb = source_outputs(ra), source_outputs(rb)
            rec.count("pairs_compared")
            rec.count("files_compared", len(sa))
            d = diff_outputs(sa, sb)
            rec.case(key="%s|%s" % (name, rel) if len(sa) > 1 else None,
                     sample={"description": name, "relation": rel, "files": len(sa), "differences": len(d)})
            for fn, what in d[:3]:
                rec.violation("%s:%s" % (rel, file_role(fn)), "%s [%s]: %s\n%s" % (name, rel, fn, what), case)
    if rec.counters.get("pairs_compared", 0) == 0:
        rec.inconclusive = "no pair compared"


def replay(bundle):
    case = bundle["case"]
    ra, rb = pool.run_cases("vf.shroudrun", [case["a"], case["b"]])
    d = diff_outputs(source_outputs(ra), source_outputs(rb)) if ra.get("exit") == 0 and rb.get("exit") == 0 else [("run", (ra.get("exc"), rb.get("exc")))]
    for fn, what in d:
        print(fn, what)
    if d:
        print("VIOLATION property=C14 replay=replayed")
        return 1
    return 0
