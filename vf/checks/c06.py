"""C06 — wrapped objects and returned memory are released exactly once, never early, with the matching
deallocator; library-owned memory is never freed by a wrapper; wrapper temporaries are freed.

Deciding method: Level B call histories.  A generated "ownership" library (class constructed by the
caller, class results owned by the library / by the caller / returned by value / handed out with a
free_pattern, native array results pointer|allocatable x library|caller|free_pattern, std::string and
std::vector results and arguments) is wrapped by Shroud, compiled with ASan+UBSan (+LSan for the native
drivers) and driven by synthesised Fortran, C and Python programs that execute random but *valid*
histories: construct, use, copy a handle, release, release again, release through the documented memory
destructor, read returned arrays before and after other calls.  Three monitors run on every step:
  (1) the library's live-object counter and its DTOR / FREE records against the ownership model,
  (2) the number of caller-owned heap blocks still allocated, asked of the sanitizer allocator
      (__sanitizer_get_ownership) at every marker: a block released early, twice or never is seen at the
      step where it happens,
  (3) ASan / UBSan / LSan reports (use after free, double free, alloc-dealloc mismatch, leak, overflow).
The upstream ownership / classes / strings / vectors / memdoc drivers run under the same sanitizers as a
second workload.
"""
from __future__ import annotations

import copy
import json
import os
import subprocess

from .. import buildfarm, common, engine, pool, workloads
from ..drivers import c as cdrv
from ..drivers import fortran as fdrv
from ..libgen import ir, libs
from ..libgen.libs import F, P
from . import c02, c03

LEVEL = "exploration"
K = "Kown"
F_CONV = {"in": fdrv.conv_in, "out": fdrv.conv_out}


# ------------------------------------------------------------------ the ownership library

def own_library(name, lang, wraps, options=None, fmt=None, namespace=None, pattern_first=True, ns_block=None):
    """ns_block: name of a namespace block that holds every function not tied to the class (their release routines are
    then first met inside the namespace, not at library level)."""
    fs = []
    if lang == "c++":
        fs += [F(K, "void", [], cls=K, ctor=True, fid=K + "#ctor0", yaml={"format": {"function_suffix": "_default"}}),
               F(K, "void", [P("flag", "val", "int")], cls=K, ctor=True, fid=K + "#ctor1", yaml={"format": {"function_suffix": "_flag"}}),
               F("~", "void", [], cls=K, dtor=True, fid=K + "#dtor", dtor_name="delete"),
               F("get", "int", [], cls=K, const=True, fid=K + "#get"),
               # a method (declared after the constructors) that returns a library-owned object of the class
               F("peer", {"kind": "cls_ptr", "cls": K}, [], cls=K, fid="peer")]
        pooled = F("pooled", {"kind": "cls_ptr", "cls": K, "owner": "caller", "free_pattern": "pool_put"}, [P("flag", "val", "int")])
        make = F("make", {"kind": "cls_ptr", "cls": K, "owner": "caller"}, [P("flag", "val", "int")])
        fs += [F("getptr", {"kind": "cls_ptr", "cls": K}, [])]
        fs += [pooled, make] if pattern_first else [make, pooled]
        fs += [F("copy", {"kind": "cls_val", "cls": K}, [P("flag", "val", "int")]),
               F("use", "int", [P("arg", "cls_cptr", cls=K)])]
        # exact result lengths (0 included: zero-length results take their own paths in the copy helpers)
        fs += [F("sval", "str_val", [P("n", "val", "int", role="outlen")]),
               F("sown", {"kind": "str_ptr_own"}, [P("n", "val", "int", role="outlen")]),
               F("scref", "str_cref", [P("n", "val", "int", role="outlen")]),
               F("vret", {"kind": "vec_val", "T": "int"}, [P("a", "val", "int")]),
               F("vretd", {"kind": "vec_val", "T": "double"}, [P("a", "val", "int")]),
               F("tstr", "int", [P("s", "str_cref")]),
               F("tsval", "int", [P("s", "str_val")]),
               F("tsout", "void", [P("s", "str_ref_out")]),
               F("tsio", "void", [P("s", "str_ref_inout")]),
               F("tvec", "int", [P("v", "vec_in", "int")]),
               F("tvout", "void", [P("v", "vec_out", "int")]),
               F("tvio", "void", [P("v", "vec_inout", "double")])]
    # buffers the wrapper itself allocates for an intent(out) array whose extents are expressions
    fs += [F("aout2", "void", [P("n", "val", "int", role="count"), P("m", "val", "int", role="count"), P("a", "arr_out", "int", dims=["n+1", "m"])]),
           F("aout2d", "int", [P("n", "val", "int", role="count"), P("m", "val", "int", role="count"), P("a", "arr_out", "double", dims=["n", "m+2-1"])])]
    # an array argument: the Python wrapper converts the sequence into a temporary buffer
    fs += [F("tarr", "int", [P("a", "arr_in", "int", n="n"), P("n", "implied", "int", of="a")])]
    fs += [F("cres", "cstr", [P("n", "val", "int", role="outlen")]),
           F("tcstr", "int", [P("s", "cstr_in")]),
           F("tcout", "void", [P("s", "cstr_out", charlen=12)]),
           F("tcio", "void", [P("s", "cstr_inout")])]
    for T in ("int", "double"):
        t = T[0]
        for nm, deref, owner, pat in (("alib", "pointer", "library", None), ("alal", "allocatable", "library", None),
                                      ("anewp", "pointer", "caller", None), ("anewa", "allocatable", "caller", None),
                                      ("apatp", "pointer", "caller", "arr_put"), ("apata", "allocatable", "caller", "arr_put")):
            r = {"kind": "arr_ptr", "T": T, "deref": deref, "owner": owner, "len": "len"}
            if pat:
                r["free_pattern"] = pat
            fs.append(F(nm + t, r, [P("seed", "val", "int"), P("len", "len_hidden", "int")]))
    # declarations outside what the emitters support are left out here; they are C05 / C01 findings, not ownership
    # questions: Python has no by-value class results (upstream turns wrap_python off for classes.yaml getClassCopy),
    # no std::vector arguments and no char* inout; std::vector results do not generate with F_CFI.
    drop = set()
    if "python" in wraps:
        drop |= {"copy", "tvec", "tvout", "tvio", "tcio", "vretd"}
        # +deref(allocatable) is a Fortran notion (upstream sets it through fattrs); Python gets the pointer flavours
        drop |= {n + t for n in ("alal", "anewa", "apata") for t in "id"}
    if (options or {}).get("F_CFI"):
        drop |= {"vret", "vretd"}
    fs = [f for f in fs if f["name"] not in drop]
    if ns_block and lang == "c++":
        for f in fs:
            if not f.get("cls") and f["name"] not in ("getptr", "pooled", "make", "copy", "use"):
                f["ns"] = ns_block
    for f in fs:
        f["shape"] = "own"
        f.setdefault("fid", f["name"])
    opts = {"wrap_c": "c" in wraps, "wrap_fortran": "fortran" in wraps, "wrap_python": "python" in wraps, "wrap_lua": False}
    if "python" in wraps:
        opts["PY_array_arg"] = "list"
    opts.update(options or {})
    lib = {"name": name, "language": lang, "functions": fs, "options": opts, "format": dict(fmt or {}), "namespace": namespace,
           "wraps": list(wraps), "patterns": {"pool_put": "vf_pool_put(ptr);\n", "arr_put": "vf_arr_put(ptr);\n"}}
    libs.assign_names(lib)
    return lib


def single_declaration_libraries():
    """Each ownership declaration alone (plus the class it needs), per language / interface flavour / wrapper set:
    compile-only workload for C05 (a helper or header that only a neighbour pulls in hides a missing dependency)."""
    out = []
    k = 0
    for lang, wraps, cfi in (("c++", ("c", "fortran"), False), ("c++", ("c", "fortran"), True), ("c", ("c", "fortran"), False),
                             ("c", ("c", "fortran"), True), ("c++", ("python",), False)):
        full = own_library("ownx", lang, wraps, options={"F_CFI": cfi})
        frees = [f for f in full["functions"] if not f.get("cls")]
        for f in frees:
            k += 1
            lib = copy.deepcopy(full)
            lib["name"] = "o%d" % k
            needs_cls = f["ret"]["kind"].startswith("cls") or any(p["kind"] == "cls_cptr" for p in f["params"])
            lib["functions"] = [g for g in lib["functions"] if (g.get("cls") and needs_cls) or g["name"] == f["name"]]
            libs.assign_names(lib)
            out.append((lib, {"ownership_declaration": ir.func_decl(f), "language": lang, "F_CFI": cfi, "wraps": list(wraps)}))
    return out


def fidx(lib, name, cls=None):
    for i, f in enumerate(lib["functions"]):
        if (f.get("fid") == name or f["name"] == name) and f.get("cls") == cls:
            return i
    raise KeyError(name)


# ------------------------------------------------------------------ histories (abstract) + ownership model

def make_history(lib, r, target, n_ops):
    """Random valid history for one driver language.  Each step carries what the model expects:
    exp = {"recv": fid|None, "dtor": [serials], "free": [("pool_put"|"arr_put", id)], "live": n, "blocks": n, ...}"""
    has_cls = lib["language"] == "c++"
    H = ["h%d" % i for i in range(5)]
    CRV = ["crv%d" % i for i in range(3)]
    handle = {h: None for h in H}          # -> object id
    objs = {}                               # oid -> {"serial","owned","how","dead","refs"}
    crv = {c: None for c in CRV}            # -> {"blk": index, "pattern": bool}
    st = {"serial": 0, "live": 0, "blocks": 0, "nblk": 0, "static": None}
    steps = []
    names = {f["name"] for f in lib["functions"] if not f.get("cls")}

    def add(op, **exp):
        op["exp"] = dict({"dtor": [], "free": [], "live": st["live"], "blocks": st["blocks"]}, **exp)
        steps.append(op)

    def new_obj(how, owned):
        st["serial"] += 1
        st["live"] += 1
        oid = len(objs)
        objs[oid] = {"owned": owned, "how": how, "dead": False, "refs": set()}
        return oid

    def usable(h):
        return handle[h] is not None and not objs[handle[h]]["dead"]

    def drop(h):
        """Python: forget a reference; the object is destroyed when the last reference goes."""
        oid = handle[h]
        handle[h] = None
        o = objs[oid]
        o["refs"].discard(h)
        if o["refs"] or o["dead"]:
            return [], []
        if o["how"] in ("getptr", "peer"):
            return [], []                       # library-owned: nothing may happen
        o["dead"] = True
        if o["how"] == "pooled":
            return [], [("pool_put", oid)]
        st["live"] -= 1
        return [oid], []

    arr_fns = [f["name"] for f in lib["functions"] if f["ret"]["kind"] == "arr_ptr"]
    misc = [n for n in ("aout2", "aout2d", "sval", "sown", "scref", "vret", "vretd", "cres", "tstr", "tsval", "tsout", "tsio", "tvec", "tvout", "tvio",
                        "tcstr", "tcout", "tcio", "tarr") if n in names]
    if target == "c":
        misc = [n for n in misc if cdrv.c_callable(lib["functions"][fidx(lib, n)])]
        arr_fns = []
    if target == "python":
        misc = [n for n in misc if c03.py_callable(lib["functions"][fidx(lib, n)])]
    def do_misc(fn, n=None):
        f = lib["functions"][fidx(lib, fn)]
        args = {}
        for p in f["params"]:
            if p["kind"] in ir.IN_KINDS and p["kind"] != "implied":
                k = p["kind"]
                if p.get("role") == "count":
                    args[p["name"]] = r.choice([0, 1, 2, 4])
                elif p.get("role") == "outlen":
                    args[p["name"]] = n if n is not None else r.choice([0, 0, 1, 7, 40, -1 if f["ret"]["kind"] == "cstr" and target == "fortran" else 3])
                elif k in ("val",):
                    args[p["name"]] = r.choice(libs.battery(p["T"]))
                elif k in ("vec_in", "vec_inout", "arr_in", "arr_inout"):
                    b = libs.battery(p["T"])
                    args[p["name"]] = [r.choice(b) for _ in range(r.choice([0, 1, 3, 7]))]
                else:
                    args[p["name"]] = r.choice(libs.STR_BATTERY)
        if f["ret"]["kind"] == "str_ptr_own":
            st["nblk"] += 1                  # the library registers the string it hands over (released inside the call)
        add({"op": "misc", "fn": fn, "args": args})

    def do_arr(fn):
        f = lib["functions"][fidx(lib, fn)]
        rr_ = f["ret"]
        seed = r.choice(libs.battery("int"))
        op = {"op": "arr", "fn": fn, "seed": seed}
        held = rr_.get("owner") == "caller" and rr_["deref"] == "pointer" and target == "fortran"
        fr = []
        if rr_.get("owner") == "caller":
            free_c = [c for c in CRV if not crv[c]]
            occ = [c for c in CRV if crv[c]]
            if held and not free_c and not occ:
                return
            blk = st["nblk"]
            st["nblk"] += 1
            if held and occ and (not free_c or r.random() < 0.3):
                # the capsule argument is intent(OUT): storing a new result into a capsule that still owns an earlier
                # one finalises (releases) the earlier block on entry (docs/pointers.rst, capsule FINAL procedure)
                c = r.choice(occ)
                if crv[c]["pattern"]:
                    fr = [("arr_put", crv[c]["blk"])]
                crv[c] = {"blk": blk, "pattern": bool(rr_.get("free_pattern"))}
                op["crv"] = c
                op["reuse"] = True
            elif held:
                c = r.choice(free_c)
                crv[c] = {"blk": blk, "pattern": bool(rr_.get("free_pattern"))}
                op["crv"] = c
                st["blocks"] += 1
            elif rr_.get("free_pattern"):
                fr = [("arr_put", blk)]       # released inside the call, through the pattern
        add(op, free=fr)

    for _ in range(n_ops):
        choices = []
        free_h = [h for h in H if handle[h] is None]
        live_h = [h for h in H if usable(h)]
        if has_cls:
            if free_h:
                choices += ["create"] * 3
            if live_h:
                choices += ["get", "use", "get"]
                if free_h:
                    choices += ["alias"]
                choices += ["release"] * 2
            if target != "python" and any(handle[h] is not None and objs[handle[h]]["dead"] and objs[handle[h]].get("dead_via") == h for h in H):
                choices += ["rerelease"]
        if arr_fns:
            choices += ["arr"] * 3
            if any(crv[c] for c in CRV):
                choices += ["crvdel"] * 2
            if target == "fortran" and any(crv[c] is False for c in CRV):
                choices += ["crvredel"]
        choices += ["misc"] * 2
        if target == "python" and "tarr" in names:
            choices += ["badcall"]
        ch = r.choice(choices)
        if ch == "badcall":
            # a sequence with one element that cannot be converted: the call is rejected and the buffer the wrapper
            # had started to fill is released exactly once
            bad = r.choice([["x", 2, 3], [1, "x", 3], [1, 2, "x"], [1, None, 3], [1, 2, 3, 4, 5, 6, "x"]])
            add({"op": "badcall", "fn": "tarr", "bad": bad})
            continue
        if ch == "create":
            h = r.choice(free_h)
            hows = ["new0", "new1", "make", "copy", "getptr", "pooled"] if target != "fortran" else ["new0", "new1", "make", "copy", "getptr"]
            if target == "python" and live_h:
                hows += ["peer", "peer"]
            how = r.choice([x for x in hows if x in ("new0", "new1", "peer") or x in names])
            flag = r.choice(libs.battery("int"))
            src = None
            if how == "getptr":
                if st["static"] is None:
                    st["static"] = new_obj("getptr", False)
                oid = st["static"]
            elif how == "peer":
                src = r.choice(live_h)
                if st.get("static_peer") is None:
                    st["static_peer"] = new_obj("peer", False)
                oid = st["static_peer"]
            else:
                oid = new_obj(how, True)
            handle[h] = oid
            objs[oid]["refs"].add(h)
            stp = {"op": "create", "how": how, "h": h, "flag": flag}
            if src is not None:
                stp["src"] = src
            add(stp, oid=oid)
        elif ch in ("get", "use"):
            h = r.choice(live_h)
            add({"op": ch, "h": h}, oid=handle[h])
        elif ch == "alias":
            h, h2 = r.choice(live_h), r.choice(free_h)
            handle[h2] = handle[h]
            objs[handle[h]]["refs"].add(h2)
            add({"op": "alias", "h": h2, "of": h})
        elif ch == "release":
            h = r.choice(live_h)
            o = objs[handle[h]]
            if target == "python":
                d, fr = drop(h)
                add({"op": "release", "h": h, "via": "del"}, dtor=d, free=fr)
                continue
            if o["how"] == "getptr":
                # the caller may forget the handle; nothing it can legally call releases a library-owned object
                for hh in list(o["refs"]):
                    handle[hh] = None
                o["refs"].clear()
                add({"op": "forget", "h": h})
                continue
            if o["how"] == "pooled":
                via = "memdtor"                       # only the documented memory destructor knows the pattern
            else:
                via = r.choice(["delete", "delete", "memdtor"]) if target == "c" else "delete"
            o["dead"] = True
            o["dead_via"] = h
            if o["how"] == "pooled":
                add({"op": "release", "h": h, "via": via}, free=[("pool_put", handle[h])])
            else:
                st["live"] -= 1
                add({"op": "release", "h": h, "via": via}, dtor=[handle[h]])
            # aliases are stale now: the caller drops them
            for hh in list(o["refs"]):
                if hh != h:
                    handle[hh] = None
            o["refs"] = {h}
        elif ch == "rerelease":
            h = r.choice([h for h in H if handle[h] is not None and objs[handle[h]]["dead"] and objs[handle[h]].get("dead_via") == h])
            o = objs[handle[h]]
            via = "memdtor" if o["how"] == "pooled" else (r.choice(["delete", "memdtor"]) if target == "c" else "delete")
            add({"op": "release", "h": h, "via": via, "again": True})
            if r.random() < 0.5:
                handle[h] = None
                o["refs"].clear()
        elif ch == "arr":
            do_arr(r.choice(arr_fns))
        elif ch == "crvdel":
            c = r.choice([c for c in CRV if crv[c]])
            st["blocks"] -= 1
            fr = [("arr_put", crv[c]["blk"])] if crv[c]["pattern"] else []
            crv[c] = False
            add({"op": "crvdel", "crv": c}, free=fr)
        elif ch == "crvredel":
            c = r.choice([c for c in CRV if crv[c] is False])
            add({"op": "crvdel", "crv": c, "again": True})
        else:
            do_misc(r.choice(misc))
    # every declaration of the library is exercised at least once per history; results of zero and non-zero length
    called = {s_.get("fn") for s_ in steps}
    for fn in misc:
        f = lib["functions"][fidx(lib, fn)]
        if any(p.get("role") == "outlen" for p in f["params"]):
            do_misc(fn, 0)
            do_misc(fn, 9)
        elif fn not in called:
            do_misc(fn)
    for fn in arr_fns:
        if fn not in called:
            do_arr(fn)
    # wind down: release everything the caller still owns (a correct caller does)
    for c in CRV:
        if crv[c]:
            st["blocks"] -= 1
            fr = [("arr_put", crv[c]["blk"])] if crv[c]["pattern"] else []
            crv[c] = False
            add({"op": "crvdel", "crv": c}, free=fr)
    for h in H:
        if handle[h] is None:
            continue
        o = objs[handle[h]]
        if target == "python":
            d, fr = drop(h)
            add({"op": "release", "h": h, "via": "del"}, dtor=d, free=fr)
            continue
        if o["dead"] or o["how"] == "getptr":
            continue
        o["dead"] = True
        for hh in list(o["refs"]):
            if hh != h:
                handle[hh] = None
        if o["how"] == "pooled":
            add({"op": "release", "h": h, "via": "memdtor"}, free=[("pool_put", handle[h])])
        else:
            st["live"] -= 1
            add({"op": "release", "h": h, "via": "delete"}, dtor=[handle[h]])
    return steps


def step_call(lib, st_, learned=None):
    """Call record (for the driver generators / engine.compare_call) of a step, or None for driver-only steps."""
    op = st_["op"]
    if op == "create":
        how = st_["how"]
        if how in ("new0", "new1"):
            fi = fidx(lib, K + ("#ctor0" if how == "new0" else "#ctor1"), K)
            return {"f": fi, "variant": 0, "args": {"flag": st_["flag"]} if how == "new1" else {}, "obj": st_["h"], "cls": K, "op": "new"}
        if how == "getptr":
            return {"f": fidx(lib, "getptr"), "variant": 0, "args": {}, "res_obj": st_["h"]}
        if how == "peer":
            return {"f": fidx(lib, "peer", K), "variant": 0, "args": {}, "obj": st_["src"], "cls": K, "res_obj": st_["h"], "op": "call"}
        return {"f": fidx(lib, how), "variant": 0, "args": {"flag": st_["flag"]}, "res_obj": st_["h"]}
    if op == "get":
        return {"f": fidx(lib, K + "#get", K), "variant": 0, "args": {}, "obj": st_["h"], "cls": K, "op": "call"}
    if op == "use":
        return {"f": fidx(lib, "use"), "variant": 0, "args": {"arg": (learned or {}).get(st_["exp"]["oid"], -1)}, "arg_objs": {"arg": st_["h"]}}
    if op == "release" and st_["via"] == "delete":
        return {"f": fidx(lib, K + "#dtor", K), "variant": 0, "args": {}, "obj": st_["h"], "cls": K, "op": "delete"}
    if op == "arr":
        c = {"f": fidx(lib, st_["fn"]), "variant": 0, "args": {"seed": st_["seed"]}}
        if st_.get("crv"):
            c["crv"] = st_["crv"]
        return c
    if op == "misc":
        return {"f": fidx(lib, st_["fn"]), "variant": 0, "args": dict(st_["args"])}
    return None


# ------------------------------------------------------------------ drivers

def fortran_driver(lib, steps):
    mod = lib["name"].lower() + "_mod"
    L = ["program vf_driver", "  use iso_c_binding", "  use vf_out", "  use %s" % mod]
    for nsb in sorted({f["ns"] for f in lib["functions"] if f.get("ns")}):
        names = sorted({v["f_generic"] for f in lib["functions"] if f.get("ns") == nsb for v in f["variants"]} |
                       {v["f_specific"] for f in lib["functions"] if f.get("ns") == nsb for v in f["variants"]})
        if any(f.get("ns") == nsb and f["ret"]["kind"] == "arr_ptr" for f in lib["functions"]):
            names.append("%sSHROUD_capsule" % lib["c_prefix"])       # the capsule type lives in the module that needs it
        L.append("  use %s_%s_mod, only: %s" % (lib["name"].lower(), nsb.lower(), ", ".join(names)))
    L.append("  implicit none")
    if lib["language"] == "c++":
        L.append("  type(%s) :: h0, h1, h2, h3, h4" % K.lower())
    L.append("  type(%sSHROUD_capsule) :: crv0, crv1, crv2" % lib["c_prefix"])
    for k, s in enumerate(steps):
        call = step_call(lib, s)
        if call is not None:
            call["flen"] = s["flen"] = _flen(lib, call, k)
            L.extend(fdrv.gen_call(lib, k, call))
        elif s["op"] == "alias":
            L += ["  call vf_mark(%d)" % k, "  %s = %s" % (s["h"], s["of"]), "  call vfo_begin(%d)" % k, "  call vfo_end()"]
        elif s["op"] == "forget":
            L += ["  call vf_mark(%d)" % k, "  call vfo_begin(%d)" % k, "  call vfo_end()"]
        elif s["op"] == "crvdel":
            L += ["  call vf_mark(%d)" % k, "  call %s%%delete()" % s["crv"], "  call vfo_begin(%d)" % k, "  call vfo_end()"]
        else:
            raise ValueError(s)
    L += ["  call vf_mark(%d)" % len(steps), "end program vf_driver"]
    return "\n".join(L) + "\n"


def _flen(lib, call, k):
    f = lib["functions"][call["f"]]
    fl = {}
    for p in f["params"]:
        kd = p["kind"]
        if kd == "cstr_out":
            fl[p["name"]] = p["charlen"] + (0 if k % 2 else 10)
        elif kd in ("str_ref_out", "str_ptr_out"):
            fl[p["name"]] = [5, 20, 60, 1][k % 4]
        elif kd in ("cstr_inout", "str_ref_inout", "str_ptr_inout"):
            s = call["args"].get(p["name"], "")
            fl[p["name"]] = len(s) + [0, 3, 12][k % 3]
            if kd != "cstr_inout" and k % 5 == 0:
                fl[p["name"]] = max(len(s), 45)
        elif kd == "vec_out":
            fl[p["name"]] = [0, 2, 6, 3][k % 4]
    return fl


def c_driver(lib, steps, headers):
    L = ["/* generated C driver (C06 histories): includes ONLY generated headers + the harness trace header */",
         "#include <stdio.h>", "#include <stdlib.h>", "#include <string.h>", "#include <stdbool.h>"]
    for h in headers:
        L.append('#include "%s"' % h)
    L += ["#define VF_TRACE_STDOUT 1", '#include "vf_trace.h"', "void vf_mark(int k);", "int main(void) {"]
    pfx = lib["c_prefix"]
    if lib["language"] == "c++":
        for i in range(5):
            L.append("  %s%s h%d_buf; %s%s *h%d = NULL; memset(&h%d_buf, 0, sizeof h%d_buf);" % (pfx, K, i, pfx, K, i, i, i))
    for k, s in enumerate(steps):
        call = step_call(lib, s)
        if call is not None:
            L.extend(cdrv.gen_call(lib, k, call))
        elif s["op"] == "alias":
            L += ["  vf_mark(%d); %s_buf = %s_buf; %s = &%s_buf; printf(\"OUT %d\\n\");" % (k, s["h"], s["of"], s["h"], s["h"], k)]
        elif s["op"] == "forget":
            L += ["  vf_mark(%d); printf(\"OUT %d\\n\");" % (k, k)]
        elif s["op"] == "release" and s["via"] == "memdtor":
            L += ["  vf_mark(%d); %sSHROUD_memory_destructor((%sSHROUD_capsule_data *) %s); printf(\"OUT %d\\n\"); fflush(stdout);" % (k, pfx, pfx, s["h"], k)]
        else:
            raise ValueError(s)
    L += ["  vf_mark(%d);" % len(steps), "  return 0;", "}"]
    return "\n".join(L) + "\n"


def py_ops(lib, steps):
    ops = []
    for k, s in enumerate(steps):
        op = s["op"]
        if op == "create":
            how = s["how"]
            if how in ("new0", "new1"):
                o = {"kind": "new", "name": K, "obj": s["h"], "pos": [s["flag"]] if how == "new1" else []}
            elif how == "peer":
                o = {"kind": "methodobj", "name": "peer", "obj": s["h"], "src": s["src"], "pos": []}
            else:
                o = {"kind": "callobj", "name": how, "obj": s["h"], "pos": [] if how == "getptr" else [s["flag"]]}
        elif op == "get":
            o = {"kind": "method", "cls": K, "name": "get", "obj": s["h"], "pos": []}
        elif op == "use":
            o = {"kind": "call", "name": "use", "pos": [{"obj": s["h"]}]}
        elif op == "alias":
            o = {"kind": "alias", "obj": s["h"], "of": s["of"]}
        elif op == "release":
            o = {"kind": "del", "obj": s["h"]}
        elif op == "arr":
            o = {"kind": "call", "name": s["fn"], "pos": [s["seed"]]}
        elif op == "badcall":
            o = {"kind": "call", "name": s["fn"], "pos": [[({"special": "none"} if x is None else x) for x in s["bad"]]]}
        elif op == "misc":
            f = lib["functions"][fidx(lib, s["fn"])]
            o = {"kind": "call", "name": s["fn"], "pos": [c03.enc(s["args"][p["name"]]) for p in f["params"] if p["name"] in s["args"]]}
        else:
            raise ValueError(s)
        o["k"] = k
        ops.append(o)
    return ops


# ------------------------------------------------------------------ execution + judgement

def judge(lib, steps, trace, marks, blocks, outs, conv, res, target):
    """Identities are learned from the library's own records (the serial the constructor / factory reported)
    and then required to stay consistent; counts and release events are compared with the ownership model."""
    name = lib["name"]
    V = res["violations"]
    serials = {}        # handle -> serial (for engine.compare_call)
    learned = {}        # model object id -> serial
    drift = {"live": 0, "blocks": 0}
    for k, s in enumerate(steps):
        exp = s["exp"]
        recs = list(trace.get(k, []))
        op = s["op"]
        what = op if op != "create" else "create:" + s["how"]
        if op == "release":
            what = "release:%s%s" % (s["via"], ":again" if s.get("again") else "")
        if op == "crvdel" and s.get("again"):
            what = "crvdel:again"
        if op == "arr":
            r_ = lib["functions"][fidx(lib, s["fn"])]["ret"]
            what = "arr:%s:%s%s%s" % (r_["deref"], r_.get("owner", "library"), ":pattern" if r_.get("free_pattern") else "",
                                      ":into-occupied-capsule" if s.get("reuse") else "")
        if op == "misc":
            what = "misc:" + s["fn"]
        res["stats"]["steps"] = res["stats"].get("steps", 0) + 1
        res["kinds"].add(what)
        if k not in marks:
            V.append({"mech": "history-stopped:%s" % what, "detail": "%s [%s]: step %d (%s) was never reached" % (name, target, k, json.dumps({a: b for a, b in s.items() if a != "exp"}))})
            break
        # --- identity of a new object, as the library reported it
        if op == "create":
            if s["how"] in ("new0", "new1"):
                fid = K + ("#ctor0" if s["how"] == "new0" else "#ctor1")
                rc_ = [t for t in recs if t[0] == "RECV" and t[1] == fid]
                ser = int(rc_[-1][2]["this"][2:]) if rc_ else None
            else:
                sd = [t for t in recs if t[0] == "SEND" and t[1] == s["how"]]
                ser = int(sd[-1][2]["ret"][2:]) if sd and "ret" in sd[-1][2] else None
                if s["how"] == "copy":
                    # documented by-value strategy: the wrapper default-constructs the receiving object and assigns; the
                    # temporaries die inside the call.  Neither is a release event of the model.
                    recs = [t for t in recs if not (t[0] == "RECV" and t[1] == K + "#ctor0") and not (t[0] == "DTOR" and ser is not None and t[2].get("this") == "i:%d" % ser)]
            if ser is None:
                V.append({"mech": "library-not-reached:%s" % what, "detail": "%s [%s] step %d %s: trace %r" % (name, target, k, what, trace.get(k))})
                break
            if exp["oid"] in learned and learned[exp["oid"]] != ser:
                V.append({"mech": "library-owned-object-changed-identity:%s" % what, "detail": "%s [%s] step %d: %d then %d" % (name, target, k, learned[exp["oid"]], ser)})
            learned[exp["oid"]] = ser
            serials[s["h"]] = ser
        if op == "alias":
            serials[s["h"]] = serials.get(s["of"])
        rcv = [t for t in recs if t[0] == "RECV"]
        dt = [int(t[2].get("this", "i:-1")[2:]) for t in recs if t[0] == "DTOR"]
        fr = [(t[1], int((t[2].get("this") or t[2].get("blk") or "i:-1")[2:])) for t in recs if t[0] == "FREE"]
        want_dt = [learned.get(o, -1) for o in exp["dtor"]]
        want_fr = [(n, learned.get(i, -1) if n == "pool_put" else i) for n, i in exp["free"]]
        if sorted(dt) != sorted(want_dt):
            missing = [x for x in want_dt if x not in dt]
            extra = [x for x in dt if x not in want_dt]
            if missing:
                V.append({"mech": "object-not-destroyed-on-release:%s" % what,
                          "detail": "%s [%s] step %d %s: expected the destructor of object %s to run, destructor records %r" % (name, target, k, what, missing, dt)})
            if extra:
                V.append({"mech": "object-destroyed-unexpectedly:%s" % what,
                          "detail": "%s [%s] step %d %s: destructor ran for object(s) %s (model expects %r)" % (name, target, k, what, extra, want_dt)})
        if sorted(fr) != sorted(want_fr):
            V.append({"mech": "free_pattern-release-differs:%s" % what,
                      "detail": "%s [%s] step %d %s: pattern release records %r, expected %r" % (name, target, k, what, fr, want_fr)})
        call = step_call(lib, s, learned)
        if call is not None:
            call["flen"] = s.get("flen", {})
        if op in ("get", "use", "arr", "misc") or (op == "create" and s["how"] not in ("new0", "new1")):
            tr2 = {k: recs}
            if target == "python":
                _judge_py(lib, k, s, call, rcv, outs.get(k), serials, V, what)
            else:
                for mech, detail in engine.compare_call(lib, k, call, tr2, outs.get(k), serials, conv):
                    V.append({"mech": mech + ":" + what, "detail": "%s [%s] step %d: %s" % (name, target, k, detail)})
                if op == "create" and (outs.get(k) or {}).get("associated") != "b:1":
                    V.append({"mech": "returned-handle-not-associated:%s" % what, "detail": "%s [%s] step %d: %r" % (name, target, k, outs.get(k))})
        elif op == "create":
            if target != "python" and (outs.get(k) or {}).get("ctor_returns_capsule") != "b:1":
                V.append({"mech": "constructor:object-not-associated", "detail": "%s [%s] step %d: %r" % (name, target, k, outs.get(k))})
        elif op in ("release", "alias", "forget", "crvdel"):
            if rcv:
                V.append({"mech": "library-entered-during:%s" % what, "detail": "%s [%s] step %d: %r" % (name, target, k, rcv)})
        elif op == "badcall":
            got_ = outs.get(k)
            if rcv or not (isinstance(got_, dict) and got_.get("exc") in ("TypeError", "ValueError")):
                V.append({"mech": "unconvertible-sequence-element-not-rejected", "detail": "%s [%s] step %d %r: outcome %r, library records %r" % (name, target, k, s["bad"], got_, rcv)})
        # --- quiescent point after the step
        # a difference is reported at the step that introduces it; the drift is carried so that later steps are
        # still judged on their own
        nxt = marks.get(k + 1)
        if nxt is not None and nxt != exp["live"] + drift["live"]:
            V.append({"mech": "live-object-count-differs:%s" % what,
                      "detail": "%s [%s] after step %d (%s): library counts %d live objects, model %d" % (name, target, k, what, nxt, exp["live"] + drift["live"])})
            drift["live"] = nxt - exp["live"]
        nb = blocks.get(k + 1)
        if nb is not None and nb >= 0:
            res["stats"]["block_checks"] = res["stats"].get("block_checks", 0) + 1
            if nb != exp["blocks"] + drift["blocks"]:
                V.append({"mech": "caller-owned-blocks-%s:%s" % ("still-allocated" if nb > exp["blocks"] + drift["blocks"] else "released-early", what),
                          "detail": "%s [%s] after step %d (%s): %d caller-owned heap blocks are allocated, model %d" % (name, target, k, what, nb, exp["blocks"] + drift["blocks"])})
                drift["blocks"] = nb - exp["blocks"]
        res["stats"]["steps_judged"] = res["stats"].get("steps_judged", 0) + 1


def _judge_py(lib, k, s, call, rcv, got, serials, V, what):
    name = lib["name"]
    f = lib["functions"][call["f"]]
    g = ir.instantiate(f, None)
    args = dict(call["args"])
    for p in g["params"]:
        if p["name"] in args and p.get("T") in ("float", "double") and isinstance(args[p["name"]], int):
            args[p["name"]] = float(args[p["name"]])
    this = serials.get(call.get("obj")) if f.get("cls") else None
    exp = ir.model_call(g, args, this_serial=this)
    if isinstance(got, dict) and "exc" in got:
        V.append({"mech": "valid-call-raises:%s:%s" % (got["exc"], what), "detail": "%s [python] step %d %s: %s" % (name, k, what, got.get("msg"))})
        return
    if got is None and s["op"] != "misc":
        V.append({"mech": "caller-observed-nothing:%s" % what, "detail": "%s [python] step %d" % (name, k)})
        return
    if len(rcv) != 1 or rcv[0][1] != g["fid"]:
        V.append({"mech": "wrong-entry-point:%s" % what, "detail": "%s [python] step %d reached %r expected %s" % (name, k, [t[1] for t in rcv], g["fid"])})
        return
    for n, want in exp["recv"].items():
        if rcv[0][2].get(n) != want:
            V.append({"mech": "library-received-wrong-value:%s" % what, "detail": "%s [python] step %d: %s received %s, expected %s" % (name, k, n, rcv[0][2].get(n), want)})
    if s["op"] == "create":
        if got != K:
            V.append({"mech": "returned-object-differs:%s" % what, "detail": "%s [python] step %d returned %r, expected an instance of %s" % (name, k, got, K)})
        return
    want = c03.expected_result(g, exp)
    if got != want:
        V.append({"mech": "returned-object-differs:%s" % what, "detail": "%s [python] step %d returned %s, expected %s" % (name, k, json.dumps(got), json.dumps(want))})


def _sanitizer(res, lib, se, out, target, lsan=True):
    gen_files = set(os.listdir(out))
    for rp in buildfarm.sanitizer_reports(se):
        if rp["kind"].startswith("lsan"):
            if not lsan:
                continue
            for lb in buildfarm.leak_blocks(se):
                fu = next(((fn, loc) for fn, loc in lb["frames"][1:] if not fn.startswith(("__interceptor", "operator"))), ("?", ""))
                res["violations"].append({"mech": "sanitizer:lsan:leak-after-caller-released-everything:%s" % c02._norm_fn(fu[0]),
                                          "detail": "%s [%s]\n%s" % (lib["name"], target, lb["text"])})
            continue
        gen, libf = buildfarm.classify_frames(rp["frames"], gen_files)
        res["violations"].append({"mech": "sanitizer:%s:%s" % (rp["kind"], c02._norm_fn(gen or libf or "-")),
                                  "detail": "%s [%s]\n%s" % (lib["name"], target, rp["text"])})


def run_library(case):
    lib, target, steps = case["lib"], case["target"], case["steps"]
    res = {"violations": [], "stats": {}, "name": lib["name"], "kinds": set()}
    try:
        return _run(lib, target, steps, res)
    finally:
        res["kinds"] = sorted(res["kinds"])


def _run(lib, target, steps, res):
    rr = engine.generate(lib)
    cwd = rr.get("cwd")
    try:
        if rr.get("exc") or rr.get("exit") != 0:
            e = rr.get("exc") or {}
            _k, _t = engine.reject_mech(rr)
            res["violations"].append({"mech": "shroud-rejects-admitted-library:" + _k, "detail": "%s: %s" % (lib["name"], _t)})
            return res
        out = os.path.join(cwd, "out")
        env = dict(os.environ)
        env["VF_TRACE"] = os.path.join(out, "trace.log")
        if target in ("fortran", "c"):
            objs = engine.build_objects(lib, out, res)
            if objs is None:
                return res
            env.update(buildfarm.ASAN_ENV)
            if target == "fortran":
                ff = engine.fortran_files(out)
                open(os.path.join(out, "driver.f90"), "w").write(fortran_driver(lib, steps))
                fflags = ["-g", "-O0", "-cpp", "-ffree-form", "-ffree-line-length-none", "-w"] + engine.SANF
                fobjs = []
                for f in [os.path.join(engine.NATIVE, "vf_out.f90")] + ff + ["driver.f90"]:
                    o = os.path.basename(f) + ".o"
                    rc, so, se = engine.sh(["gfortran"] + fflags + ["-c", f, "-o", o], out)
                    if rc != 0:
                        where, msg = engine.first_error(se)
                        kind = "driver-does-not-compile-against-generated-module" if f == "driver.f90" else "generated-fortran-does-not-compile"
                        res["violations"].append({"mech": "%s:%s" % (kind, msg), "detail": "%s: %s\n%s" % (lib["name"], f, se[:3000])})
                        return res
                    fobjs.append(o)
                rc, so, se = engine.sh(["gfortran"] + engine.SANF + fobjs + objs + ["-lstdc++", "-o", "driver"], out)
            else:
                headers = sorted(f for f in os.listdir(out) if f.endswith(".h") and f.startswith(("wrap", "types")))
                open(os.path.join(out, "driver.c"), "w").write(c_driver(lib, steps, headers))
                rc, so, se = engine.sh(["gcc", "-std=c99", "-g", "-O0", "-w", "-I", engine.NATIVE, "-I", "."] + engine.SANF + ["-c", "driver.c", "-o", "driver.o"], out)
                if rc != 0:
                    where, msg = engine.first_error(se)
                    res["violations"].append({"mech": "c-driver-does-not-compile-against-generated-headers:%s" % msg, "detail": "%s\n%s" % (lib["name"], se[:2500])})
                    return res
                rc, so, se = engine.sh(["g++"] + engine.SANF + ["driver.o"] + objs + ["-o", "driver"], out)
            if rc != 0:
                where, msg = engine.first_error(se)
                res["violations"].append({"mech": "link-fails:%s" % msg, "detail": "%s\n%s" % (lib["name"], se[:2500])})
                return res
            rc, so, se = engine.sh([os.path.join(out, "driver")], out, env=env, timeout=300)
            if rc == -999:
                res["watchdog"] = True
                return res
            outs = engine.parse_out(so)
            _sanitizer(res, lib, se, out, target)
        else:
            h, c = ir.library_sources(lib)
            open(os.path.join(out, lib["name"] + ".hpp"), "w").write(h)
            src = lib["name"] + "_impl.cpp"
            open(os.path.join(out, src), "w").write(c)
            files = [src] + sorted(f for f in os.listdir(out) if f.startswith("py") and f.endswith((".c", ".cpp")))
            mod = lib["name"].lower()
            rc, so, se = engine.sh(["g++", "-std=c++11", "-shared", "-fPIC", "-g", "-O0", "-w", "-I", c03.PYINC, "-I", engine.NATIVE, "-I", "."] + engine.SANF + files + ["-o", mod + ".so"], out)
            if rc != 0:
                where, msg = engine.first_error(se)
                res["violations"].append({"mech": "extension-does-not-compile:%s" % msg, "detail": "%s\n%s" % (lib["name"], se[:2500])})
                return res
            planf = os.path.join(out, "plan.json")
            json.dump({"dir": out, "module": mod, "ops": py_ops(lib, steps)}, open(planf, "w"))
            env.update({"ASAN_OPTIONS": "detect_leaks=0:halt_on_error=1:abort_on_error=0", "UBSAN_OPTIONS": "print_stacktrace=1:halt_on_error=1",
                        "LD_PRELOAD": subprocess.check_output(["gcc", "-print-file-name=libasan.so"], text=True).strip(),
                        "PYTHONDONTWRITEBYTECODE": "1"})
            rc, so, se = engine.sh([common.PY, os.path.join(engine.NATIVE, "py_driver.py"), planf], out, env=env, timeout=600)
            if rc == -999:
                res["watchdog"] = True
                return res
            outs = {}
            for ln in so.split("\n"):
                if ln.startswith("OUT "):
                    _, k, js = ln.split(" ", 2)
                    outs[int(k)] = json.loads(js)
            _sanitizer(res, lib, se, out, target, lsan=False)
            if rc != 0 and not buildfarm.sanitizer_reports(se):
                res["violations"].append({"mech": "interpreter-crash:%s" % ("signal" if rc < 0 else "rc%d" % rc), "detail": "%s\n%s" % (lib["name"], se[-1500:])})
        text = open(env["VF_TRACE"]).read() if os.path.exists(env["VF_TRACE"]) else ""
        trace, marks = engine.parse_trace(text)
        blocks = engine.parse_blocks(text)
        res["stats"]["recv_records"] = sum(1 for v in trace.values() for t in v if t[0] == "RECV")
        res["stats"]["dtor_records"] = sum(1 for v in trace.values() for t in v if t[0] == "DTOR")
        res["stats"]["pattern_release_records"] = sum(1 for v in trace.values() for t in v if t[0] == "FREE")
        judge(lib, steps, trace, marks, blocks, outs, F_CONV if target == "fortran" else {"in": None, "out": None}, res, target)
        res["sample"] = {"library": lib["name"], "driver": target, "options": lib["options"],
                         "first_steps": [{a: b for a, b in s.items() if a not in ("exp", "flen")} for s in steps[:6]],
                         "markers": [[k, marks.get(k), blocks.get(k)] for k in sorted(marks)[:8]]}
        return res
    finally:
        if cwd:
            common.rmtree(cwd)


def make_cases(r, thorough):
    cases = []
    n_hist = 6 if thorough else 2
    n_ops = 60 if thorough else 40
    k = 0
    for target, lang, wraps in (("fortran", "c++", ("c", "fortran")), ("fortran", "c", ("c", "fortran")), ("c", "c++", ("c",)),
                                ("c", "c++", ("c", "fortran")), ("python", "c++", ("python",)), ("python", "c++", ("c", "fortran", "python"))):
        for cfi in ((False, True) if target == "fortran" else (False,)):
            for hi in range(n_hist):
                opts = {"F_CFI": cfi, "debug": bool(hi % 2)}
                ns = [None, "outer"][hi % 2] if lang == "c++" else None
                fmt = {"C_prefix": "ZQ_"} if hi % 3 == 2 else {}
                lib = own_library("own%d" % k, lang, wraps, options=opts, fmt=fmt, namespace=ns, pattern_first=(hi % 2 == 0))
                steps = make_history(lib, common.rng("c06hist", k), target, n_ops)
                cases.append({"lib": lib, "target": target, "steps": steps})
                k += 1
    # the same library with everything that is not tied to the class inside a namespace block
    for target, wraps, cfi in (("fortran", ("c", "fortran"), False), ("c", ("c",), False), ("fortran", ("c", "fortran"), True)):
        lib = own_library("own%d" % k, "c++", wraps, options={"F_CFI": cfi, "debug": False}, ns_block="ons")
        cases.append({"lib": lib, "target": target, "steps": make_history(lib, common.rng("c06hist", k), target, n_ops)})
        k += 1
    return cases


CORPUS = ["ownership", "classes", "strings", "vectors", "memdoc", "pointers-cxx", "arrayclass", "struct-cxx", "templates", "strings-cfi"]


def main(rec):
    thorough = common.tier() == "thorough"
    r = common.rng("c06")
    rec.rule = ("one evaluation = one step of a call history executed by a Fortran, C or Python driver against the sanitizer build of "
                "the generated wrappers (history = random valid sequence over: construct / caller-owned result / by-value result / "
                "library-owned result / free_pattern result, method call, object passed as argument, handle copy, release, release "
                "again, release through the memory destructor, array results pointer|allocatable x library|caller|pattern, capsule "
                "delete and delete again, std::string / std::vector / char* results and arguments); after every step the library's "
                "live-object count, the destructor / pattern-release records and the number of caller-owned heap blocks the ASan "
                "allocator still holds are compared with the ownership model; distinct_nontrivial = steps judged")
    rec.assumptions = ["ownership model in vf/checks/c06.py:make_history written from docs/pointers.rst (Memory Management), docs/classes.rst, docs/cwrapper.rst",
                       "gcc/gfortran 12 ASan+UBSan+LSan; __sanitizer_get_ownership answers for the library's recorded blocks (quarantine prevents address reuse in these short runs)",
                       "Fortran finalisation of capsules at scope exit is not relied on (every history releases explicitly)"]
    cases = make_cases(r, thorough)
    res = pool.run_cases("vf.checks.c06", cases, func="run_library", timeout=1800)
    kinds = set()
    for c, rr in zip(cases, res):
        if "stats" not in rr:
            workloads.bad_run(rec, {"name": c["lib"]["name"]}, rr)
            continue
        if rr.get("harness_error"):
            rec.inconclusive = rr["harness_error"][:300]
        rec.merge_stats(rr["stats"])
        rec.evaluations += rr["stats"].get("steps", 0)
        rec.count("histories_" + c["target"])
        kinds.update(rr.get("kinds", []))
        if rr.get("sample") and len(rec.samples) < 3:
            rec.samples.append(rr["sample"])
        for v in rr["violations"]:
            if v["mech"].startswith("HARNESS"):
                rec.inconclusive = "harness self-check failed: %s" % v["detail"][:300]
                continue
            # the driver language and the interface flavour are part of the mechanism (different emitter paths)
            cfg = c["target"] + ("+cfi" if c["lib"]["options"].get("F_CFI") else "")
            rec.violation("%s:%s" % (v["mech"], cfg), v["detail"], {"lib": c["lib"]["name"], "target": c["target"], "options": c["lib"]["options"],
                                                   "language": c["lib"]["language"],
                                                   "steps": [{a: b for a, b in s.items() if a != "flen"} for s in c["steps"]]})
    rec.add_to_set("step_kinds_covered", kinds)
    rec.distinct_override = rec.counters.get("steps_judged", 0)
    # upstream drivers under ASan/LSan
    names = CORPUS if thorough else [n for i, n in enumerate(CORPUS) if i % 2 == common.seed() % 2 or n == "ownership"]
    ccases = [{"name": n, "targets": [t for t, lst in (("fortran", buildfarm.FORTRAN_TARGETS), ("c", buildfarm.C_TARGETS)) if n in lst]} for n in names]
    ccases = [c for c in ccases if c["targets"]]
    cres = pool.run_cases("vf.buildfarm", ccases, func="corpus_job", timeout=1500)
    for c, rr in zip(ccases, cres):
        if "builds" not in rr:
            workloads.bad_run(rec, c, rr)
            continue
        rec.count("upstream_drivers_run", sum(1 for b in rr["builds"] if b.get("run_rc") is not None))
        for v in rr["violations"]:
            if "sanitizer" in v["mech"] or "leak" in v["mech"]:
                rec.violation("corpus:%s:%s" % (c["name"], v["mech"]), v["detail"], c)
    if rec.counters.get("steps_judged", 0) == 0 or rec.counters.get("block_checks", 0) == 0:
        rec.inconclusive = rec.inconclusive or "no history step was judged / the allocator monitor never answered"


def replay(bundle):
    print("re-run ./check C06 with seed %s" % bundle.get("seed"))
    return 2
