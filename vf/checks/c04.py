"""C04 — Fortran bind(C) interfaces agree with the C functions and structs they bind to.

Deciding method (offline checker over the artifacts each real Shroud execution emitted): both sides
are described by compilers.  `gfortran -fc-prototypes` prints the C view of every bind(C) interface
and derived type of each generated module; `clang -Xclang -ast-dump=json` describes the generated
C/C++ files (typedef-resolved parameter, result and field types); `nm --defined-only` says which
functions the objects define.  A comparer maps every type to an interoperability class (F2003
section 15 rules) and requires equal count, order and class.
"""
from __future__ import annotations

import json
import os
import re
import subprocess

from .. import buildfarm, common, corpus, engine, pool, workloads
from ..libgen import ir, libs

LEVEL = "exploration"

INT_SIZES = {"char": 1, "signed char": 1, "unsigned char": 1, "short": 2, "unsigned short": 2, "int": 4, "unsigned int": 4,
             "unsigned": 4, "long": 8, "unsigned long": 8, "long long": 8, "unsigned long long": 8, "int8_t": 1, "int16_t": 2,
             "int32_t": 4, "int64_t": 8, "uint8_t": 1, "uint16_t": 2, "uint32_t": 4, "uint64_t": 8, "size_t": 8, "ptrdiff_t": 8,
             "ssize_t": 8, "intptr_t": 8}


class CSide:
    """Functions, structs and typedefs of the generated C-family files as clang sees them."""

    def __init__(self):
        self.funcs = {}
        self.records = {}
        self.typedefs = {}
        self.unions = set()

    def load(self, path, cwd, lang_flags, incs):
        # ISO_Fortran_binding.h (CFI_cdesc_t) ships with gcc, not with clang
        gccinc = os.path.dirname(subprocess.run(["gcc", "-print-file-name=include/ISO_Fortran_binding.h"], capture_output=True, text=True).stdout.strip())
        cmd = ["clang", "-fsyntax-only", "-w", "-Xclang", "-ast-dump=json"] + lang_flags + incs + (["-idirafter", gccinc] if gccinc else []) + [path]
        p = subprocess.run(cmd, cwd=cwd, capture_output=True, text=True, timeout=300)
        if not p.stdout.strip():
            return p.stderr[:400]
        try:
            d = json.loads(p.stdout)
        except ValueError:
            return "clang AST is not JSON"
        self._walk(d)
        return None

    def _walk(self, n):
        k = n.get("kind")
        if k == "FunctionDecl" and n.get("name"):
            ps = [(c.get("name"), c["type"].get("desugaredQualType") or c["type"]["qualType"])
                  for c in n.get("inner", []) if c.get("kind") == "ParmVarDecl"]
            qt = n["type"]["qualType"]
            ret = qt[:qt.index("(")].strip() if "(" in qt else qt
            ent = {"ret": ret, "params": ps, "defined": any(c.get("kind") == "CompoundStmt" for c in n.get("inner", []))}
            old = self.funcs.get(n["name"])
            if old is None or ent["defined"]:
                self.funcs[n["name"]] = ent
        elif k in ("RecordDecl", "CXXRecordDecl") and n.get("name") and n.get("completeDefinition"):
            fields = [(c.get("name"), c["type"].get("desugaredQualType") or c["type"]["qualType"], c)
                      for c in n.get("inner", []) if c.get("kind") == "FieldDecl"]
            self.records[n["name"]] = [(a, b) for a, b, _ in fields]
            if n.get("tagUsed") == "union":
                self.unions.add(n["name"])
            # anonymous unions inside: remember their member types under the field's type spelling
            for c in n.get("inner", []):
                if c.get("kind") in ("RecordDecl", "CXXRecordDecl") and not c.get("name") and c.get("tagUsed") == "union":
                    mem = [(x.get("name"), x["type"].get("desugaredQualType") or x["type"]["qualType"])
                           for x in c.get("inner", []) if x.get("kind") == "FieldDecl"]
                    self.records["<anon-union@%s>" % n["name"]] = mem
        elif k == "TypedefDecl" and n.get("name"):
            self.typedefs[n["name"]] = n["type"].get("desugaredQualType") or n["type"]["qualType"]
        for c in n.get("inner", []):
            self._walk(c)


def strip_cv(t):
    t = re.sub(r"\b(const|volatile|restrict|__restrict|struct|enum)\b", " ", t)
    return re.sub(r"\s+", " ", t).strip()


def iclass(t, side, depth=0):
    """Interoperability class of a C type spelling. side: CSide or the Fortran-view dict with 'records'."""
    t = t.strip()
    # qualifiers of the pointer itself (T *const, T *restrict) say nothing about what is passed
    t = re.sub(r"(\*)\s*(?:(?:const|volatile|restrict|__restrict)\s*)+$", r"\1", t).strip()
    if depth > 12:
        return ("deep",)
    m = re.match(r"(.*)\[(\d*)\]$", t)
    if m:
        inner = iclass(m.group(1), side, depth + 1)
        if inner[0] == "array" and m.group(2).isdigit() and str(inner[1]).isdigit():
            # gfortran's C view of a derived type flattens array components: compare the storage (element count and
            # element class); the order of the extents is compared separately on the derived type's own text
            return ("array", str(int(m.group(2)) * int(inner[1])), inner[2])
        return ("array", m.group(2), inner)
    if "(*" in t or t.endswith(")"):
        # function pointer: keep the class of its result (what a Fortran procedure dummy's interface declares)
        mf = re.match(r"^(.*?)\(\s*\*[^()]*\)\s*\(.*\)$", t)
        if mf and mf.group(1).strip():
            return ("fptr", iclass(mf.group(1), side, depth + 1))
        return ("fptr",)
    if t.endswith("*"):
        return ("ptr", iclass(t[:-1], side, depth + 1))
    if t.endswith("&"):
        return ("ptr", iclass(t[:-1], side, depth + 1))
    b = strip_cv(t)
    if b in ("void",):
        return ("void",)
    if b in ("_Bool", "bool"):
        return ("bool", 1)
    if b == "char":
        return ("char", 1)
    if b in ("float",):
        return ("real", 4)
    if b in ("double",):
        return ("real", 8)
    if b in ("long double",):
        return ("real", 16)
    if "_Complex" in b or "complex" in b.lower():
        return ("complex", 16 if "double" in b.lower() else 8)
    if b in INT_SIZES:
        return ("int", INT_SIZES[b])
    if "unnamed" in b or "anonymous" in b:
        owner = re.search(r"(\w+)::\(", b)
        mem = side.records.get("<anon-union@%s>" % owner.group(1)) if owner else None
        if mem and all(iclass(mt, side, depth + 1)[0] == "ptr" for _, mt in mem):
            return ("ptr", ("void",))
        return ("union",)
    recs = side.records
    tds = getattr(side, "typedefs", {})
    if b in tds and strip_cv(tds[b]) != b:
        return iclass(tds[b], side, depth + 1)
    for cand in (b, "s_" + b):
        if cand in recs:
            if cand in getattr(side, "unions", ()):
                return ("union",)
            return ("struct",) + tuple(iclass(ft, side, depth + 1) for _, ft in recs[cand])
    return ("unknown", b)


def compatible(f, c):
    """Fortran-view class f vs C class c under the interoperability rules."""
    if f == c:
        return True
    if f[0] == "ptr" and c[0] == "ptr":
        a, b = f[1], c[1]
        if a[0] == "void" or b[0] == "void":
            return True          # type(C_PTR) / void* is interoperable with any object pointer
        if a[0] == "char" and b[0] == "char":
            return True
        return compatible(a, b)
    if f[0] == "ptr" and c[0] == "array":
        return compatible(f[1], c[2])
    if f[0] == "array" and c[0] == "array":
        return (f[1] == c[1] or not f[1] or not c[1]) and compatible(f[2], c[2])
    if f[0] == "struct" and c[0] == "struct":
        return len(f) == len(c) and all(compatible(x, y) for x, y in zip(f[1:], c[1:]))
    if f[0] == "int" and c[0] == "int":
        return f[1] == c[1]     # signedness is not representable in Fortran
    if f[0] == "char" and c[0] == "int" and c[1] == 1 or c[0] == "char" and f[0] == "int" and f[1] == 1:
        return True
    if f[0] == "ptr" and c[0] == "fptr" or f[0] == "fptr" and c[0] == "ptr":
        # a procedure dummy argument / type(C_FUNPTR) is interoperable with a C function pointer;
        # -fc-prototypes prints a procedure dummy as '<result type> *name': where both sides name a result type
        # (a function, not a subroutine; not the opaque C_FUNPTR) the interface's result must be the callback's
        fp, pp = (c, f) if c[0] == "fptr" else (f, c)
        if len(fp) > 1 and fp[1][0] not in ("void", "unknown", "fptr") and len(pp) > 1 and pp[1][0] not in ("void", "unknown"):
            return compatible(pp[1], fp[1]) if c[0] == "fptr" else compatible(fp[1], pp[1])
        return True
    if f[0] == "unknown" or (f[0] == "ptr" and f[1][0] == "unknown"):
        return c[0] in ("struct", "ptr")        # derived type defined in another module: not describable here
    return False


class FView:
    def __init__(self):
        self.records = {}
        self.typedefs = {}
        self.funcs = {}


def fortran_view(text):
    """Parse the C header gfortran -fc-prototypes prints (a tiny, regular subset of C)."""
    v = FView()
    for m in re.finditer(r"typedef struct (\w+) \{(.*?)\} (\w+);", text, re.S):
        fields = []
        for ln in m.group(2).strip().split("\n"):
            ln = ln.strip().rstrip(";")
            if not ln:
                continue
            fm = re.match(r"(.*?)(\w+)((?:\[\d+\])*)$", ln)
            fields.append((fm.group(2), (fm.group(1).strip() + fm.group(3)).strip()))
        v.records[m.group(3)] = fields
    body = re.sub(r"typedef struct.*?\} \w+;", "", text, flags=re.S)
    for m in re.finditer(r"^([\w \*]+?)\b(\w+) \((.*?)\);", body, re.M):
        ret, name, ps = m.group(1).strip(), m.group(2), m.group(3).strip()
        params = []
        if ps and ps != "void":
            for p in ps.split(","):
                p = p.strip()
                pm = re.match(r"(.*?)(\w+)((?:\[\d*\])*)$", p)
                if "(*" in p or pm is None:
                    params.append((None, p))
                else:
                    params.append((pm.group(2), (pm.group(1).strip() + pm.group(3)).strip()))
        v.funcs[name] = {"ret": ret, "params": params}
    return v


def descriptor_dummies(ftext):
    """{binding label: [True if the i-th dummy is passed by CFI descriptor]} read from the interface bodies themselves:
    gfortran -fc-prototypes prints an assumed-length character dummy as 'char *', which hides the difference between a
    descriptor and a plain pointer (F2018 18.3.6: assumed-shape, assumed-rank, allocatable, pointer and assumed-length
    character dummies of a bind(C) procedure are passed as CFI_cdesc_t *)."""
    code = "\n".join(re.sub(r"!.*", "", ln) for ln in ftext.split("\n"))
    code = re.sub(r"&\s*\n\s*&?", "", code)
    out = {}
    for m in re.finditer(r"^\s*(?:pure\s+|elemental\s+)*(?:function|subroutine)\s+\w+\s*\(([^)]*)\)([^\n]*)\n(.*?)^\s*end\s+(?:function|subroutine)", code, re.M | re.S | re.I):
        lab = re.search(r'bind\s*\(\s*C\s*,\s*name\s*=\s*"(\w+)"', m.group(2), re.I)
        if not lab:
            continue
        dummies = [x.strip().lower() for x in m.group(1).split(",") if x.strip()]
        desc = {}
        for ln in m.group(3).split("\n"):
            if "::" not in ln:
                continue
            spec, names = ln.split("::", 1)
            spec_l = spec.lower().replace(" ", "")
            by_desc = ("character(len=*)" in spec_l or "character(*)" in spec_l or "allocatable" in spec_l or ",pointer" in spec_l
                       or "dimension(:" in spec_l or "dimension(.." in spec_l)
            for nm in re.findall(r"(\w+)\s*(\([^)]*\))?", names):
                d = by_desc or nm[1].replace(" ", "").startswith(("(:", "(.."))
                desc[nm[0].lower()] = d
        out[lab.group(1)] = [desc.get(x, False) for x in dummies]
    return out


def check_dir(name, out, lang, incs, objs, res, have_objects=True):
    """Compare every bind(C) entity of the modules in 'out' with the C side."""
    st = res["stats"]
    ffiles = engine.fortran_files(out)
    if not ffiles:
        return
    # Fortran view (needs modules of earlier files: compile in order with -fsyntax-only writing .mod)
    ftext = ""
    for f in ffiles:
        p = subprocess.run(["gfortran", "-cpp", "-ffree-form", "-w", "-fsyntax-only", "-fc-prototypes", f] + incs, cwd=out,
                           capture_output=True, text=True, timeout=300)
        if p.returncode != 0 and "(" in p.stdout:
            # -fc-prototypes cannot express TYPE(*) / procedure dummies of subroutines; the remaining
            # interfaces are still printed
            txt = p.stdout
            # a prototype gfortran cannot finish is cut at the offending parameter and the next prototype
            # continues on the same line: drop the unfinished pieces
            pat = re.compile(r"^[^;\n]*?/\* Cannot convert '[^']*' to interoperable type \*/", re.M)
            while pat.search(txt):
                txt = pat.sub("", txt, count=1)
                st["interfaces_gfortran_cannot_describe"] = st.get("interfaces_gfortran_cannot_describe", 0) + 1
            ftext += txt
            continue
        if p.returncode != 0:
            res.setdefault("unreachable", []).append("gfortran cannot describe %s: %s" % (f, " | ".join(x for x in p.stderr.strip().split("\n") if "rror" in x)[:200]))
            continue
        ftext += p.stdout
    fv = fortran_view(ftext)
    fdesc = {}
    for f in ffiles:
        fdesc.update(descriptor_dummies(open(os.path.join(out, f)).read()))
    cs = CSide()
    cfiles = sorted(f for f in os.listdir(out) if f.endswith((".h", ".c", ".cpp", ".cc", ".hpp")) and not f.startswith(("py", "lua"))
                    and not f.endswith(("_impl.c", "_impl.cpp")) and f not in ("driver.c",))
    for f in cfiles:
        flags = ["-x", "c", "-std=c99"] if f.endswith((".h", ".c")) and (lang == "c" or f.endswith(".h")) else ["-x", "c++", "-std=c++11"]
        err = cs.load(f, out, flags, ["-I", "."] + incs)
    for extra in res.get("user_headers", []):
        cs.load(extra, out, ["-x", "c", "-std=c99"] if lang == "c" else ["-x", "c++", "-std=c++11"], ["-I", "."] + incs)
    defined = None
    if have_objects and objs:
        p = subprocess.run(["nm", "--defined-only"] + objs, cwd=out, capture_output=True, text=True)
        defined = set(re.findall(r" [TtWw] (\w+)$", p.stdout, re.M))
    abstract = set()
    for f in ffiles:
        txt = open(os.path.join(out, f)).read()
        for blk in re.findall(r"abstract interface(.*?)end interface", txt, re.S | re.I):
            abstract.update(x.lower() for x in re.findall(r"(?:function|subroutine)\s+(\w+)", blk, re.I))
    for fname, fd in sorted(fv.funcs.items()):
        if fname.lower() in abstract:
            continue            # abstract interface of a callback argument: nothing is bound to it
        st["interfaces_checked"] = st.get("interfaces_checked", 0) + 1
        cd = cs.funcs.get(fname)
        if defined is not None and fname not in defined:
            res["violations"].append({"mech": "binding-label-not-defined:%s" % _g(fname), "detail": "%s: bind(C, name=\"%s\") has no definition in the objects built from the generated / user C code" % (name, fname)})
            continue
        if cd is None:
            if defined is None:
                res.setdefault("unreachable", []).append("no C declaration visible for %s (library has no sources here)" % fname)
            else:
                st["defined_but_not_described"] = st.get("defined_but_not_described", 0) + 1
            continue
        if len(fd["params"]) != len(cd["params"]):
            res["violations"].append({"mech": "argument-count-differs:%s" % _g(fname), "detail": "%s: %s Fortran view %r, C %r" % (name, fname, fd["params"], cd["params"])})
            continue
        dd = fdesc.get(fname)
        for i, ((fn, ft), (cn, ct)) in enumerate(zip(fd["params"], cd["params"])):
            if dd is not None and i < len(dd):
                st["descriptor_passing_compared"] = st.get("descriptor_passing_compared", 0) + 1
                c_is_desc = "CFI_cdesc_t" in ct
                if dd[i] != c_is_desc:
                    res["violations"].append({"mech": "descriptor-vs-plain-pointer:%s" % _shape(fname),
                                              "detail": "%s: %s argument %d: the Fortran interface passes %s, the C function takes '%s %s'" % (
                                                  name, fname, i + 1, "a CFI descriptor" if dd[i] else "a plain value / pointer", ct, cn)})
                    continue
                if dd[i]:
                    continue        # both sides agree on a descriptor; what -fc-prototypes prints for it is not its C type
            fc, cc = iclass(ft, fv), iclass(ct, cs)
            st["arguments_compared"] = st.get("arguments_compared", 0) + 1
            if not compatible(fc, cc):
                res["violations"].append({"mech": "argument-class-differs:%s:%s-vs-%s" % (_shape(fname), fc[0] + str(fc[1] if len(fc) > 1 and not isinstance(fc[1], tuple) else ""), cc[0] + str(cc[1] if len(cc) > 1 and not isinstance(cc[1], tuple) else "")),
                                          "detail": "%s: %s argument %d: Fortran passes '%s %s' (%r), C expects '%s %s' (%r)" % (name, fname, i + 1, ft, fn, fc, ct, cn, cc)})
        fr, cr = iclass(fd["ret"], fv), iclass(cd["ret"], cs)
        if not compatible(fr, cr):
            res["violations"].append({"mech": "result-class-differs:%s" % _shape(fname),
                                      "detail": "%s: %s result: Fortran '%s' (%r), C '%s' (%r)" % (name, fname, fd["ret"], fr, cd["ret"], cr)})
    for rname, fields in sorted(fv.records.items()):
        st["derived_types_checked"] = st.get("derived_types_checked", 0) + 1
        # C counterpart: same name modulo case, or 's_' + name
        cands = [k for k in cs.records if k.lower() in (rname.lower(), "s_" + rname.lower())]
        if not cands:
            # C++ libraries: the C copy of the struct carries the library prefix (docs/structs.rst: {C_prefix}{name})
            cands = [k for k in cs.records if re.fullmatch(r"(s_)?[a-z0-9]+_" + re.escape(rname.lower()), k.lower())]
        if not cands:
            st["derived_types_without_c_struct"] = st.get("derived_types_without_c_struct", 0) + 1
            continue
        cf = cs.records[cands[0]]
        fcl = tuple(iclass(t, fv) for _, t in fields)
        ccl = tuple(iclass(t, cs) for _, t in cf)
        if len(fcl) != len(ccl) or not all(compatible(a, b) for a, b in zip(fcl, ccl)):
            res["violations"].append({"mech": "derived-type-differs:%s" % re.sub(r"^[a-z0-9]+_", "", rname.lower()),
                                      "detail": "%s: type %s: Fortran fields %r, C struct %s fields %r" % (name, rname, fields, cands[0], cf)})
    # shared constant table (values are literals or '<earlier name> + <n>' on both sides)
    def evaluate(pairs):
        vals = {}
        for k, expr in pairs:
            e = expr.strip()
            for name, v in sorted(vals.items(), key=lambda kv: -len(kv[0])):
                e = re.sub(r"\b%s\b" % name, str(v), e)
            if re.fullmatch(r"[\d+\-* ()]+", e):
                vals[k] = eval(e)
        return vals
    fpairs = []
    for f in ffiles:
        fpairs += [(m.group(1).upper(), m.group(2)) for m in
                   re.finditer(r"\b(SH_TYPE_\w+)\s*=\s*([^,&\n!]+)", open(os.path.join(out, f)).read(), re.I)]
    fconst = evaluate(fpairs)
    if fconst:
        cpairs = []
        for h in [f for f in os.listdir(out) if f.startswith("types") and f.endswith(".h")]:
            p = subprocess.run(["gcc", "-x", "c", "-E", "-dM", h, "-I", "."], cwd=out, capture_output=True, text=True)
            cpairs += [(m.group(1), m.group(2)) for m in re.finditer(r"#define (SH_TYPE_\w+) ([^\n]+)", p.stdout)]
        # macro order in -dM output is arbitrary: iterate to a fixed point
        cconst = {}
        for _ in range(4):
            cconst = evaluate(sorted(cpairs, key=lambda kv: kv[0] not in cconst))
            known = dict(cconst)
            cpairs = [(k, re.sub(r"\bSH_TYPE_\w+\b", lambda m: str(known.get(m.group(0), m.group(0))), v)) for k, v in cpairs]
        for k, v in fconst.items():
            st["constants_compared"] = st.get("constants_compared", 0) + 1
            if k in cconst and cconst[k] != v:
                res["violations"].append({"mech": "shared-constant-differs:%s" % k, "detail": "%s: %s is %d in Fortran and %d in C" % (name, k, v, cconst[k])})
            elif k not in cconst:
                st["constants_missing_in_c"] = st.get("constants_missing_in_c", 0) + 1


def _g(fname):
    return re.sub(r"f\d+[a-z0-9]*", "F", fname)


def _shape(fname):
    s = re.sub(r"^[A-Za-z0-9]+?_(?=f\d)", "", fname)
    s = re.sub(r"f\d+", "", s)
    return s[:40]


def run_generated(case):
    lib = case["lib"]
    res = {"violations": [], "stats": {}, "name": lib["name"]}
    rr = engine.generate(lib)
    cwd = rr.get("cwd")
    try:
        if rr.get("exc") or rr.get("exit") != 0:
            res["rejected"] = True
            return res
        out = os.path.join(cwd, "out")
        objs = engine.build_objects(lib, out, res, sanitize=False)
        res["violations"] = []      # compile failures are C05's business
        res["user_headers"] = [lib["name"] + (".hpp" if lib["language"] == "c++" else ".h")]
        check_dir(lib["name"], out, lib["language"], ["-I", engine.NATIVE], objs or [], res, have_objects=bool(objs))
        return res
    finally:
        if cwd:
            common.rmtree(cwd)


STRUCT_H = """#ifndef SD_H
#define SD_H
struct Particle { int id; double weight; int charge; float pos[3]; long tag; double mat[2][3]; short cube[2][3][4]; int grid[2][3][4][5]; };
typedef struct Particle Particle;
#ifdef __cplusplus
extern "C" {
#endif
int particle_charge(const Particle *p);
#ifdef __cplusplus
}
#endif
#endif
"""


def run_struct_forms(case):
    """A struct written member by member (nested declarations), with wrap flags / blocks on individual members:
    the bind(C) derived type is a memory layout, so it must keep every field whatever the member's wrap flags say."""
    from .. import shroudrun
    lang, form = case["lang"], case["form"]
    res = {"violations": [], "stats": {}, "name": "sd-%s-%s" % (lang, form)}
    members = [{"decl": "int id"}, {"decl": "double weight"}, {"decl": "int charge"}, {"decl": "float pos[3]"}, {"decl": "long tag"},
               {"decl": "double mat[2][3]"}, {"decl": "short cube[2][3][4]"}, {"decl": "int grid[2][3][4][5]"}]
    c_extents = {"pos": [3], "mat": [2, 3], "cube": [2, 3, 4], "grid": [2, 3, 4, 5]}
    if form == "member-fortran-off":
        members[1]["options"] = {"wrap_fortran": False}
    elif form == "member-python-off":
        members[2]["options"] = {"wrap_python": False, "wrap_lua": False}
    elif form == "block-fortran-off":
        members = [members[0], {"block": True, "options": {"wrap_fortran": False}, "declarations": members[1:3]}] + members[3:]
    elif form == "member-c-off":
        members[3]["options"] = {"wrap_c": False, "wrap_fortran": False}
    y = {"library": "sd", "cxx_header": "sd.h", "language": lang,
         "options": {"wrap_c": True, "wrap_fortran": True, "wrap_python": False, "wrap_lua": False},
         "declarations": [{"decl": "struct Particle", "declarations": members}, {"decl": "int particle_charge(const Particle *p)"}]}
    sp = {"name": res["name"], "files": {"work/sd.yaml": workloads.dump_yaml(y)}, "dirs": ["out"],
          "argv": ["--outdir", "out", "--logdir", "out", "work/sd.yaml"], "monitors": [], "keep": True}
    rr = shroudrun.run(sp)
    cwd = rr.get("cwd")
    try:
        if rr.get("exc") or rr.get("exit") != 0:
            res["rejected"] = True
            res["why"] = engine.reject_mech(rr)[1][:300]
            return res
        out = os.path.join(cwd, "out")
        open(os.path.join(out, "sd.h"), "w").write(STRUCT_H)
        res["user_headers"] = ["sd.h"]
        check_dir(res["name"], out, lang, [], [], res, have_objects=False)
        res["unreachable"] = [u for u in res.get("unreachable", []) if "no C declaration visible" not in u]
        # array members: gfortran's C view flattens them, so the extents are read from the derived type itself; a C
        # array T a[n1][n2]...[nk] (row major) is the Fortran component a(nk,...,n2,n1) (F2018 18.3.5)
        ftext = "\n".join(open(os.path.join(out, f)).read() for f in os.listdir(out) if f.startswith("wrapf") and f.endswith(".f"))
        ftext = re.sub(r"&[ \t]*\n[ \t]*&?", "", ftext)
        m = re.search(r"type\s*,\s*bind\(C\)\s*::\s*particle\b(.*?)end type", ftext, re.S | re.I)
        if m:
            comps = {}
            for nm, dims in re.findall(r"::\s*(\w+)\s*\(([^)]*)\)", m.group(1)):
                comps[nm.lower()] = [x.strip() for x in dims.split(",")]
            for nm, ext in c_extents.items():
                if nm not in comps:
                    continue                    # a missing component is the derived-type comparison's finding
                res["stats"]["array_member_shapes_compared"] = res["stats"].get("array_member_shapes_compared", 0) + 1
                want = [str(x) for x in reversed(ext)]
                if comps[nm] != want:
                    res["violations"].append({"mech": "array-member-extents-differ:rank%d" % len(ext),
                                              "detail": "%s: C member %s%s is the Fortran component %s(%s); interoperable with it is %s(%s)" % (
                                                  res["name"], nm, "".join("[%d]" % x for x in ext), nm, ",".join(comps[nm]), nm, ",".join(want))})
        return res
    finally:
        if cwd:
            common.rmtree(cwd)


MEMBERS_HPP = """#ifndef WM_HPP
#define WM_HPP
class Widget { public: Widget(); bool m_on; int m_count; double m_scale; long *m_ptr; const double *m_cd; bool m_locked; float m_ratio; };
#endif
"""


def run_class_members(case):
    """Getters and setters Shroud synthesises for class data members: their bind(C) interfaces against the C prototypes
    of the generated wrapper (value vs reference, kinds), for scalar, bool and pointer members."""
    from .. import shroudrun
    res = {"violations": [], "stats": {}, "name": "wm-" + ("cfi" if case.get("cfi") else "plain")}
    members = [{"decl": "Widget()"}, {"decl": "bool m_on;"}, {"decl": "int m_count;"}, {"decl": "double m_scale;"}, {"decl": "long *m_ptr;"},
               {"decl": "const double *m_cd;"}, {"decl": "bool m_locked +readonly;"}, {"decl": "float m_ratio;"}]
    y = {"library": "wm", "cxx_header": "wm.hpp", "language": "c++",
         "options": {"wrap_c": True, "wrap_fortran": True, "wrap_python": False, "wrap_lua": False, "F_CFI": bool(case.get("cfi"))},
         "declarations": [{"decl": "class Widget", "declarations": members}]}
    sp = {"name": res["name"], "files": {"work/wm.yaml": workloads.dump_yaml(y)}, "dirs": ["out"],
          "argv": ["--outdir", "out", "--logdir", "out", "work/wm.yaml"], "monitors": [], "keep": True}
    rr = shroudrun.run(sp)
    cwd = rr.get("cwd")
    try:
        if rr.get("exc") or rr.get("exit") != 0:
            res["rejected"] = True
            res["why"] = engine.reject_mech(rr)[1][:300]
            return res
        out = os.path.join(cwd, "out")
        open(os.path.join(out, "wm.hpp"), "w").write(MEMBERS_HPP)
        res["user_headers"] = ["wm.hpp"]
        check_dir(res["name"], out, "c++", [], [], res, have_objects=False)
        return res
    finally:
        if cwd:
            common.rmtree(cwd)


def run_corpus(case):
    from .. import shroudrun
    name = case["name"]
    cfg = {c["name"]: c for c in corpus.configs()}[name]
    res = {"violations": [], "stats": {}, "name": name}
    sp = corpus.spec(cfg)
    sp["keep"] = True
    rr = shroudrun.run(sp)
    cwd = rr.get("cwd")
    try:
        if rr.get("exc") or rr.get("exit") != 0:
            res["rejected"] = True
            return res
        out = os.path.join(cwd, "out")
        stem = os.path.splitext(cfg["yaml"])[0]
        srcdir = os.path.join(common.REPO, "regression", "run", stem)
        lang = "c++"
        if "--language" in cfg["cmdline"]:
            lang = cfg["cmdline"][cfg["cmdline"].index("--language") + 1]
        elif re.search(r"^language:\s*c\s*$", corpus.yaml_text(cfg), re.M):
            lang = "c"
        have = os.path.isdir(srcdir) and any(f.endswith((".h", ".hpp")) for f in os.listdir(srcdir))
        objs = []
        incs = ["-I", srcdir] if have else []
        if have:
            for f in sorted(os.listdir(out)):
                if f.endswith((".c", ".cpp")) and not f.startswith(("py", "lua")):
                    cc = ["gcc", "-std=c99"] if f.endswith(".c") else ["g++", "-std=c++11"]
                    rc, so, se = engine.sh(cc + ["-w", "-c", f, "-o", f + ".o", "-I", ".", "-I", srcdir], out)
                    if rc == 0:
                        objs.append(f + ".o")
            for f in sorted(os.listdir(srcdir)):
                if f.endswith((".c", ".cpp")) and not f.startswith(("main", "test")):
                    cc = ["gcc", "-std=c99"] if (f.endswith(".c") and lang == "c") else ["g++", "-std=c++11", "-x", "c++"]
                    rc, so, se = engine.sh(cc + ["-w", "-c", os.path.join(srcdir, f), "-o", f + ".subj.o", "-I", ".", "-I", srcdir], out)
                    if rc == 0:
                        objs.append(f + ".subj.o")
            res["user_headers"] = [os.path.join(srcdir, f) for f in os.listdir(srcdir) if f.endswith((".h", ".hpp")) and not f.startswith("wrap")]
            if stem == "forward":
                for f in ("tutorial_mod.f", "struct_mod.f"):
                    engine.sh(["gfortran", "-cpp", "-ffree-form", "-w", "-fsyntax-only", os.path.join(srcdir, f)], out)
        check_dir(name, out, lang, incs, objs, res, have_objects=bool(objs))
        return res
    finally:
        if cwd:
            common.rmtree(cwd)


def main(rec):
    thorough = common.tier() == "thorough"
    r = common.rng("c04")
    rec.rule = ("every bind(C) interface body, bind(C) derived type and SH_TYPE_* constant of every module emitted for the "
                "corpus configurations and for generated libraries (language c and c++, F_CFI off and on); "
                "distinct_nontrivial = distinct (library, binding label) interfaces whose arguments were compared")
    rec.assumptions = ["gfortran -fc-prototypes and clang -ast-dump=json describe the two sides; x86-64 SysV type sizes",
                       "signedness ignored, void* / type(C_PTR) interoperable with any object pointer (F2003 15.2-15.3)"]
    cases = []
    for lang in ("c++", "c"):
        inst = libs.instances(lang, ("c", "fortran"))
        per = 8
        for bi in range(0, len(inst), per):
            for cfi in (False, True):
                lib = libs.build("i%s%d%s" % ("x" if lang == "c++" else "c", bi // per, "f" if cfi else ""), lang, inst[bi:bi + per],
                                 ("c", "fortran"), options={"F_CFI": cfi})
                cases.append({"lib": lib})
    # function pointer arguments: each shape alone (one module each), so that every abstract interface is described by itself
    for lang in ("c++", "c"):
        k = 0
        for it in libs.instances(lang, ("c", "fortran")):
            if "callback" in it[0]["id"]:
                k += 1
                cases.append({"lib": libs.build("icb%s%d" % ("x" if lang == "c++" else "c", k), lang, [it], ("c", "fortran"))})
    # fortran_generic entries that differ in rank (every new scalar / array pattern gets a bind(C) interface of its own)
    # and, in the same entry, in the type of a by-value scalar: the extra interfaces still bind to the one C function
    from ..libgen.libs import F, P
    def _gen_rank(n, T):
        return [F(n, "void", [P("factor", "val", "double"), P("values", "ptr_inout", "int"), P("nvalues", "val", "int")],
                  generic=[{"decl": "(double factor, int *values)", "function_suffix": "_scalar"},
                           {"decl": "(float factor, int *values +rank(1))", "function_suffix": "_float_array"},
                           {"decl": "(double factor, int *values +rank(1))", "function_suffix": "_array"}]),
                F(n + "b", "int", [P("scale", "val", "long"), P("data", "ptr_in", "double")],
                  generic=[{"decl": "(int scale, const double *data +rank(2))", "function_suffix": "_i2"},
                           {"decl": "(long scale, const double *data)", "function_suffix": "_l0"},
                           {"decl": "(long scale, const double *data +rank(1))", "function_suffix": "_l1"}])]
    gshape = dict(id="generic_rank_scalar", build=_gen_rank, types=None, langs=("c", "c++"), wraps=("c", "fortran"), doc="generic.yaml AssignValues / SavePointer")
    for lang in ("c", "c++"):
        cases.append({"lib": libs.build("igr%s" % ("x" if lang == "c++" else "c"), lang, [(gshape, None)], ("c", "fortran"))})
    if thorough:
        for k in range(40):
            lang = r.choice(["c", "c++"])
            inst = libs.instances(lang, ("c", "fortran"))
            lib = libs.build("ir%d" % k, lang, [r.choice(inst) for _ in range(8)], ("c", "fortran"),
                             options={"F_CFI": r.random() < 0.5, "F_force_wrapper": r.random() < 0.3}, fmt={"C_prefix": r.choice(["ZZ_", "my"])} if r.random() < 0.5 else {},
                             namespace=r.choice([None, "outer"]) if lang == "c++" else None)
            cases.append({"lib": lib})
    res = pool.run_cases("vf.checks.c04", cases, func="run_generated", timeout=1800)
    scases = [{"lang": lg, "form": fm} for lg in ("c", "c++") for fm in ("plain", "member-fortran-off", "member-python-off", "block-fortran-off", "member-c-off")]
    sres = pool.run_cases("vf.checks.c04", scases, func="run_struct_forms", timeout=600)
    for c, rr in zip(scases, sres):
        if "stats" not in rr:
            workloads.bad_run(rec, {"name": "sd"}, rr)
            continue
        if rr.get("rejected"):
            rec.count("struct_forms_rejected_by_shroud")
            continue
        rec.merge_stats({"struct_forms_" + k: v for k, v in rr["stats"].items()})
        for v in rr["violations"]:
            rec.violation("struct-form:%s:%s" % (c["form"], v["mech"]), v["detail"], c)
    mcases = [{"cfi": False}, {"cfi": True}]
    mres = pool.run_cases("vf.checks.c04", mcases, func="run_class_members", timeout=600)
    for c, rr in zip(mcases, mres):
        if "stats" not in rr:
            workloads.bad_run(rec, {"name": "wm"}, rr)
            continue
        if rr.get("rejected"):
            rec.count("class_member_library_rejected_by_shroud")
            continue
        rec.merge_stats({"class_members_" + k: v for k, v in rr["stats"].items()})
        for v in rr["violations"]:
            rec.violation("class-member:%s" % v["mech"], v["detail"], c)
    ccases = [{"name": c["name"]} for c in corpus.configs()]
    cres = pool.run_cases("vf.checks.c04", ccases, func="run_corpus", timeout=1800)
    for c, rr in list(zip(cases, res)) + list(zip(ccases, cres)):
        nm = c.get("name") or c["lib"]["name"]
        if "stats" not in rr:
            workloads.bad_run(rec, {"name": nm}, rr)
            continue
        rec.merge_stats(rr["stats"])
        n = rr["stats"].get("interfaces_checked", 0)
        rec.evaluations += n
        for u in rr.get("unreachable", []):
            rec.unreach(re.sub(r"\w*f\d+\w*", "F", u)[:50])
        for v in rr["violations"]:
            rec.violation(("corpus:%s:" % nm if "name" in c else "") + v["mech"], v["detail"], {"name": nm})
        if n and len(rec.samples) < 3:
            rec.samples.append({"library": nm, "stats": rr["stats"]})
    rec.distinct_override = rec.counters.get("interfaces_checked", 0)
    if rec.counters.get("arguments_compared", 0) == 0:
        rec.inconclusive = "no interface argument was compared"


def replay(bundle):
    print("re-run ./check C04")
    return 2
