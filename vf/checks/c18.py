"""C18 — the generated Lua binding is call-equivalent to the wrapped library.

Deciding method: the generated binding is compiled (ASan+UBSan) against `minilua`, a small reference
emulator of exactly the Lua 5.3 C-API surface the emitter uses (no Lua runtime or headers exist in the
sandbox), linked with the instrumented subject library, and driven by a synthesised C driver that builds
argument stacks, calls the registered functions / methods and prints what is left on the stack; the
library trace and the results are compared with the reference model.
"""
from __future__ import annotations

import os

from .. import buildfarm, common, engine, pool, workloads
from ..drivers import c as cdrv
from ..libgen import ir, libs

LEVEL = "exploration"
MINILUA = os.path.join(common.VERIF, "native", "minilua")


def push(v, T=None):
    if isinstance(v, bool):
        return "lua_pushboolean(L, %d);" % (1 if v else 0)
    if isinstance(v, int):
        if v == -(1 << 63):
            return "lua_pushinteger(L, (-9223372036854775807LL - 1));"
        if v >= (1 << 63):
            return "lua_pushinteger(L, (lua_Integer)%dULL);" % v
        return "lua_pushinteger(L, %dLL);" % v
    if isinstance(v, float):
        return "lua_pushnumber(L, %s);" % float.hex(v)
    if isinstance(v, str):
        return "lua_pushstring(L, %s);" % cdrv.cstr(v)
    if v is None:
        return "lua_pushnil(L);"
    if isinstance(v, dict) and "obj" in v:
        return "lua_pushvalue(L, %s);" % v["obj"]
    raise ValueError(v)


PRINT = r"""
static void print_results(lua_State *L, int base, int n)
{
    int i;
    printf(" n=i:%d", n);
    for (i = 0; i < n; i++) {
        int idx = base + 1 + i;
        char nm[16];
        snprintf(nm, sizeof nm, "r%d", i);
        switch (lua_type(L, idx)) {
        case LUA_TNUMBER:
            if (lua_isinteger(L, idx)) vf_log_i(nm, (long long) lua_tointeger(L, idx), 1);
            else vf_log_r8(nm, lua_tonumber(L, idx));
            break;
        case LUA_TBOOLEAN: vf_log_b(nm, lua_toboolean(L, idx)); break;
        case LUA_TSTRING: { size_t len; const char *s = lua_tolstring(L, idx, &len); vf_log_s(nm, s, (long) len); break; }
        case LUA_TNIL: printf(" %s=nil", nm); break;
        case LUA_TUSERDATA: printf(" %s=userdata", nm); break;
        default: printf(" %s=type%d", nm, lua_type(L, idx)); break;
        }
    }
}
"""


def gen_driver(lib, ops):
    L = ["#include <stdio.h>", "#include <stdlib.h>", "#include <string.h>", '#include "lua.h"', '#include "lauxlib.h"',
         "#define VF_TRACE_STDOUT 1", '#include "vf_trace.h"', "void vf_mark(int k);",
         "int luaopen_%s(lua_State *L);" % lib["name"].lower(), PRINT, "int main(void) {", "  lua_State *L = mini_newstate();",
         "  int vf_rc, vf_n, vf_base, vf_mod;", "  vf_rc = luaopen_%s(L);   /* 'require' takes the value it returns: the top of the stack */" % lib["name"].lower(),
         "  vf_mod = lua_gettop(L);",
         '  if (vf_rc != 1 || lua_type(L, vf_mod) != LUA_TTABLE) { printf("OUT -1 module=b:0\\n"); return 0; }']
    slot = {}
    for k, op in enumerate(ops):
        L.append("  /* op %d */ vf_mark(%d);" % (k, k))
        if op["kind"] == "del":
            L.append("  vf_rc = %s ? mini_collect(L, %s) : -2; printf(\"OUT %d\"); vf_log_i(\"rc\", vf_rc, 1); printf(\"\\n\");" % (slot[op["obj"]], slot[op["obj"]], k))
            continue
        L.append("  vf_base = lua_gettop(L);")
        if op["kind"] in ("call", "new"):
            L.append('  if (mini_getmethod(L, vf_mod, "%s") != LUA_TFUNCTION) { lua_settop(L, vf_base); printf("OUT %d missing=b:1\\n"); } else {' % (op["name"], k))
            nself = 0
        else:
            L.append('  if (!%s || mini_getmethod(L, %s, "%s") != LUA_TFUNCTION) { lua_settop(L, vf_base); printf("OUT %d missing=b:1\\n"); } else {' % (slot[op["obj"]], slot[op["obj"]], op["name"], k))
            L.append("    lua_pushvalue(L, %s);" % slot[op["obj"]])
            nself = 1
        for v in op["args"]:
            L.append("    " + push(v))
        L.append("    vf_rc = mini_pcall(L, %d, &vf_n);" % (len(op["args"]) + nself))
        L.append('    printf("OUT %d");' % k)
        L.append('    if (vf_rc != LUA_OK) { printf(" error=b:1"); vf_log_s("msg", lua_tostring(L, -1), -1); lua_settop(L, vf_base); }')
        if op["kind"] == "new":
            # keep the object on the stack
            L.append('    else { print_results(L, vf_base, vf_n); }')
            L.append('    printf("\\n"); fflush(stdout); }')
            L.append("  /* object stays at index vf_base+1 when construction succeeded */")
            slot[op["obj"]] = None
            L.append("  int slot_%s = lua_gettop(L) > vf_base ? vf_base + 1 : 0;" % op["obj"])
            slot[op["obj"]] = "slot_%s" % op["obj"]
        else:
            L.append('    else { print_results(L, vf_base, vf_n); lua_settop(L, vf_base); }')
            L.append('    printf("\\n"); fflush(stdout); }')
    # slots are C ints: fix format usage
    L.append("  vf_mark(%d);" % len(ops))
    L.append("  mini_close(L);")
    L.append("  vf_mark(%d);" % (len(ops) + 1))
    L.append("  return 0; }")
    src = "\n".join(L)
    # slot references were formatted with %d above: replace the python-side placeholders
    return src + "\n"


def fix_slots(src):
    return src


def build_plan(lib, r, thorough):
    ops, meta = [], []

    def add(op, m):
        ops.append(op)
        meta.append(m)
    by_name = {}
    for fi, f in enumerate(lib["functions"]):
        if f.get("cls"):
            continue
        by_name.setdefault(f["name"], []).append(fi)
    for name, fis in by_name.items():
        arities = {}
        for fi, t_ in [(fi, t_) for fi in fis for t_ in (lib["functions"][fi].get("template") or [None])]:
            f = ir.instantiate(lib["functions"][fi], t_)
            ins = [p for p in f["params"] if p["kind"] in ir.IN_KINDS]
            nd = sum(1 for p in ins if "default" in p)
            for arity in range(len(ins) - nd, len(ins) + 1):
                arities[arity] = fi
                use = ins[:arity]
                base = {p["name"]: libs.base_value(p, r) for p in use}
                variants = [dict(base)]
                for p in use:
                    T = p.get("T")
                    if p["kind"] == "val":
                        opts = [x for x in libs.battery(T)]
                        if T in ir.TYPES and ir.TYPES[T]["k"] == "i" and not ir.TYPES[T]["signed"]:
                            opts = [x for x in opts if x < (1 << 63)]
                    else:
                        opts = ["", " ", "a b ", "hello"]
                    for o in (opts if thorough else opts[:5]):
                        v = dict(base)
                        v[p["name"]] = o
                        variants.append(v)
                for vals in variants:
                    add({"kind": "call", "name": name, "args": [vals[p["name"]] for p in use]},
                        {"expect": "ok", "f": fi, "args": vals, "t": t_})
        # non-matching stacks
        f0 = lib["functions"][fis[0]]
        maxa = max(arities)
        for n in set([0, maxa + 1, maxa + 2]) - set(arities):
            add({"kind": "call", "name": name, "args": [1] * n}, {"expect": "reject", "why": "count %d" % n, "f": fis[0]})
        for arity, fi in arities.items():
            f = lib["functions"][fi]
            if f.get("template"):
                continue        # which instantiation a stack of other types should have selected is not defined
            use = [p for p in f["params"] if p["kind"] in ir.IN_KINDS][:arity]
            for j, p in enumerate(use):
                T = p.get("T")
                cls_ = "s" if p["kind"] in ir.STR_KINDS else ir.TYPES[T]["k"]
                wrongs = {"i": ["str", True, None], "r": ["str", True, None], "b": [], "s": [True, None]}[cls_]
                for w in wrongs:
                    args = [libs.base_value(q, r) for q in use]
                    args[j] = w
                    add({"kind": "call", "name": name, "args": args}, {"expect": "reject", "why": "slot %d := %r" % (j + 1, w), "f": fi,
                                                                          "overloaded": len(arities) > 1})
    classes = []
    for f in lib["functions"]:
        if f.get("cls") and f["cls"] not in classes:
            classes.append(f["cls"])
    for c in classes:
        fs = [(i, f) for i, f in enumerate(lib["functions"]) if f.get("cls") == c]
        ctors = [(i, f) for i, f in fs if f.get("ctor")]
        meths = [(i, f) for i, f in fs if not f.get("ctor") and not f.get("dtor") and not f.get("static")]
        for oi, (ci, cf) in enumerate(ctors):
            obj = "o%d_%d" % (classes.index(c), oi)
            vals = {p["name"]: r.choice(libs.battery(p["T"])) for p in cf["params"]}
            add({"kind": "new", "name": c, "obj": obj, "args": [vals[p["name"]] for p in cf["params"]]}, {"expect": "new", "f": ci, "args": vals, "obj": obj})
            for mi, mf in meths:
                vals = {p["name"]: r.choice(libs.battery(p["T"])) for p in mf["params"]}
                add({"kind": "method", "name": mf["name"], "obj": obj, "args": [vals[p["name"]] for p in mf["params"]]},
                    {"expect": "ok", "f": mi, "args": vals, "obj": obj})
        for oi in range(len(ctors)):
            add({"kind": "del", "obj": "o%d_%d" % (classes.index(c), oi)}, {"expect": "del", "obj": "o%d_%d" % (classes.index(c), oi)})
    # non-matching stacks go last (a binding that does not check its arguments may crash the process; everything
    # before it must still be observed); the ones most likely to crash (missing string argument) at the very end
    def rank(i):
        m = meta[i]
        if m["expect"] != "reject":
            return 0
        f = lib["functions"][m["f"]]
        stringy = any(p["kind"] in ir.STR_KINDS for p in f["params"])
        return 2 if stringy else 1
    order = sorted(range(len(ops)), key=lambda i: (rank(i), i))
    return [ops[i] for i in order], [meta[i] for i in order]


def expected_stack(g, exp):
    """Results the binding must leave: the function result (if any); Lua wraps no out arguments in this subset."""
    out = {}
    n = 0
    if "ret" in exp["send"]:
        r = exp["send"]["ret"]
        # numbers: integers come back as Lua integers, reals as Lua floats (doubles)
        if r.startswith("r4:"):
            import struct
            v = struct.unpack("<f", struct.pack("<i", int(r[3:])))[0]
            r = ir.repr_scalar(v, "double")
        if r.startswith("i:") and int(r[2:]) >= (1 << 63):
            r = "i:%d" % (int(r[2:]) - (1 << 64))       # lua_Integer is a signed 64-bit integer
        out["r0"] = r
        n = 1
    out["n"] = "i:%d" % n
    return out


def run_library(case):
    lib, ops, meta = case["lib"], case["ops"], case["meta"]
    res = {"violations": [], "stats": {}, "name": lib["name"]}
    rr = engine.generate(lib)
    cwd = rr.get("cwd")
    try:
        if rr.get("exc") or rr.get("exit") != 0:
            e = rr.get("exc") or {}
            _k, _t = engine.reject_mech(rr)
            res["violations"].append({"mech": "shroud-rejects-admitted-library:" + _k, "detail": "%s: %s" % (lib["name"], _t)})
            return res
        out = os.path.join(cwd, "out")
        h, c = ir.library_sources(lib)
        ext = ".hpp" if lib["language"] == "c++" else ".h"
        open(os.path.join(out, lib["name"] + ext), "w").write(h)
        src = lib["name"] + "_impl" + (".cpp" if lib["language"] == "c++" else ".c")
        open(os.path.join(out, src), "w").write(c)
        open(os.path.join(out, "driver.c"), "w").write(gen_driver(lib, ops))
        luasrc = sorted(f for f in os.listdir(out) if f.startswith("lua") and f.endswith((".c", ".cpp")))
        flags = ["-g", "-O0", "-w", "-I", MINILUA, "-I", engine.NATIVE, "-I", "."] + engine.SANF
        objs = []
        for f in [src] + luasrc + [os.path.join(MINILUA, "minilua.c"), "driver.c"]:
            cc = ["g++", "-std=c++11"] if f.endswith(".cpp") else ["gcc", "-std=c99"]
            o = os.path.basename(f) + ".o"
            rc, so, se = engine.sh(cc + flags + ["-c", f, "-o", o], out)
            if rc != 0:
                where, msg = engine.first_error(se)
                kind = "generated-lua-binding-does-not-compile" if f in luasrc else "harness-file-does-not-compile:%s" % os.path.basename(f)
                res["violations"].append({"mech": "%s:%s" % (kind, msg), "detail": "%s: %s\n%s" % (lib["name"], f, se[:2500])})
                if f not in luasrc:
                    res["harness_error"] = se[:800]
                return res
            objs.append(o)
        rc, so, se = engine.sh(["g++"] + engine.SANF + objs + ["-lm", "-o", "driver"], out)
        if rc != 0:
            res["violations"].append({"mech": "link-fails:%s" % engine.first_error(se)[1], "detail": "%s\n%s" % (lib["name"], se[:2000])})
            return res
        env = dict(os.environ)
        env.update(buildfarm.ASAN_ENV)
        env["VF_TRACE"] = os.path.join(out, "trace.log")
        rc, so, se = engine.sh([os.path.join(out, "driver")], out, env=env, timeout=300)
        if rc == -999:
            res["watchdog"] = True
            return res
        trace, marks = engine.parse_trace(open(env["VF_TRACE"]).read() if os.path.exists(env["VF_TRACE"]) else "")
        outs = engine.parse_out(so)
        st = res["stats"]
        st["ops"] = len(ops)
        st["recv_records"] = sum(1 for v in trace.values() for t in v if t[0] == "RECV")
        gen_files = set(os.listdir(out))
        completed = (len(ops) + 1) in marks
        for rp in buildfarm.sanitizer_reports(se):
            if rp["kind"].startswith("lsan"):
                if not completed:
                    continue
                for lb in buildfarm.leak_blocks(se):
                    fu = next(((fn, loc) for fn, loc in lb["frames"][1:] if not fn.startswith(("__interceptor", "operator"))), ("?", ""))
                    res["violations"].append({"mech": "sanitizer:lsan:leak-after-close:%s" % _n(fu[0]), "detail": "%s\n%s" % (lib["name"], lb["text"])})
                continue
            gen, libf = buildfarm.classify_frames(rp["frames"], gen_files)
            res["violations"].append({"mech": "sanitizer:%s:%s" % (rp["kind"], _n(gen or libf or "-")), "detail": "%s\n%s" % (lib["name"], rp["text"])})
        serials, counter, live = {}, 0, 0
        for k, (op, m) in enumerate(zip(ops, meta)):
            got = outs.get(k)
            recs = [t for t in trace.get(k, []) if t[0] == "RECV"]
            f = lib["functions"][m["f"]] if "f" in m else None
            if f is not None and m.get("t"):
                f = ir.instantiate(f, m["t"])
                st["template_instantiation_calls"] = st.get("template_instantiation_calls", 0) + 1
            label = "%s %s(%s)" % (lib["name"], op.get("name"), ", ".join(repr(x) for x in op.get("args", [])))
            if got is None:
                if not res.get("crash_reported"):
                    res["crash_reported"] = True
                    if m["expect"] == "reject":
                        res["violations"].append({"mech": "non-matching-stack-crashes-the-process:%s" % m["why"].split(" :=")[0].split(" ")[0],
                                                  "detail": "%s [%s]: the driver process died here (rc %s)\n%s" % (label, m["why"], rc, se[-600:])})
                    else:
                        res["violations"].append({"mech": "driver-died", "detail": "%s (rc %s)\n%s" % (label, rc, se[-800:])})
                st["ops_not_observed_after_crash"] = st.get("ops_not_observed_after_crash", 0) + 1
                continue
            if got.get("missing"):
                res["violations"].append({"mech": "function-not-registered:%s" % (f.get("shape") if f else "?"), "detail": label})
                continue
            if m["expect"] in ("ok", "new"):
                st["matching_stacks"] = st.get("matching_stacks", 0) + 1
                args = dict(m["args"])
                for p in f["params"]:
                    if p["name"] not in args and "default" in p:
                        args[p["name"]] = ir.default_value(p)
                    if p["name"] in args and p.get("T") in ("float", "double") and isinstance(args[p["name"]], int) and not isinstance(args[p["name"]], bool):
                        args[p["name"]] = float(args[p["name"]])
                if m["expect"] == "new":
                    counter += 1
                    serials[m["obj"]] = counter
                    live += 1
                this = serials.get(m.get("obj")) if (f.get("cls") and not f.get("ctor")) else None
                exp = ir.model_call(f, args, this_serial=this)
                kind = "method" if f.get("cls") and not f.get("ctor") else ("ctor" if f.get("ctor") else f.get("shape"))
                if got.get("error"):
                    res["violations"].append({"mech": "matching-stack-raises-error:%s" % kind, "detail": "%s -> Lua error %s" % (label, got.get("msg"))})
                    if m["expect"] == "new":
                        counter -= 1
                        live -= 1
                        serials.pop(m["obj"], None)
                    continue
                if len(recs) != 1 or recs[0][1] != f["fid"]:
                    res["violations"].append({"mech": "wrong-entry-point:%s" % kind, "detail": "%s reached %r, expected %s" % (label, [t[1] for t in recs], f["fid"])})
                    continue
                wrong_in = False
                for n, want in exp["recv"].items():
                    if recs[0][2].get(n) != want:
                        wrong_in = True
                        res["violations"].append({"mech": "library-received-wrong-value:%s" % kind, "detail": "%s: %s received %s, expected %s" % (label, n, recs[0][2].get(n), want)})
                if wrong_in:
                    continue        # the results follow from the wrong inputs: same defect
                if m["expect"] == "new":
                    if got.get("n") != "i:1" or got.get("r0") != "userdata":
                        res["violations"].append({"mech": "constructor-result-not-userdata", "detail": "%s left %r" % (label, got)})
                else:
                    want = expected_stack(f, exp)
                    if got != want:
                        res["violations"].append({"mech": "results-on-stack-differ:%s" % kind, "detail": "%s left %r, expected %r" % (label, got, want)})
            elif m["expect"] == "reject":
                st["non_matching_stacks"] = st.get("non_matching_stacks", 0) + 1
                if not got.get("error"):
                    res["violations"].append({"mech": "non-matching-stack-accepted:%s:%s" % ("overloaded" if m.get("overloaded") else "single", m["why"].split(" :=")[0].split(" ")[0]),
                                              "detail": "%s [%s] raised no Lua error; library records %r; stack %r" % (label, m["why"], [t[1] for t in recs], got)})
            elif m["expect"] == "del":
                d = [t for t in trace.get(k, []) if t[0] == "DTOR"]
                if m["obj"] in serials:
                    want = "i:%d" % serials[m["obj"]]
                    live -= 1
                    if len(d) != 1 or d[0][2].get("this") != want:
                        res["violations"].append({"mech": "gc:wrong-object-or-count", "detail": "%s __gc of %s: destructor records %r, expected this=%s" % (lib["name"], m["obj"], d, want)})
        # after mini_close every object must have been released exactly once
        final = marks.get(len(ops) + 1)
        if final is not None and final != 0:
            res["violations"].append({"mech": "objects-alive-after-close", "detail": "%s: %d objects alive after lua_close" % (lib["name"], final)})
        if ops:
            res["sample"] = {"library": lib["name"], "op": ops[0], "out": outs.get(0),
                             "trace": [" ".join([t[0], t[1]] + ["%s=%s" % kv for kv in t[2].items()]) for t in trace.get(0, [])]}
        return res
    finally:
        if cwd:
            common.rmtree(cwd)


def _n(s):
    import re
    return re.sub(r"f\d+[a-z0-9]*", "F", s)[:50]


def main(rec):
    thorough = common.tier() == "thorough"
    r = common.rng("c18")
    rec.rule = ("generated libraries of the Lua-capable shapes (scalars, bool, std::string in / result, overloads, default arguments, "
                "classes); argument stacks of matching shape with the value battery, and non-matching stacks (wrong count; each slot "
                "replaced by other Lua types); distinct_nontrivial = stacks whose outcome was compared")
    rec.assumptions = ["TRUSTED BASE: native/minilua (about 500 lines) emulates the Lua 5.3 C API behind the binding; a real Lua is not installable here",
                       "reference model for values; gcc/g++ 12 ASan+UBSan"]
    cases = []
    for lang in ("c++", "c"):
        inst = libs.instances(lang, ("lua",))
        per = 7
        for bi in range(0, len(inst), per):
            lib = libs.build("l%s%d" % ("x" if lang == "c++" else "c", bi // per), lang, inst[bi:bi + per], ("lua",))
            ops, meta = build_plan(lib, common.rng("c18", lang, bi), thorough)
            cases.append({"lib": lib, "ops": ops, "meta": meta})
    for k in range(20 if thorough else 3):
        inst = libs.instances("c++", ("c", "fortran", "lua"))
        lib = libs.build("lm%d" % k, "c++", [r.choice(inst) for _ in range(r.randint(3, 8))], ("c", "fortran", "lua"),
                         namespace=r.choice([None, "outer"]))
        ops, meta = build_plan(lib, r, thorough)
        cases.append({"lib": lib, "ops": ops, "meta": meta})
    # Lua switched off for the library and on for each function individually (also inside namespace blocks)
    import copy as _copy
    inst_all = libs.instances("c++", ("lua",))
    pick = [x for x in inst_all if x[0]["id"] in ("ns_scalar", "default3")] + [x for x in inst_all if x[0]["id"] == "scalar2"][:1]
    sel_libs = [c["lib"] for c in cases if c["lib"]["language"] == "c++"][:2]
    if pick:
        sel_libs.append(libs.build("lns", "c++", pick, ("lua",)))
        sel_libs.append(libs.build("lnso", "c++", pick, ("c", "fortran", "lua"), namespace="outer"))
    for base_lib in sel_libs:
        lib2 = _copy.deepcopy(base_lib)
        lib2["name"] = lib2["name"] + "sel"
        lib2["options"]["wrap_lua"] = False
        for f in lib2["functions"]:
            if not f.get("cls"):
                f.setdefault("yaml", {})
                f["yaml"]["options"] = dict(f["yaml"].get("options") or {}, wrap_lua=True)
        lib2["functions"] = [f for f in lib2["functions"] if not f.get("cls")]
        if lib2["functions"]:
            libs.assign_names(lib2)
            ops2, meta2 = build_plan(lib2, common.rng("c18sel", lib2["name"]), thorough)
            cases.append({"lib": lib2, "ops": ops2, "meta": meta2})
    # the documented name templates and format fields for the binding's internal names (metatable key, userdata type,
    # registration tables, implementation names, local variable names) do not change what a Lua caller sees
    TEMPLATES = [({"LUA_metadata_template": "{library}.{cxx_class}.mt"}, {}),
                 ({"LUA_userdata_type_template": "{LUA_prefix}{cxx_class}_UD", "LUA_userdata_member_template": "obj",
                   "LUA_class_reg_template": "{LUA_prefix}{cxx_class}_Methods", "LUA_module_reg_template": "{LUA_prefix}{library}_Functions"}, {}),
                 ({"LUA_name_impl_template": "{LUA_prefix}impl_{C_name_scope}{underscore_name}"}, {"LUA_prefix": "lx_", "LUA_result": "lrv", "LUA_state_var": "LS"}),
                 ({"LUA_metadata_template": "MT_{cxx_class}", "LUA_userdata_type_template": "UD_{cxx_class}"}, {"LUA_prefix": "q_"})]
    with_cls = [c["lib"] for c in cases if any(f.get("cls") for f in c["lib"]["functions"]) and not c["lib"]["name"].endswith("sel")]
    for ti, (topt, tfmt) in enumerate(TEMPLATES):
        for base_lib in with_cls[:2] if not thorough else with_cls:
            lib3 = _copy.deepcopy(base_lib)
            lib3["name"] = "%st%d" % (base_lib["name"], ti)
            lib3["options"] = dict(lib3["options"], **topt)
            lib3["format"] = dict(lib3.get("format") or {}, **tfmt)
            libs.assign_names(lib3)
            ops3, meta3 = build_plan(lib3, common.rng("c18tmpl", lib3["name"]), thorough)
            cases.append({"lib": lib3, "ops": ops3, "meta": meta3})
    res = pool.run_cases("vf.checks.c18", cases, func="run_library", timeout=1800)
    for c, rr in zip(cases, res):
        if "stats" not in rr:
            workloads.bad_run(rec, {"name": c["lib"]["name"]}, rr)
            continue
        if rr.get("harness_error"):
            rec.inconclusive = "harness: " + rr["harness_error"][:300]
        rec.merge_stats(rr["stats"])
        rec.evaluations += rr["stats"].get("ops", 0)
        if rr.get("sample") and len(rec.samples) < 3:
            rec.samples.append(rr["sample"])
        for v in rr["violations"]:
            rec.violation(v["mech"], v["detail"], {"lib": c["lib"]["name"]})
    rec.distinct_override = rec.counters.get("matching_stacks", 0) + rec.counters.get("non_matching_stacks", 0)
    if rec.counters.get("recv_records", 0) == 0:
        rec.inconclusive = rec.inconclusive or "no library call was observed"


def replay(bundle):
    print("re-run ./check C18")
    return 2
