"""C15 — wrapper selection is honoured; --cfiles/--ffiles match what was written;
every file lands in the directory designated for its kind.

Deciding method: audit-hook file monitor (which emitter opened which path for
writing) + directory snapshots over runs that vary library-level wrap flags,
per-declaration overrides and the five output-directory options; relation
checks between runs that differ only in wrap_python / wrap_lua.
"""
from __future__ import annotations

import copy
import os
import re

from .. import common, corpus, pool, workloads
from ..libgen import gen

LEVEL = "exploration"

EMITTER_LANG = {"Wrapc": "c", "Wrapf": "fortran", "Wrapp": "python", "Wrapl": "lua"}
DIRKEYS = ["c_fortran", "python", "lua", "yaml", "log"]
DIROPT = {"c_fortran": "--outdir-c-fortran", "python": "--outdir-python", "lua": "--outdir-lua",
          "yaml": "--outdir-yaml", "log": "--logdir"}
KIND_DIR = {"Wrapc": "c_fortran", "Wrapf": "c_fortran", "Wrapp": "python", "Wrapl": "lua", "TypeOut": "yaml"}

COMBOS = [(c, f, p, l) for (c, f) in ((0, 0), (1, 0), (1, 1)) for p in (0, 1) for l in (0, 1)]


def strip_wrap_cmdline(cmdline):
    out = []
    i = 0
    while i < len(cmdline):
        if cmdline[i] == "--option" and i + 1 < len(cmdline) and cmdline[i + 1].startswith("wrap_"):
            i += 2
            continue
        out.append(cmdline[i])
        i += 1
    return out


def dir_assignment(r, full=False):
    """Map each kind to a directory name; '' means 'fall back to --outdir'."""
    a = {}
    names = ["d_cf", "d_py", "d_lua", "d_yaml", "d_log"]
    for k, n in zip(DIRKEYS, names):
        c = r.random()
        if full or c < 0.5:
            a[k] = n
        elif c < 0.65:
            a[k] = "shared"      # several kinds share one directory
        else:
            a[k] = ""
    if not a["log"]:
        a["log"] = "out"         # --logdir has no fallback to --outdir: keep logs out of cwd
    return a


def make_spec(name, yaml_rel, yaml_text, links, extra_argv, flags, dirs, decl_flags=None):
    argv = ["--outdir", "out"]
    mk = ["out"]
    for k in DIRKEYS:
        if dirs.get(k):
            argv += [DIROPT[k], dirs[k]]
            if dirs[k] not in mk:
                mk.append(dirs[k])
    argv += ["--cfiles", "lists/cfiles.txt", "--ffiles", "lists/ffiles.txt"]
    mk.append("lists")
    argv += list(extra_argv) + [yaml_rel]
    sp = {"name": name, "dirs": mk, "argv": argv, "monitors": ["files"], "files": {yaml_rel: yaml_text},
          "flags": flags, "diras": dirs, "decl_flags": decl_flags or {}}
    if links:
        sp["links"] = links
    return sp


def judge(rec, sp, r):
    """Single-run oracles (1),(3),(4),(5)."""
    flags = sp["flags"]
    dirs = sp["diras"]
    # names that must not occur in a language's files (constants of an enumeration inside a scope whose wrapper is off)
    for lang_, toks in (sp.get("absent") or {}).items():
        for rel, text in r["outputs"].items():
            is_f = rel.endswith((".f", ".f90"))
            kind_ = "fortran" if is_f else ("python" if os.path.basename(rel).startswith("py") else ("lua" if os.path.basename(rel).startswith("lua") else "c"))
            if kind_ != lang_ or rel.endswith((".json", ".log", ".yaml", ".txt")):
                continue
            code = "\n".join(ln for ln in text.split("\n") if not ln.lstrip().startswith("!" if is_f else "//"))
            for t_ in toks:
                rec.count("absent_name_checks")
                if re.search(r"(?<![A-Za-z0-9])%s(?![A-Za-z0-9])" % re.escape(t_), code, re.I):
                    rec.violation("wrap-off-scope-contents-present:%s:%s" % (lang_, sp.get("absent_kind", "name")),
                                  "%s: %s occurs in %s although the enclosing scope has wrap_%s off" % (sp["name"], t_, rel, lang_), sp)
                    break
    by_kind = {}
    for f in r["events"]["files"]:
        by_kind.setdefault(f["kind"], []).append(f["rel"])
    rec.count("file_write_events", len(r["events"]["files"]))
    overrides_on = {lang: any(v.get(lang) for v in sp["decl_flags"].values()) for lang in ("c", "fortran", "python", "lua")}
    # (1) library-level off => no file of that language
    for em, lang in EMITTER_LANG.items():
        on = flags[lang] or overrides_on[lang]
        if lang == "c":
            on = on or flags["fortran"] or overrides_on["fortran"]
        if not on and by_kind.get(em):
            rec.violation("wrap-off-writes-files:%s" % lang,
                          "%s: wrap_%s off for the whole library but %s wrote %s" % (sp["name"], lang, em, by_kind[em]),
                          sp)
    # (4) directory per kind
    for kind, files in by_kind.items():
        want = None
        if kind in KIND_DIR:
            want = dirs.get(KIND_DIR[kind]) or "out"
        elif kind.startswith("main:"):
            fn = kind.split(":")[1]
            want = None  # judged by name below
        for rel in files:
            d = os.path.dirname(rel)
            if kind == "Wrapp" and os.path.basename(rel) == "setup.py":
                # setup.py is deliberately the build script at the top of --outdir and names
                # the extension sources by their python-directory paths (wrapp.write_setup)
                if d != "out":
                    rec.violation("wrong-directory:setup.py", "%s: %s" % (sp["name"], rel), sp)
                continue
            if want is not None and d != want:
                rec.violation("wrong-directory:%s" % kind,
                              "%s: %s wrote %s, designated directory is %s" % (sp["name"], kind, rel, want), sp)
            if want is None:
                base = os.path.basename(rel)
                if base.endswith((".log", ".json")):
                    if d != (dirs.get("log") or ""):
                        rec.violation("wrong-directory:log", "%s: %s not in logdir %s" % (sp["name"], rel, dirs.get("log")), sp)
                elif rel not in ("lists/cfiles.txt", "lists/ffiles.txt"):
                    rec.violation("unexpected-file:%s" % kind, "%s: %s" % (sp["name"], rel), sp)
    # every file that exists after the run was seen by the monitor (no writer escapes the hook)
    seen = {f["rel"] for f in r["events"]["files"]}
    for rel in r["outputs"]:
        if rel not in seen:
            rec.violation("unmonitored-file", "%s: %s exists but no open-for-write event was seen" % (sp["name"], rel), sp)
    # (3) --cfiles / --ffiles
    for listname, em in (("lists/cfiles.txt", "Wrapc"), ("lists/ffiles.txt", "Wrapf")):
        text = r["outputs"].get(listname)
        if text is None:
            rec.violation("file-list-missing", "%s: %s not written" % (sp["name"], listname), sp)
            continue
        listed = [os.path.normpath(p) for p in text.split()]
        written = sorted(set(os.path.normpath(p) for p in by_kind.get(em, [])))
        if sorted(listed) != written:
            rec.violation("file-list-mismatch:%s" % listname.split("/")[1],
                          "%s: listed %s\nwritten by %s: %s" % (sp["name"], sorted(listed), em, written), sp)
        rec.count("file_list_entries", len(listed))
    # (5) per-declaration presence / absence
    if sp["decl_flags"]:
        text_by_lang = {}
        for em, lang in EMITTER_LANG.items():
            text_by_lang[lang] = "\n".join(r["outputs"].get(rel, "") for rel in by_kind.get(em, [])).lower()
        for stem, fl in sp["decl_flags"].items():
            for lang in ("fortran", "python", "lua", "c"):
                text = text_by_lang[lang]
                for a in sp.get("aux_names", {}).get(stem, []):
                    text = re.sub(r"[a-z0-9_]*%s[a-z0-9_]*" % re.escape(a), " ", text)
                if lang == "fortran" and fl["c"] and not fl["fortran"]:
                    # by design every C wrapper gets a bind(C) interface named c_* in the module
                    # (wrapf.wrap_functions); only user-facing entities count as the Fortran wrapper
                    text = re.sub(r'"[^"\n]*"', '""', text)
                    text = re.sub(r"![^\n]*", "", text)     # debug comments quote the declaration
                    # wrapper procedures live after 'contains'; abstract interfaces for callback
                    # arguments of the c_* interfaces legitimately precede it
                    text = "\n".join(part.split("\ncontains\n", 1)[1] if "\ncontains\n" in part else ""
                                     for part in text.split("end module"))
                    idents = set(re.findall(r"[a-z_][a-z0-9_]*", text))
                    present = any(re.search(r"(?<![a-z0-9])%s(?![a-z0-9])" % re.escape(stem.lower()), i) and not i.startswith("c_") for i in idents)
                else:
                    present = re.search(r"(?<![a-z0-9])%s(?![a-z0-9])" % re.escape(stem.lower()), text) is not None
                want = fl[lang]
                if lang == "c":
                    if fl["fortran"]:
                        continue          # Fortran needs the C wrapper: presence is legitimate
                    if want and sp.get("lang") != "c++":
                        continue          # a C function may need no wrapper at all
                if not fl.get("lang_ok", {}).get(lang, True):
                    continue
                rec.count("decl_presence_checks")
                if present != bool(want):
                    rec.violation("decl-wrap-flag:%s:%s" % (lang, "missing" if want else "present"),
                                  "%s: declaration %s has wrap_%s=%s but is %s in the %s output" % (
                                      sp["name"], stem, lang, want, "present" if present else "absent", lang), sp)


def main(rec):
    thorough = common.tier() == "thorough"
    r = common.rng("c15")
    rec.rule = ("one execution = (description, library-level wrap_c/fortran/python/lua combination with fortran=>c, "
                "per-declaration overrides, assignment of the five directory options); distinct_nontrivial = distinct "
                "such tuples in which at least one wrapper file was written")
    rec.assumptions = ["the kind of a file is the emitter instance (Wrapc/Wrapf/Wrapp/Wrapl/TypeOut) on the stack when "
                       "it was opened for writing"]
    specs = []
    # corpus x all 12 combos
    cfgs = corpus.configs()
    if not thorough:
        cfgs = [c for i, c in enumerate(cfgs) if i % 2 == common.seed() % 2]
    for c in cfgs:
        text = corpus.yaml_text(c)
        das = dir_assignment(r, full=True) if r.random() < 0.4 else dir_assignment(r)
        for (fc, ff, fp, fl) in COMBOS:
            flags = {"c": fc, "fortran": ff, "python": fp, "lua": fl}
            y = workloads.with_options(text, {"wrap_c": bool(fc), "wrap_fortran": bool(ff), "wrap_python": bool(fp),
                                              "wrap_lua": bool(fl)})
            d = workloads.load_yaml(y)
            # drop per-declaration wrap_* overrides of the upstream file: library level is what is tested here
            for k in ("declarations",):
                _strip_decl_wrap(d.get(k))
            y = workloads.dump_yaml(d)
            argv = ["--path", "input"] + strip_wrap_cmdline(c["cmdline"])
            argv = [a for a in argv if a not in ("--write-helpers", "helpers", "--write-statements", "statements",
                                                 "--yaml-types", "def_types.yaml")]
            sp = make_spec("%s@%d%d%d%d" % (c["name"], fc, ff, fp, fl), "work/" + c["yaml"], y,
                           {"input": os.path.join(common.REPO, "regression", "input")}, argv, flags, das)
            sp["group"] = (c["name"], fc, ff)
            specs.append(sp)
    # generated libraries with per-declaration overrides
    extra_specs = []
    libs = gen.libraries(thorough, count=(80 if thorough else 16), salt="c15")
    all_libs = libs
    libs = [x for x in libs if x[0].startswith("gmix")] + [x for i, x in enumerate(libs) if not x[0].startswith("gmix") and (thorough or i % 5 == common.seed() % 5)]
    for name, d, meta in libs:
        d = copy.deepcopy(d)
        lib_flags = {"c": int(d["options"]["wrap_c"]), "fortran": int(d["options"]["wrap_fortran"]),
                     "python": int(d["options"]["wrap_python"]), "lua": int(d["options"]["wrap_lua"])}
        if lib_flags["fortran"]:
            lib_flags["c"] = 1
            d["options"]["wrap_c"] = True
        decl_flags = {}
        stem_opts = {}
        aux = {}
        nest = []
        rows = {x["id"]: x for x in gen.R.ROWS}
        def walk(ents):
            # functions inside namespace blocks are override targets of their own (the namespace entry itself is not)
            for e_ in ents:
                if e_.get("decl", "").lstrip().startswith("namespace") and e_.get("declarations"):
                    for x in walk(e_["declarations"]):
                        yield x
                else:
                    yield e_
        for ent in walk(d["declarations"]):
            dec = ent["decl"]
            m = re.search(r"\b(f\d+[a-z0-9]+)", dec)
            if m and dec.lstrip().startswith(("enum", "struct", "typedef")):
                # types carry no wrap flag: their names (and enumerators / members) are not the function's wrapper
                aux.setdefault(m.group(1), set()).update(x.lower() for x in re.findall(r"\b%s_\w+" % re.escape(m.group(1)), dec))
            if not m or dec.lstrip().startswith(("enum", "struct", "typedef", "namespace", "extern")):
                continue
            stem = m.group(1)
            first = stem not in decl_flags
            fl = dict(lib_flags)
            if r.random() < 0.6:
                ov = {}
                for lang in ("c", "fortran", "python", "lua"):
                    if r.random() < 0.5:
                        ov[lang] = r.choice([0, 1])
                if ov.get("fortran", fl["fortran"]) and not ov.get("c", fl["c"]):
                    ov["c"] = 1
                # only switch a language on if the row supports it
                rowid = _row_of(stem, rows)
                sup = rows[rowid]["wraps"] if rowid else ()
                ov = {k: v for k, v in ov.items() if not v or k in sup}
                if ov:
                    stem_opts[stem] = {"wrap_" + k: bool(v) for k, v in ov.items()}
                    if r.random() < 0.3 and any(ent is t for t in d["declarations"]):
                        # the same flags written on a block that holds the declaration inside a second, empty block
                        nest.append((ent, dict(stem_opts[stem])))
                    else:
                        ent.setdefault("options", {}).update(stem_opts[stem])
                    fl.update(ov)
            if (re.search(r"std::vector\s*<[^>]*>\s*[&*]?\s*\w+\s*[,)+]", dec) or re.match(r"\s*(const\s+)?std::(string|vector\s*<[^>]*>)\s+\w+\s*\(", dec)) and not fl["fortran"]:
                # a function with std::vector arguments or a std::string result by value has no plain C entry point
                # (only the Fortran-facing bufferify one, see vf/drivers/c.py): without Fortran nothing is emitted in C
                fl.setdefault("lang_ok", {})["c"] = False
            if (ent.get("options") or {}).get("C_extern_C"):
                # a function that already has C linkage and needs no conversion is its own C API: no wrapper is written
                fl.setdefault("lang_ok", {})["c"] = False
            if first:
                decl_flags[stem] = fl
            elif {k: fl[k] for k in ("c", "fortran", "python", "lua")} != {k: decl_flags[stem][k] for k in ("c", "fortran", "python", "lua")}:
                # several entries of one row share a stem (overloads, base and derived class) and their flags differ:
                # presence of the stem in an output says nothing about one entry (the toggle comparison still applies)
                decl_flags[stem]["lang_ok"] = {k: False for k in ("c", "fortran", "python", "lua")}
                for k in ("c", "fortran", "python", "lua"):
                    decl_flags[stem][k] = max(decl_flags[stem][k], fl[k])      # "switched on somewhere" for the file-level oracle
        for ent_, opts_ in nest:
            i_ = next(i for i, t in enumerate(d["declarations"]) if t is ent_)
            d["declarations"][i_] = {"block": True, "options": opts_, "declarations": [{"block": True, "declarations": [ent_]}]}
        das = dir_assignment(r)
        y = workloads.dump_yaml(d)
        sp = make_spec(name, "work/%s.yaml" % name, y, None, [], lib_flags, das, decl_flags)
        sp["lang"] = d["language"]
        sp["aux_names"] = {k: sorted(v, key=len, reverse=True) for k, v in aux.items()}
        # the same description with the library-level Python / Lua switches flipped: C and Fortran bytes must not move
        sp["group"] = ("ovr", name)
        for which in ("wrap_python", "wrap_lua"):
            d2 = copy.deepcopy(d)
            d2["options"][which] = not d2["options"].get(which, False)
            sp2 = make_spec(name + "~" + which, "work/%s.yaml" % name, workloads.dump_yaml(d2), None, [], dict(lib_flags, **{which[5:]: int(d2["options"][which])}), das, {})
            sp2["lang"] = d["language"]
            sp2["group"] = ("ovr", name)
            sp2["toggle_only"] = True
            extra_specs.append(sp2)
        specs.append(sp)
    # a wrapper switched on only on a function that sits inside (nested) namespace blocks, everything else off
    allrows = {x["id"]: x for x in gen.R.ROWS}
    for rid in ("namespace_scalar", "namespace_fn"):
        rw = allrows.get(rid)
        if not rw:
            continue
        # where: every function / only the ones in the innermost namespace / only the ones directly in the outer one
        for lang_on, where in [(l_, w_) for l_ in ("c", "fortran", "python", "lua") for w_ in ("all", "deep", "outer")]:
            if lang_on not in rw["wraps"]:
                continue
            d = gen.library("nson_%s_%s%s" % (rid.replace("_", ""), lang_on, "" if where == "all" else where), "c++", [(rw, None)], ())
            d["options"].update({"wrap_c": False, "wrap_fortran": False, "wrap_python": False, "wrap_lua": False})
            flags = {}
            def walk2(ents, depth=0):
                for e_ in ents:
                    if e_.get("declarations") and e_["decl"].lstrip().startswith("namespace"):
                        walk2(e_["declarations"], depth + 1)
                    else:
                        m_ = re.search(r"\b(f\d+[a-z0-9]+(?:_[a-z]+)?)\s*\(", e_["decl"])
                        if m_:
                            here = where == "all" or (where == "deep" and depth >= 2) or (where == "outer" and depth == 1)
                            on = {"wrap_" + lang_on: True}
                            if lang_on == "fortran":
                                on["wrap_c"] = True
                            if here:
                                e_.setdefault("options", {}).update(on)
                            fl_ = {"c": int(here and lang_on in ("c", "fortran")), "fortran": int(here and lang_on == "fortran"),
                                   "python": int(here and lang_on == "python"), "lua": int(here and lang_on == "lua")}
                            flags[m_.group(1)] = fl_
            walk2(d["declarations"])
            sp = make_spec(d["library"], "work/%s.yaml" % d["library"], workloads.dump_yaml(d), None, [],
                           {"c": 0, "fortran": 0, "python": 0, "lua": 0}, dir_assignment(r), flags)
            sp["lang"] = "c++"
            specs.append(sp)
    # fixed part: in a library wrapped for all four languages every second function has one language switched off (and,
    # the other way round, one language is off for the library and switched on for every second function)
    allw = [x for x in gen.instances("c++", ("c", "fortran", "python", "lua")) if x[0]["id"] in ("scalar2", "mixed", "bool1", "void0", "default2", "str_cref", "overload2")]
    seen_ids = set()
    fixed_items = [x for x in allw if not (x[0]["id"] in seen_ids or seen_ids.add(x[0]["id"]))]
    for lang_t in ("c", "fortran", "python", "lua"):
        for mode in ("off-on-some", "on-on-some"):
            for parity in (0, 1):
                nm = "ovrfix_%s_%s%d" % (lang_t, mode.split("-")[0], parity)
                d = gen.library(nm, "c++", fixed_items, ("c", "fortran", "python", "lua"))
                lib_on = mode == "off-on-some"
                lib_flags = {"c": 1, "fortran": 1, "python": 1, "lua": 1}
                if not lib_on:
                    lib_flags[lang_t] = 0
                    if lang_t == "c":
                        lib_flags["fortran"] = 0
                for k_, v_ in lib_flags.items():
                    d["options"]["wrap_" + k_] = bool(v_)
                decl_flags = {}
                stems_ = []
                for ent in d["declarations"]:
                    m_ = re.search(r"\b(f\d+[a-z0-9]+)", ent["decl"])
                    if m_ and m_.group(1) not in stems_:
                        stems_.append(m_.group(1))
                for ent in d["declarations"]:
                    m_ = re.search(r"\b(f\d+[a-z0-9]+)", ent["decl"])
                    if not m_:
                        continue
                    st_ = m_.group(1)
                    fl = dict(lib_flags)
                    if stems_.index(st_) % 2 == parity:
                        val = not lib_on
                        ov = {"wrap_" + lang_t: val}
                        fl[lang_t] = int(val)
                        if lang_t == "c" and not val:
                            ov["wrap_fortran"] = False
                            fl["fortran"] = 0
                        if lang_t == "fortran" and val:
                            ov["wrap_c"] = True
                            fl["c"] = 1
                        ent.setdefault("options", {}).update(ov)
                    decl_flags[st_] = fl
                sp = make_spec(nm, "work/%s.yaml" % nm, workloads.dump_yaml(d), None, [], lib_flags, dir_assignment(r), decl_flags)
                sp["lang"] = "c++"
                specs.append(sp)
    # a namespace whose wrapper for one language is off (with and without F_flatten_namespace / nested inside another
    # namespace): the constants of an enumeration declared in it do not appear in that language's files
    for lang_off in ("fortran", "python"):
        for flat in (False, True):
            for nested in (False, True):
                nm = "nsoff_%s%s%s" % (lang_off, "_flat" if flat else "", "_nested" if nested else "")
                inner = {"decl": "namespace detail", "options": dict({"wrap_" + lang_off: False}, **({"F_flatten_namespace": True} if flat else {})),
                         "declarations": [{"decl": "enum Shade { VFDARKSHADE = 3, VFLIGHTSHADE }"}, {"decl": "int vfperimeter(int a)"}]}
                decls_ = [{"decl": "int vfarea(int a)"}, ({"decl": "namespace outerpart", "declarations": [{"decl": "int vfedge(int a)"}, inner]} if nested else inner)]
                d = {"library": nm, "cxx_header": nm + ".hpp", "language": "c++",
                     "options": {"wrap_c": True, "wrap_fortran": True, "wrap_python": lang_off == "python", "wrap_lua": False}, "declarations": decls_}
                sp = make_spec(nm, "work/%s.yaml" % nm, workloads.dump_yaml(d), None, [],
                               {"c": 1, "fortran": 1, "python": int(lang_off == "python"), "lua": 0}, dir_assignment(r), {})
                sp["lang"] = "c++"
                sp["absent"] = {lang_off: ["vfdarkshade", "vflightshade"]}
                sp["absent_kind"] = "enum-constant:%s%s" % ("flattened" if flat else "module", ":nested" if nested else "")
                specs.append(sp)
    # overload sets of which one member is switched off for C and Fortran only (it then follows the library-level
    # Python / Lua switches): the names of the remaining members must not depend on those switches
    # (every single-row library with an overload set takes part in every run)
    for name, d, meta in libs + [x for x in all_libs if x not in libs and not x[0].startswith("gmix")]:
        ents = [e for e in d["declarations"] if re.search(r"\b(f\d+[a-z0-9]+)\s*\(", e["decl"])]
        by = {}
        for e in ents:
            by.setdefault(re.search(r"\b(f\d+[a-z0-9]+)\s*\(", e["decl"]).group(1), []).append(e)
        multi = {k: v for k, v in by.items() if len(v) > 1}
        if not multi or not (d["options"].get("wrap_c") or d["options"].get("wrap_fortran")):
            continue
        for which in (0, -1):
            base = copy.deepcopy(d)
            base["options"].update({"wrap_c": True, "wrap_python": False, "wrap_lua": False})
            for e in base["declarations"]:
                m = re.search(r"\b(f\d+[a-z0-9]+)\s*\(", e["decl"])
                if m and m.group(1) in multi and e["decl"] == multi[m.group(1)][which]["decl"]:
                    e.setdefault("options", {}).update({"wrap_c": False, "wrap_fortran": False})
            das = dir_assignment(r)
            for tog in (None, "wrap_python", "wrap_lua"):
                d2 = copy.deepcopy(base)
                if tog:
                    d2["options"][tog] = True
                nm = "%s~partial%d~%s" % (name, which, tog or "off")
                sp2 = make_spec(nm, "work/%s.yaml" % name, workloads.dump_yaml(d2), None, [],
                                {"c": 1, "fortran": int(d2["options"]["wrap_fortran"]), "python": int(d2["options"]["wrap_python"]),
                                 "lua": int(d2["options"]["wrap_lua"])}, das, {})
                sp2["lang"] = d["language"]
                sp2["group"] = ("partial", name, which)
                sp2["toggle_only"] = True
                extra_specs.append(sp2)
    # the same in one Python process after other libraries were wrapped (shroud.main.main() / create_wrapper called
    # repeatedly, docs/installing.rst): the lists name exactly what THIS run wrote
    hist_src = [sp_ for sp_ in specs if sp_["name"].startswith(("ovrfix_", "nson_", "nsoff_"))]
    for hi, sp_ in enumerate(hist_src[:: max(1, len(hist_src) // 12)]):
        before = [hist_src[(hi * 7 + 3) % len(hist_src)], hist_src[(hi * 5 + 1) % len(hist_src)]]
        hs = dict(sp_, name=sp_["name"] + "+after-others", seq=[dict(b_) for b_ in before] + [dict(sp_)], last_run_events=True)
        specs.append(hs)
    specs.extend(extra_specs)
    res = pool.run_cases("vf.shroudrun", specs, timeout=300)
    groups = {}
    for sp, rr in zip(specs, res):
        if workloads.bad_run(rec, sp, rr):
            continue
        rec.count("shroud_runs")
        nfiles = len(rr["events"]["files"])
        rec.case(key="%s|%s|%s" % (sp["name"], sorted(sp["diras"].items()), len(sp["decl_flags"])) if nfiles > 2 else None,
                 sample={"name": sp["name"], "flags": sp["flags"], "dirs": sp["diras"],
                         "files": sorted(f["rel"] + ":" + f["kind"] for f in rr["events"]["files"])[:12]})
        if not sp.get("toggle_only"):
            judge(rec, sp, rr)
        if "group" in sp:
            groups.setdefault(tuple(sp["group"]), []).append((sp, rr))
    # (2) toggling python / lua never changes C or Fortran files
    for g, lst in groups.items():
        ref_sp, ref = lst[0]
        refcf = _cf_files(ref)
        for sp, rr in lst[1:]:
            rec.count("toggle_pairs")
            cf = _cf_files(rr)
            if set(cf) != set(refcf):
                rec.violation("toggle-changes-cf-fileset", "%s vs %s: %s" % (ref_sp["name"], sp["name"],
                                                                             sorted(set(cf) ^ set(refcf))), sp)
            for k in set(cf) & set(refcf):
                if cf[k] != refcf[k]:
                    rec.violation("toggle-changes-cf-bytes", "%s vs %s: %s differs" % (ref_sp["name"], sp["name"], k), sp)
    if rec.counters.get("file_write_events", 0) == 0:
        rec.inconclusive = "file monitor saw no events"


def _cf_files(rr):
    return {f["rel"]: rr["outputs"].get(f["rel"]) for f in rr["events"]["files"] if f["kind"] in ("Wrapc", "Wrapf")}


def _strip_decl_wrap(d):
    if isinstance(d, dict):
        for k, v in list(d.items()):
            if k == "options" and isinstance(v, dict):
                for kk in list(v):
                    if kk.startswith("wrap_"):
                        del v[kk]
            else:
                _strip_decl_wrap(v)
    elif isinstance(d, list):
        for x in d:
            _strip_decl_wrap(x)


def _row_of(stem, rows):
    m = re.match(r"f\d+(.*)", stem)
    if not m:
        return None
    rest = m.group(1)
    best = None
    for rid in rows:
        k = rid.replace("_", "")
        if rest.startswith(k) and (best is None or len(k) > len(best.replace("_", ""))):
            best = rid
    return best


def replay(bundle):
    sp = bundle["case"]
    rr = pool.run_cases("vf.shroudrun", [sp])[0]
    rec = common.Recorder("C15")
    judge(rec, sp, rr)
    for mech, detail, _ in rec.violations:
        print(mech, detail)
    if rec.violations:
        print("VIOLATION property=C15 replay=replayed")
        return 1
    return 0
