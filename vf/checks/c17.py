"""C17 — invalid input is rejected with a diagnostic, never by an internal failure.

Deciding method: exception / parser-position / watchdog monitors around the
real entry points (declast.check_decl; the full pipeline through the command
line driver) while they are driven with valid declarations, single-token
mutations, random token sequences, attribute name x value fuzz, documented
illegal combinations and YAML structure fuzz.  Findings are keyed by
mechanism (entry point, exception class, innermost shroud function,
normalised message), never by the random input.
"""
from __future__ import annotations

import copy
import os
import random
import re
import signal

from .. import common, corpus, pool, workloads
from ..libgen import gen

LEVEL = "exploration"

DIAG = ("RuntimeError", "NotImplementedError", "SystemExit", "DeprecationWarning",
        # the operating system's own message names the offending file
        "FileNotFoundError", "IsADirectoryError", "NotADirectoryError", "PermissionError")

SEEDS = [
    "int", "int var1", "const int var1", "int *var1", "const int * var1", "int * const var1", "int **var1",
    "int &var1", "const int &var1", "int *&var1", "char *name", "const char *name", "char **names",
    "unsigned int u", "long long ll", "unsigned long long ull", "long int li", "short int si", "size_t n",
    "int32_t i32", "int64_t i64", "float f", "double d", "bool flag", "void *addr", "void **addr",
    "int var1[20]", "int var2[20][10]", "double arr[N]", "char name[20]",
    "void foo()", "void foo(void)", "int foo(int a)", "double foo(double a, int b)", "void foo(int a, int b, int c)",
    "const std::string &getName()", "std::string getName() const", "const std::string * getPtr()",
    "void foo(const std::string &name)", "void foo(std::string *name +intent(out))",
    "void foo(std::vector<int> &v)", "int foo(const std::vector<double> &v +intent(in))",
    "void foo(int *a +intent(out))", "void foo(int *a +intent(inout)+rank(1), int n +implied(size(a)))",
    "void foo(int *a +intent(out)+dimension(n), int n)", "void foo(double *x +rank(2))",
    "void foo(char *s +intent(out)+charlen(30))", "const char *foo() +len(30)", "int *foo() +dimension(10)",
    "int *foo() +deref(scalar)", "int *foo() +owner(caller)", "void foo(int a = 1)", "void foo(int a = 1, bool b = true)",
    "void foo(double d = 3.14)", "void foo(const std::string &s = \"abc\")", "void foo(int a +value)",
    "int (*func)(int)", "void foo(int (*cb)(int, double))", "void foo(void (*cb)(void) +external)",
    "Class1 *getclass()", "const Class1 &getref()", "void useclass(const Class1 *arg)", "void useclass(Class1 arg)",
    "Color colorfunc(Color c)", "TypeID typefunc(TypeID t)", "void foo(Struct1 *s)", "Struct1 retstruct(int i)",
    "ns1::Inner *getinner()", "void foo(ns1::Inner &i)", "static int count()", "extern int global_flag;",
    "int foo(int a);", "void foo(int a +intent(in), int *b +intent(out)+hidden)",
    "void foo(int *a +rank=1)", "void foo(void *addr +assumedtype)", "void foo(int **a +intent(out)+deref(pointer)+dimension(n), int *n+intent(out)+hidden)",
    "typedef int TypeID2", "enum Color2 { RED2, BLUE2 = 3, WHITE2 }", "enum class Color3 { A, B }",
    "struct S2 { int i; double d; };", "namespace ns2", "class Class9", "class Class9 : public Class1",
    "template<typename T> void tfoo(T arg)", "template<typename T, typename U> void tfoo2(T a, U b)",
    "template<typename T> class vec", "Class1()", "Class1(int flag)", "~Class1()", "int method1() const",
    "void foo(std::vector<std::string> &v)", "volatile int x", "const volatile int *p", "int const x",
    "void foo(const int *const *pp)", "unsigned u2", "double complex z",
]
# numeric literal spellings of the token grammar (docs/input.rst default values; C++ floating literals with a fraction,
# an exponent, or both): each is a valid default value and must be carried with its value
NUM_LITERALS = ["0", "7", "42", "3.14", "1.", ".5", "0.25", "1.5e3", "2.e-3", ".5e1", "1e-6", "1E+3", "2e5", "6E2", "1.e+2", "12e0"]
SEEDS += ["void foo(double tol = %s)" % x for x in NUM_LITERALS]
SEEDS += ["void foo(int a, double scale = 1e3, bool on = false)", "double arr2[2][3][4]", "void foo(const int m[2][3])"]
CLASS_SCOPE_ONLY = {"Class1()", "Class1(int flag)", "~Class1()", "int method1() const"}

ALPHABET = ["int", "double", "char", "void", "bool", "const", "unsigned", "long", "static", "struct", "enum", "class",
            "template", "typename", "namespace", "std", "string", "vector", "Class1", "Color", "foo", "a", "b", "n",
            "(", ")", "[", "]", "{", "}", "<", ">", "*", "&", ",", ";", "::", ":", "=", "+", "-", "/", "~", "...",
            "1", "20", "3.5", "\"s\"", "'c'", "+intent", "+rank", "+dimension", "in", "out", "size", "@", "$", "#", "\\", "?"]


def make_namespace():
    from shroud import ast, typemap
    typemap.initialize()
    lib = ast.LibraryNode(library="cc")
    cls = lib.add_class("Class1")
    lib.add_enum("enum Color { RED, BLUE, WHITE }")
    lib.add_typedef("typedef int TypeID")
    lib.add_struct("struct Struct1 { int i; double d; };")
    ns = lib.add_namespace("ns1")
    ns.add_class("Inner")
    return lib, cls


def tokens_of(text):
    return re.findall(r"[A-Za-z_][A-Za-z_0-9]*|\d+\.\d*|\d+|::|\.\.\.|\"[^\"]*\"|'[^']*'|\S", text)


def join(toks):
    out = []
    for i, t in enumerate(toks):
        if out and (re.match(r"\w", t[0]) and re.match(r"\w", out[-1][-1])):
            out.append(" ")
        elif out and r_space(out[-1], t):
            out.append(" ")
        out.append(t)
    return "".join(out)


def r_space(a, b):
    return a in (",", ";") or (a == "+" and False)


def balanced(text):
    t = re.sub(r"\"[^\"]*\"|'[^']*'", "", text)
    for o, c in ("()", "[]", "{}"):
        depth = 0
        for ch in t:
            if ch == o:
                depth += 1
            elif ch == c:
                depth -= 1
                if depth < 0:
                    return False
        if depth != 0:
            return False
    return True


class Watchdog(Exception):
    pass


def _alarm(signum, frame):
    raise Watchdog()


def norm_msg(msg):
    m = (msg or "").split("\n")
    first = m[-1] if m and m[0] == "Parse Error" else (m[0] if m else "")
    first = re.sub(r"'[^']*'|\"[^\"]*\"", "'X'", first)
    first = re.sub(r"\d+", "N", first)
    return first[:70]


def parse_chunk(case):
    """Drive declast.check_decl with a chunk of inputs (child process)."""
    from shroud import declast
    from .. import shroudrun
    r = random.Random(case["seed"])
    lib, cls = make_namespace()
    captured = {}
    orig = declast.Parser.decl_statement

    def decl_statement(self):
        captured["p"] = self
        return orig(self)
    declast.Parser.decl_statement = decl_statement
    signal.signal(signal.SIGALRM, _alarm)

    stats = {"inputs": 0, "accepted": 0, "rejected_with_diagnostic": 0, "valid_seeds_checked": 0}
    viol = []
    mechs = set()
    samples = []

    def run(text, ns, kind, valid=False):
        stats["inputs"] += 1
        captured.clear()
        signal.setitimer(signal.ITIMER_REAL, 5.0)
        try:
            try:
                declast.check_decl(text, namespace=ns)
            finally:
                signal.setitimer(signal.ITIMER_REAL, 0)
        except Watchdog:
            viol.append({"mech": "check_decl:no-return-within-5s", "detail": repr(text), "case": {"decl": text, "kind": kind}})
            return
        except BaseException as e:
            info = shroudrun.exc_info(e)
            tname = type(e).__name__
            if tname in DIAG:
                stats["rejected_with_diagnostic"] += 1
                mechs.add("diag:" + norm_msg(str(e)))
                if valid:
                    viol.append({"mech": "check_decl:documented-declaration-rejected:" + norm_msg(str(e)),
                                 "detail": "%r -> %s: %s" % (text, tname, str(e)[:300]), "case": {"decl": text, "kind": kind}})
                else:
                    msg = str(e)
                    toks = [t for t in tokens_of(text) if len(t) > 0]
                    if not msg.strip():
                        viol.append({"mech": "check_decl:empty-diagnostic:" + str(info["where"]), "detail": repr(text),
                                     "case": {"decl": text, "kind": kind}})
                    elif text.strip() and text.strip() not in msg and not any(t in msg for t in toks if len(t) > 1 or not t.isalnum()):
                        viol.append({"mech": "check_decl:diagnostic-lacks-offending-text:" + norm_msg(msg),
                                     "detail": "%r -> %s" % (text, msg[:300]), "case": {"decl": text, "kind": kind}})
            else:
                viol.append({"mech": "check_decl:%s:%s:%s" % (tname, info["where"], norm_msg(str(e))),
                             "detail": "%r -> %s: %s\n%s" % (text, tname, str(e)[:300], info["tb"][-900:]),
                             "case": {"decl": text, "kind": kind}})
            return
        stats["accepted"] += 1
        p = captured.get("p")
        if p is not None and p.token.typ != "EOF":
            viol.append({"mech": "check_decl:trailing-text-accepted", "detail": "%r accepted, parser stopped at %r" % (text, p.token),
                         "case": {"decl": text, "kind": kind}})
        elif not balanced(text):
            viol.append({"mech": "check_decl:unbalanced-text-accepted", "detail": repr(text), "case": {"decl": text, "kind": kind}})
        if len(samples) < 2 and kind != "seed":
            samples.append({"decl": text, "kind": kind, "outcome": "accepted"})

    if case.get("seeds"):
        for s in SEEDS:
            ns = cls if s in CLASS_SCOPE_ONLY else lib
            stats["valid_seeds_checked"] += 1
            run(s, ns, "seed", valid=True)
        for lit in NUM_LITERALS:
            text = "void scale(int n, double tol = %s)" % lit
            stats["inputs"] += 1
            try:
                got = declast.check_decl(text, namespace=lib).params[1].init
                if float(got) != float(lit):
                    viol.append({"mech": "check_decl:default-value-literal-changed", "detail": "%r parsed with default %r" % (text, got),
                                 "case": {"decl": text, "kind": "seed"}})
                stats["literal_defaults_checked"] = stats.get("literal_defaults_checked", 0) + 1
            except Exception:
                pass    # reported by the seed loop above as a rejected documented declaration
    for _ in range(case["n"]):
        c = r.random()
        s = r.choice(SEEDS)
        ns = cls if (s in CLASS_SCOPE_ONLY or r.random() < 0.1) else lib
        toks = tokens_of(s)
        if c < 0.2 and len(toks) > 1:
            i = r.randrange(len(toks))
            t2 = toks[:i] + toks[i + 1:]
            kind = "delete"
        elif c < 0.4:
            i = r.randrange(len(toks))
            t2 = toks[:i + 1] + toks[i:]
            kind = "duplicate"
        elif c < 0.65:
            i = r.randrange(len(toks))
            t2 = toks[:i] + [r.choice(ALPHABET)] + toks[i + 1:]
            kind = "substitute"
        elif c < 0.8 and len(toks) > 1:
            i = r.randrange(len(toks) - 1)
            t2 = toks[:i] + [toks[i + 1], toks[i]] + toks[i + 2:]
            kind = "transpose"
        elif c < 0.9:
            i = r.randrange(len(toks) + 1)
            t2 = toks[:i] + [r.choice(ALPHABET)] + toks[i:]
            kind = "insert"
        else:
            t2 = [r.choice(ALPHABET) for _ in range(r.randint(1, 12))]
            kind = "random"
        run(join(t2), ns, kind)
    return {"stats": stats, "violations": viol[:200], "n_viol": len(viol), "mechs": sorted(mechs), "samples": samples}


# ------------------------------------------------------------------ pipeline level

ATTR_NAMES = ["intent", "rank", "dimension", "implied", "hidden", "value", "len", "len_trim", "charlen", "deref", "owner",
              "external", "assumedtype", "name", "readonly", "free_pattern", "capsule", "cdesc", "context", "size",
              "default", "pure", "allocatable", "intnet", "rnak", "dimention", "bogus_attr"]
ATTR_VALUES = [None, "in", "out", "inout", "1", "2", "9", "n", "size(a)", "..", "3,4", "allocatable", "pointer", "raw",
               "scalar", "caller", "library", "foo(", "a+", "", "1.5", "-1", "x y"]

BASE_DECLS = [
    ("void {n}(int a{A})", "arg"), ("void {n}(int *a{A})", "arg"), ("void {n}(const char *a{A})", "arg"),
    ("void {n}(char *a{A})", "arg"), ("void {n}(double *a{A}, int n)", "arg"), ("void {n}(int **a{A})", "arg"),
    ("void {n}(std::string &a{A})", "arg"), ("void {n}(std::vector<int> &a{A})", "arg"), ("void {n}(int &a{A})", "arg"),
    ("void {n}(void *a{A})", "arg"), ("void {n}(bool a{A})", "arg"), ("void {n}(Thing *a{A})", "arg"),
    ("int {n}(void){A}", "fcn"), ("int *{n}(void){A}", "fcn"), ("const char *{n}(void){A}", "fcn"),
    ("const std::string &{n}(void){A}", "fcn"), ("void {n}(void){A}", "fcn"), ("Thing *{n}(void){A}", "fcn"),
    ("std::vector<int> {n}(void){A}", "fcn"),
]

ILLEGAL = [
    "void {n}(int a +value+dimension(3))", "void {n}(int *a +rank(1)+dimension(3))", "void {n}(int a +intent(out))",
    "void {n}(int a +deref(pointer))", "void {n}(int *a +charlen(3))", "void {n}(int a +rank(1))",
    "void {n}(int *a +rank(8))", "void {n}(int *a +rank(x))", "void {n}(int *a +intent(inn))",
    "void {n}(int *a +implied(size(b)))", "void {n}(int n +implied(size(a,b,c)), int *a)", "void {n}(int a +len(3))",
    "void {n}(char *a +dimension(..))", "void {n}(int *a +deref(bogus))", "void {n}(int *a +owner(nobody))",
    "int {n}(void) +intent(in)", "void {n}(void) +dimension(3)", "int {n}(void) +deref(pointer)",
    "void {n}(int *a +intent(out)+value)", "void {n}(int *a +hidden)", "void {n}(int a +external)",
    "void {n}(int *a +dimension)", "void {n}(int *a +rank)", "void {n}(int *a +intent)", "void {n}(int *a +implied)",
    "void {n}(int *a +dimension(n)", "void {n}(int *a +dimension(n)))", "void {n}(int a, int a)",
    "void {n}(Unknown a)", "Unknown {n}()", "void {n}(std::vector<Unknown> &v)", "void {n}(std::map<int,int> &m)",
    "void {n}(int a = )", "void {n}(int a,)", "void {n}(", "void {n})", "void ()", "{n}", "int {n}(int) extra",
    "void {n}(int a) const const", "void {n}(int a +intent(in)) +bogus(", "void {n}(int *a +allocatable(3))",
    "void {n}(char **a +intent(out))", "void {n}(std::string **a)", "void {n}(std::vector<std::string> &a +intent(out))",
    "void {n}(std::vector<std::vector<int>> &a)", "void {n}(const std::vector<int> *a)",
]

# inputs that are errors by the documentation / by C++ itself: acceptance is "silently accepted"
MUST_REJECT = [
    "void {n}(int a +value+dimension(3))", "void {n}(int *a +rank(1)+dimension(3))", "void {n}(int a +intent(out))",
    "void {n}(int a +deref(pointer))", "void {n}(int *a +charlen(3))", "void {n}(int a +rank(1))",
    "void {n}(int *a +rank(8))", "void {n}(int *a +rank(x))", "void {n}(int *a +intent(inn))",
    "void {n}(int *a +implied(size(b)))", "void {n}(int *a +deref(bogus))", "void {n}(int *a +owner(nobody))",
    "int {n}(void) +intent(in)", "void {n}(void) +dimension(3)", "int {n}(void) +deref(pointer)",
    "void {n}(int *a +dimension)", "void {n}(int *a +rank)", "void {n}(int *a +intent)", "void {n}(int *a +implied)",
    "void {n}(int *a +dimension(n)", "void {n}(int *a +dimension(n)))", "void {n}(Unknown a)", "Unknown {n}()",
    "void {n}(", "void {n})", "int {n}(int) extra", "void {n}(int a) const const", "void {n}(int *a +bogus_attr)",
    "int *{n}(void) +free_pattern(undefined_pattern)", "void {n}(int *a +len([3)", "void {n}(int a;)",
    "void {n}(int a,)", "void {n}(int a = )", "void {n}(int a, int a)",
    "void {n}(int *a +rank(0)+dimension(3))", "int *{n}(void) +rank(0)+dimension(3)", "void {n}(double *a +rank(2)+dimension(3,4))",
]

# an invalid declaration placed after a valid one that carries the same attribute text (a check that remembers
# what it has already validated must still look at the second function's own arguments)
TWINS = [
    ("void ok{n}(int *values +rank(1), int n +implied(size(values)))", "void {n}(int *other +rank(1), int n +implied(size(values)))"),
    ("void ok{n}(int *a +rank(1), int n +implied(size(a)))", "void {n}(double x, int n +implied(size(a)))"),
    ("void ok{n}(const char *s, int n +implied(len(s)))", "void {n}(int *s2 +rank(1), int n +implied(len(s)))"),
    ("void ok{n}(int *a +rank(2), int n +implied(size(a,2)))", "void {n}(int *b +rank(2), int n +implied(size(a,2)))"),
    ("void ok{n}(int *a +rank(1), int n +implied(size(a)))", "void {n}(int *a +rank(1), int n +implied(size(a,1,1)))"),
]

YAML_FUZZ_FIELDS = ["library", "cxx_header", "namespace", "language", "options", "format", "declarations", "typemap",
                    "splicer", "splicer_code", "patterns", "copyright", "setup"]
YAML_FIELD_KINDS = {"library": str, "cxx_header": str, "namespace": str, "language": str, "options": dict, "format": dict,
                    "declarations": list, "typemap": list, "splicer": dict, "splicer_code": dict, "patterns": dict,
                    "copyright": list, "setup": dict}
DOC_COMBOS = [
    ("template-function-with-default-arguments", {"decl": "template<typename T> long combine(T a, T b = 1, int scale = 10)",
                                                  "cxx_template": [{"instantiation": "<int>"}, {"instantiation": "<double>"}]}),
    ("template-function-with-string-argument", {"decl": "template<typename T> int tagged(const std::string &tag, T value)",
                                                "cxx_template": [{"instantiation": "<int>"}, {"instantiation": "<double>"}]}),
    ("overload-with-default-arguments", {"decl": "int pick(int a, double b = 1.5, int c = 2)", "default_arg_suffix": ["_a", "_ab", "_abc"]}),
    ("generic-with-default-argument", {"decl": "void scale(double x, int n = 2)",
                                       "fortran_generic": [{"decl": "(float x, int n)", "function_suffix": "_float"}, {"decl": "(double x, int n)", "function_suffix": "_double"}]}),
    ("template-function-with-pointer-argument", {"decl": "template<typename T> void fill(T *values +intent(out)+dimension(n), int n)",
                                                 "cxx_template": [{"instantiation": "<int>"}, {"instantiation": "<double>"}]}),
]
TYPEMAP_BAD_KEYS = ["bogus", "nome", "C_type", "name", "update", "defaults", "clone_as", "compute_flat_name", "_order"]
TYPEMAP_GOOD_FIELDS = [("c_header", "vfuser.h"), ("f_module_name", "vf_mod"), ("PY_format", "O"), ("cxx_header", "vfuser.hpp vfother.hpp")]
WRONG_KINDS = [None, 3, "text", ["a", "b"], {"k": "v"}, True, [{"decl": 3}], [3], {"decl": "x"}, 0, False, "", 0.0]


def pipeline_case(name, decls, lang="c++", extra=None, wraps=("c", "fortran", "python")):
    d = {"library": name, "cxx_header": name + ".hpp", "language": lang,
         "options": {"wrap_c": "c" in wraps, "wrap_fortran": "fortran" in wraps, "wrap_python": "python" in wraps,
                     "wrap_lua": "lua" in wraps, "PY_array_arg": "list"},
         "declarations": [{"decl": "class Thing", "declarations": [{"decl": "Thing()"}]}] + decls}
    if extra:
        d.update(extra)
    return d


def judge_pipeline(rec, sp, rr, valid=False):
    if rr is None or "harness_error" in rr:
        workloads.bad_run(rec, sp, rr)
        return
    if rr.get("timeout"):
        rec.violation("pipeline:no-return-within-watchdog", "%s: %s" % (sp["name"], sp.get("what")), sp)
        return
    if rr.get("crashed") is not None:
        rec.violation("pipeline:interpreter-crash", "%s status %r" % (sp["name"], rr["crashed"]), sp)
        return
    e = rr.get("exc")
    if e:
        if e["type"] in DIAG:
            rec.count("pipeline_rejected_with_diagnostic")
            rec.add_to_set("diagnostics", ["%s|%s" % (e.get("where"), norm_msg(e.get("msg")))])
            if valid:
                rec.violation("pipeline:documented-input-rejected:%s" % norm_msg(e["msg"]),
                              "%s: %s: %s" % (sp["name"], e["type"], e["msg"][:300]), sp)
            elif not (e.get("msg") or "").strip():
                rec.violation("pipeline:empty-diagnostic:%s" % e.get("where"), "%s: %s" % (sp["name"], sp.get("what")), sp)
        else:
            rec.violation("pipeline:%s:%s:%s%s" % (e["type"], e.get("where"), norm_msg(e.get("msg")), (":" + sp["mech_tag"]) if sp.get("mech_tag") else ""),
                          "%s [%s]: %s: %s\n%s" % (sp["name"], sp.get("what"), e["type"], (e.get("msg") or "")[:300], e.get("tb", "")[-700:]), sp)
    elif rr.get("exit") not in (0, None):
        rec.count("pipeline_rejected_with_diagnostic")
        if not (rr.get("exit_msg") or rr.get("stdout") or rr.get("stderr") or "").strip():
            rec.violation("pipeline:silent-nonzero-exit", "%s" % sp["name"], sp)
    else:
        rec.count("pipeline_accepted")
        if sp.get("must_reject"):
            rec.violation("pipeline:invalid-input-silently-accepted:" + sp["must_reject"],
                          "%s is accepted (exit 0, wrappers written)" % sp["what"], sp)


def main(rec):
    thorough = common.tier() == "thorough"
    r = common.rng("c17")
    rec.max_replays = 80
    rec.rule = ("parser level: documented seed declarations, single-token delete/duplicate/substitute/transpose/insert "
                "mutations of them and random token sequences (<=12) through declast.check_decl; pipeline level: "
                "attribute name x value on arguments and functions, documented illegal combinations, YAML structure fuzz "
                "and valid corpus/generated descriptions through the command-line driver. distinct_nontrivial = distinct "
                "diagnostic messages (normalised) + distinct accepted/rejected pipeline inputs")
    rec.assumptions = ["diagnostic classes: RuntimeError (incl. NotImplementedError), SystemExit with message, DeprecationWarning",
                       "a diagnostic 'identifies the offending text' if it quotes the declaration or one of its tokens"]
    # ---- parser level
    nchunks = 64 if thorough else 16
    per = 6000 if thorough else 1500
    cases = [{"seed": common.seed() * 7919 + i, "n": per, "seeds": i == 0} for i in range(nchunks)]
    pres = pool.run_cases("vf.checks.c17", cases, func="parse_chunk", timeout=1800)
    for c, rr in zip(cases, pres):
        if "stats" not in rr:
            rec.inconclusive = "parser chunk failed: %r" % (rr,)
            continue
        rec.merge_stats({"parser_" + k: v for k, v in rr["stats"].items()})
        rec.evaluations += rr["stats"]["inputs"]
        for m in rr["mechs"]:
            rec.keys.add(m)
        for s in rr["samples"]:
            if len(rec.samples) < 3:
                rec.samples.append(s)
        for v in rr["violations"]:
            rec.violation(v["mech"], v["detail"], v["case"])
    # ---- pipeline level
    jobs = []
    k = 0
    combos = [(b, a, v) for b in BASE_DECLS for a in ATTR_NAMES for v in ATTR_VALUES]
    r.shuffle(combos)
    if not thorough:
        # quick: every (attribute, value) pair on a rotating base declaration, every (base, attribute)
        # pair without a value, plus a random sample of the full product
        sel = []
        i = common.seed()
        for a in ATTR_NAMES:
            for v in ATTR_VALUES:
                sel.append((BASE_DECLS[i % len(BASE_DECLS)], a, v))
                i += 1
        for b in BASE_DECLS:
            for a in ATTR_NAMES:
                sel.append((b, a, None))
        combos = sel + combos[:300]
    ncomb = len(combos)
    batch = []
    for (tmpl, kind), a, v in combos[:ncomb]:
        attr = "+%s" % a if v is None else "+%s(%s)" % (a, v)
        k += 1
        name = "a%d" % k
        decl = tmpl.replace("{n}", name).replace("{A}", " " + attr)
        d = pipeline_case("attrlib", [{"decl": decl}])
        sp = gen.spec_for(d, "attr:%s" % attr)
        sp["what"] = decl
        jobs.append((sp, False))
    for i, t in enumerate(ILLEGAL):
        for lang in ("c++", "c"):
            decl = t.replace("{n}", "ill%d" % i)
            if lang == "c" and "std::" in decl:
                continue
            d = pipeline_case("illegal", [{"decl": decl}], lang=lang)
            if lang == "c":
                d["declarations"] = d["declarations"][1:]
            sp = gen.spec_for(d, "illegal:%d:%s" % (i, lang))
            sp["what"] = decl
            jobs.append((sp, False))
    for i, t in enumerate(MUST_REJECT):
        decl = t.replace("{n}", "mr%d" % i)
        sp = gen.spec_for(pipeline_case("mustreject", [{"decl": decl}]), "mustreject:%d" % i)
        sp["what"] = decl
        sp["must_reject"] = t
        jobs.append((sp, False))
    for i, (okd, bad) in enumerate(TWINS):
        for order in ("valid-first", "invalid-first"):
            ds = [{"decl": okd.replace("{n}", "tw%d" % i)}, {"decl": bad.replace("{n}", "tw%d" % i)}]
            if order == "invalid-first":
                ds.reverse()
            sp = gen.spec_for(pipeline_case("twin", ds), "twin:%d:%s" % (i, order))
            sp["what"] = "%s ; %s" % (ds[0]["decl"], ds[1]["decl"])
            sp["must_reject"] = "after-valid-twin:" + bad if order == "valid-first" else bad
            jobs.append((sp, False))
    # YAML structure fuzz
    base = pipeline_case("yfuzz", [{"decl": "int f1(int a)"}, {"decl": "void f2(double *x +intent(out))"}])
    for f in YAML_FUZZ_FIELDS:
        for wk in WRONG_KINDS:
            d = copy.deepcopy(base)
            d[f] = wk
            sp = gen.spec_for(d, "yaml:%s=%r" % (f, wk))
            sp["what"] = "field %s = %r" % (f, wk)
            # documented kinds (docs/input.rst): a blank field is the empty value; any value of another kind -- including
            # 0, false and '' -- is a structure error, never silently taken for empty
            kind = YAML_FIELD_KINDS.get(f)
            if kind is not None and wk is not None and not isinstance(wk, kind) or (kind in (dict, list) and isinstance(wk, bool)):
                sp["must_reject"] = "yaml-field:%s:%s%s" % (f, type(wk).__name__, "" if wk else ":falsy")
            jobs.append((sp, False))
    for key in ["decls", "declaration", "Declarations", "option", "formats", "libary"]:
        d = copy.deepcopy(base)
        d[key] = d.get("options")
        sp = gen.spec_for(d, "yaml:misspelt:%s" % key)
        sp["what"] = "misspelt top-level key %s" % key
        jobs.append((sp, False))
    for sub in ["cxx_template", "fortran_generic", "default_arg_suffix", "attrs", "fattrs", "options", "format", "splicer",
                "fstatements", "doxygen", "return_this", "C_error_pattern", "PY_error_pattern", "cpp_if", "bogus_field"]:
        for wk in WRONG_KINDS[:6]:
            d = copy.deepcopy(base)
            d["declarations"][1][sub] = wk
            sp = gen.spec_for(d, "yaml:decl.%s=%r" % (sub, wk))
            sp["what"] = "declaration field %s = %r" % (sub, wk)
            jobs.append((sp, False))
    # typemap 'fields' dictionaries (top-level typemap section; class, struct and typedef declarations): only the
    # documented typemap fields are a supported structure; any other key -- including names that happen to be
    # attributes or methods of Shroud's own typemap object -- must be rejected
    def tm_cases(key, val):
        yield "typemap:existing", pipeline_case("tmf", [{"decl": "void g1(const char *s)"}], extra={"typemap": [{"type": "char", "fields": {key: val}}]})
        yield "typemap:new-shadow", pipeline_case("tmf", [{"decl": "void g2(Other *a)"}], extra={
            "typemap": [{"type": "Other", "fields": {"base": "shadow", key: val, "f_module_name": "other_mod"}}]})
        yield "class", pipeline_case("tmf", [{"decl": "class A", "fields": {key: val}, "declarations": [{"decl": "void m()"}]}, {"decl": "void g3(A *a)"}])
        yield "struct", pipeline_case("tmf", [{"decl": "struct S1 { int i; double d; };", "fields": {key: val}}, {"decl": "void g4(S1 *a)"}])
        yield "typedef", pipeline_case("tmf", [{"decl": "typedef int TypeID", "fields": {key: val}}, {"decl": "void g5(TypeID a)"}])
    for key in TYPEMAP_BAD_KEYS:
        for where, d in tm_cases(key, "vfvalue"):
            sp = gen.spec_for(d, "typemapfield:%s:%s" % (where, key))
            sp["what"] = "fields entry %s in %s" % (key, where)
            sp["must_reject"] = "typemap-field:%s:%s" % (where, "attribute-of-typemap-object" if key in ("name", "update", "defaults", "clone_as", "compute_flat_name", "_order") else "unknown")
            jobs.append((sp, False))
    for key, val in TYPEMAP_GOOD_FIELDS:
        for where, d in tm_cases(key, val):
            if where == "typemap:new-shadow" and key == "f_module_name":
                continue
            sp = gen.spec_for(d, "typemapfield-ok:%s:%s" % (where, key))
            sp["what"] = "documented fields entry %s in %s" % (key, where)
            jobs.append((sp, True))
    for wk in WRONG_KINDS[:6] + [0, False, ""]:
        for where, d in tm_cases("c_header", "x.h"):
            if where.startswith("typemap:"):
                d["typemap"][0]["fields"] = wk
            else:
                d["declarations"][1]["fields"] = wk
            sp = gen.spec_for(d, "typemapfields:%s=%r" % (where, wk))
            sp["what"] = "'fields' of %s = %r" % (where, wk)
            if wk is not None and not isinstance(wk, dict):
                sp["must_reject"] = "fields-kind:%s:%s%s" % (where.split(":")[0], type(wk).__name__, "" if wk else ":falsy")
            jobs.append((sp, False))
    # texts that are parsed as declarations but are empty or blank (decl, template instantiation, generic variant, typedef)
    for ti, text in enumerate(["", " ", "\n", "\t", ";", "  ;  "]):
        variants = [("decl", [{"decl": text}]),
                    ("instantiation", [{"decl": "template<typename T> void tfn%d(T a)" % ti, "cxx_template": [{"instantiation": text}]}]),
                    ("generic-decl", [{"decl": "void gfn%d(double a)" % ti, "fortran_generic": [{"decl": text}, {"decl": "(float a)"}]}]),
                    ("class-member", [{"decl": "class EmptyC%d" % ti, "declarations": [{"decl": text}]}]),
                    ("namespace-member", [{"decl": "namespace emptyns%d" % ti, "declarations": [{"decl": text}]}])]
        for where, decls_ in variants:
            sp = gen.spec_for(pipeline_case("emptytext", decls_), "emptytext:%s:%r" % (where, text))
            sp["what"] = "%s text %r" % (where, text)
            sp["mech_tag"] = "empty-or-blank-%s" % where
            jobs.append((sp, False))
    # documented features combined in one declaration: never an internal failure
    for what, ent in DOC_COMBOS:
        for wraps in (("c", "fortran"), ("python",), ("lua",)):
            d = pipeline_case("combo", [copy.deepcopy(ent)], wraps=wraps)
            sp = gen.spec_for(d, "combo:%s:%s" % (what, "+".join(wraps)))
            sp["what"] = "%s, wrapped for %s" % (ent["decl"].strip(), "+".join(wraps))
            sp["mech_tag"] = what
            jobs.append((sp, False))
    # valid inputs: never rejected
    for c in corpus.configs():
        sp = corpus.spec(c)
        sp["what"] = "corpus"
        jobs.append((sp, True))
    for sp in gen.level_a_specs(thorough=thorough, count=(60 if thorough else 10)):
        sp["what"] = "generated"
        jobs.append((sp, True))
    # command-line misuse
    for argv, what in [([], "no input file"), (["--outdir", "nonexistent_dir", "work/x.yaml"], "missing outdir"),
                       (["work/missing.yaml"], "missing yaml"), (["--option", "novalue", "work/x.yaml"], "--option without ="),
                       (["--language", "fortran", "work/x.yaml"], "bad --language"), (["work/x.json"], "json input"),
                       (["--logdir", "nonexistent", "work/x.yaml"], "missing logdir")]:
        sp = {"name": "cli:" + what, "files": {"work/x.yaml": workloads.dump_yaml(base)}, "dirs": ["out"], "argv": argv,
              "monitors": [], "what": what}
        jobs.append((sp, False))
    res = pool.run_cases("vf.shroudrun", [j[0] for j in jobs], timeout=120)
    for (sp, valid), rr in zip(jobs, res):
        rec.case(key="p|" + sp["name"] + "|" + str(sp.get("what")),
                 sample=({"pipeline_input": sp.get("what"), "outcome": (rr.get("exc") or {}).get("type") or rr.get("exit")}
                         if len(rec.samples) < 6 else None))
        judge_pipeline(rec, sp, rr, valid)
    if rec.counters.get("parser_inputs", 0) == 0:
        rec.inconclusive = "parser fuzz did not run"


def replay(bundle):
    case = bundle["case"]
    if "decl" in case:
        from shroud import declast
        lib, cls = make_namespace()
        try:
            declast.check_decl(case["decl"], namespace=lib)
            print("accepted")
        except BaseException as e:
            print(type(e).__name__, e)
        return 0
    rr = pool.run_cases("vf.shroudrun", [case])[0]
    print(rr.get("exc"), rr.get("exit"), rr.get("exit_msg"))
    return 0
