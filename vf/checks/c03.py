"""C03 — the generated Python extension is call-equivalent to the wrapped library.

Deciding method: generated numpy-free libraries are run through Shroud; the extension is compiled
with ASan+UBSan together with the instrumented subject library, imported by /venv/bin/python under
LD_PRELOAD=libasan and driven (native/py_driver.py) with every positional/keyword split, default
arity, overload, wrong arity, wrongly typed argument, unknown / duplicate keyword; the library trace
and the returned objects / exceptions are compared with the reference model; reference counts of
fresh argument objects are compared before/after 2000 repeated calls on success and failure paths.
"""
from __future__ import annotations

import itertools
import json
import os
import struct
import subprocess
import sysconfig

from .. import buildfarm, common, engine, pool, workloads
from ..libgen import ir, libs

LEVEL = "exploration"
PYINC = sysconfig.get_paths()["include"]
PY_UNSUPPORTED = {"vec_out", "vec_inout", "cstr_inout"}


def py_callable(f):
    return not any(p["kind"] in PY_UNSUPPORTED for p in f["params"])


def enc(v, T=None):
    if isinstance(v, float):
        return {"f": float(v).hex()}
    if isinstance(v, list):
        return [enc(x, T) for x in v]
    return v


def repr_to_py(r):
    """Model repr -> JSON-encoded python value as the driver prints it."""
    tag, _, rest = r.partition(":")
    if tag == "i":
        return int(rest)
    if tag == "b":
        return rest == "1"
    if tag == "r4":
        return {"f": struct.unpack("<f", struct.pack("<i", int(rest)))[0].hex()}
    if tag == "r8":
        return {"f": struct.unpack("<d", struct.pack("<q", int(rest)))[0].hex()}
    if r == "null":
        return None            # CPython convention for a NULL char* (Py_BuildValue "s")
    if tag == "s":
        n, hx = rest.split(":")
        return bytes.fromhex(hx).decode("latin-1")
    if tag == "ai":
        n, vals = rest.split(":")
        return [int(x) for x in vals.split(",") if x != ""]
    if tag in ("ar4", "ar8"):
        n, vals = rest.split(":")
        if tag == "ar4":
            return [{"f": struct.unpack("<f", struct.pack("<i", int(x)))[0].hex()} for x in vals.split(",") if x != ""]
        return [{"f": struct.unpack("<d", struct.pack("<q", int(x)))[0].hex()} for x in vals.split(",") if x != ""]
    raise ValueError(r)


def expected_result(g, exp):
    comps = []
    if "ret" in exp["send"]:
        comps.append(repr_to_py(exp["send"]["ret"]))
    for p in g["params"]:
        if p["kind"] in ir.OUT_KINDS and p["name"] in exp["send"]:
            comps.append(repr_to_py(exp["send"][p["name"]]))
    if not comps:
        return None
    if len(comps) == 1:
        return comps[0]
    return {"t": comps}


WRONG = {"i": [{"f": "0x1.8p+1"}, "str", {"special": "none"}, [1], {"special": "object"}],
         "r": ["str", {"special": "none"}, [1.0], {"special": "object"}],
         "s": [3, {"f": "0x1p+0"}, {"special": "none"}, [1], {"special": "object"}],
         # a sequence is expected: other kinds of object, and sequences with one element that cannot be converted
         # (first / middle / last position: the conversion buffer exists by then and must be released exactly once)
         "a": [3, {"f": "0x1p+0"}, {"special": "none"}, {"special": "object"}, ["x", 2, 3], [1, "x", 3], [1, 2, "x"], [1, {"special": "none"}, 3],
               [[1], 2], [1, 2, {"special": "object"}]]}


def arg_class(p, T):
    k = p["kind"]
    if k in ("arr_in", "arr_inout", "vec_in"):
        return "a"
    if k in ir.STR_KINDS:
        return "s"
    return ir.TYPES[T]["k"]


def build_plan(lib, r, thorough):
    """ops for the driver + per-op expectation records."""
    ops, meta = [], []

    def add(op, m):
        op["k"] = len(ops)
        ops.append(op)
        meta.append(m)

    by_name = {}
    for fi, f in enumerate(lib["functions"]):
        if f.get("cls") or not py_callable(f):
            continue
        by_name.setdefault(f["name"], []).append(fi)
    for name, fis in by_name.items():
        overloaded = len(fis) > 1 or any(lib["functions"][fi].get("template") for fi in fis)
        for fi in fis:
            f = lib["functions"][fi]
            insts = f.get("template") or [None]
            for Ti in insts:
                g = ir.instantiate(f, Ti)
                ins = [p for p in g["params"] if p["kind"] in ir.IN_KINDS and p["kind"] != "implied"]
                ndef = sum(1 for p in ins if "default" in p)
                for arity in range(len(ins) - ndef, len(ins) + 1):
                    use = ins[:arity]
                    base = {p["name"]: libs.base_value(p, r) for p in use}
                    for p in use:
                        if p.get("T") == "size_t" and isinstance(base[p["name"]], int) and base[p["name"]] >= (1 << 63):
                            base[p["name"]] = (1 << 63) - 1
                    if Ti == "double":
                        for p in use:
                            if p["T"] == "double" and isinstance(base[p["name"]], (int, float)):
                                base[p["name"]] = 2.5
                    variants = [dict(base)]
                    for p in use:
                        opts = (libs.battery(p["T"]) if p["kind"] in ("val", "ptr_in", "ptr_inout", "ref_inout") else
                                ([[], [libs.battery(p["T"])[1]], list(libs.battery(p["T"])[:5])] if p["kind"] in ("arr_in", "arr_inout", "vec_in") else
                                 ["", " ", "a b ", "x" * 39]))
                        if p.get("role") == "count":
                            opts = [0, 1, 4]
                        if Ti and p["T"] == "double":
                            opts = [x for x in opts if isinstance(x, float) and x != int(x)] or [2.5]
                        if p.get("T") == "size_t":
                            # size_t is parsed with the 'n' unit (Py_ssize_t), CPython's own convention for sizes:
                            # values above SSIZE_MAX are outside what a Python caller can pass
                            opts = [x for x in opts if not isinstance(x, int) or x < (1 << 63)]
                        for o in (opts if thorough else opts[:4]):
                            v = dict(base)
                            v[p["name"]] = o
                            variants.append(v)
                    for vi, vals in enumerate(variants):
                        # every split: first npos positional, rest keywords (all orders for <= 3)
                        splits = range(len(use) + 1) if vi == 0 else [r.randint(0, len(use))]
                        for npos in splits:
                            kwn = [p["name"] for p in use[npos:]]
                            orders = list(itertools.permutations(kwn)) if (len(kwn) <= 3 and vi == 0) else [tuple(r.sample(kwn, len(kwn)))]
                            for order in orders:
                                call_args = dict(vals)
                                add({"kind": "call", "name": name, "pos": [enc(vals[p["name"]]) for p in use[:npos]],
                                     "kw": {n: enc(vals[n]) for n in order}},
                                    {"expect": "ok", "f": fi, "T": Ti, "args": call_args, "arity": arity})
                    # negative: wrong arity
                    if not overloaded:
                        for n in list(range(0, len(ins) - ndef)) + [len(ins) + 1, len(ins) + 2]:
                            vals = [enc(libs.base_value(p, r)) for p in ins]
                            pos = (vals + [1, 2, 3])[:n]
                            add({"kind": "call", "name": name, "pos": pos, "kw": {}}, {"expect": "reject", "why": "arity %d" % n, "f": fi})
                        break_after = True
                    # negative: wrongly typed argument, unknown keyword, duplicate
                    if not overloaded and arity == len(ins):
                        for j, p in enumerate(use):
                            for w in WRONG.get(arg_class(p, p.get("T")), []):
                                pos = [enc(base[q["name"]]) for q in use]
                                pos[j] = w
                                add({"kind": "call", "name": name, "pos": pos, "kw": {}}, {"expect": "reject", "why": "type of %s := %r" % (p["name"], w), "f": fi})
                        if use:
                            add({"kind": "call", "name": name, "pos": [enc(base[q["name"]]) for q in use], "kw": {"vf_bogus_kw": 1}},
                                {"expect": "reject", "why": "unknown keyword", "f": fi})
                            add({"kind": "call", "name": name, "pos": [enc(base[q["name"]]) for q in use], "kw": {use[0]["name"]: enc(base[use[0]["name"]])}},
                                {"expect": "reject", "why": "duplicate positional+keyword", "f": fi})
                            # reference counts: success path and failure path
                            add({"kind": "repeat", "name": name, "n": 2000, "pos": [enc(base[q["name"]]) for q in use], "kw": {}},
                                {"expect": "refcount", "path": "success", "f": fi, "nargs": len(use)})
                            bad = [enc(base[q["name"]]) for q in use]
                            bad[-1] = {"special": "object"}
                            add({"kind": "repeat", "name": name, "n": 2000, "pos": bad, "kw": {}},
                                {"expect": "refcount", "path": "failure", "f": fi, "nargs": len(use)})
    # overloaded / templated names: calls that match no signature at all
    for name, fis in by_name.items():
        overloaded = len(fis) > 1 or any(lib["functions"][fi].get("template") for fi in fis)
        if not overloaded:
            continue
        arities = set()
        for fi in fis:
            f = lib["functions"][fi]
            ins = [p for p in f["params"] if p["kind"] in ir.IN_KINDS and p["kind"] != "implied"]
            nd = sum(1 for p in ins if "default" in p)
            arities.update(range(len(ins) - nd, len(ins) + 1))
        for n in (0, max(arities) + 1, max(arities) + 3):
            if n not in arities:
                add({"kind": "call", "name": name, "pos": [1] * n, "kw": {}}, {"expect": "reject", "why": "arity %d matches no overload" % n, "f": fis[0]})
        for n in sorted(arities):
            if n:
                add({"kind": "call", "name": name, "pos": [{"special": "object"}] * n, "kw": {}},
                    {"expect": "reject", "why": "type object() matches no overload", "f": fis[0]})
        add({"kind": "call", "name": name, "pos": [], "kw": {"vf_bogus_kw": 1}}, {"expect": "reject", "why": "unknown keyword on overloaded name", "f": fis[0]})
    # classes
    classes = []
    for f in lib["functions"]:
        if f.get("cls") and f["cls"] not in classes:
            classes.append(f["cls"])
    for c in classes:
        fs = [(i, f) for i, f in enumerate(lib["functions"]) if f.get("cls") == c]
        ctors = [(i, f) for i, f in fs if f.get("ctor")]
        meths = [(i, f) for i, f in fs if not f.get("ctor") and not f.get("dtor")]
        for oi, (ci, cf) in enumerate(ctors + ctors):
            obj = "o%d" % oi
            vals = {p["name"]: r.choice(libs.battery(p["T"])) for p in cf["params"]}
            kwmode = oi >= len(ctors)
            add({"kind": "new", "name": c, "obj": obj, "pos": [] if kwmode else [enc(vals[p["name"]]) for p in cf["params"]],
                 "kw": {p["name"]: enc(vals[p["name"]]) for p in cf["params"]} if kwmode else {}},
                {"expect": "new", "f": ci, "args": vals, "obj": obj})
            for mi, mf in meths:
                mins = [p for p in mf["params"] if p["kind"] in ir.IN_KINDS and p["kind"] != "implied"]
                vals = {p["name"]: r.choice(libs.battery(p["T"])) for p in mins}
                kind = "static" if mf.get("static") else "method"
                kwm = bool(mins) and (oi + mi) % 3 == 0
                add({"kind": kind, "cls": c, "name": mf["name"], "obj": obj, "pos": [] if kwm else [enc(vals[p["name"]]) for p in mins],
                     "kw": {p["name"]: enc(vals[p["name"]]) for p in mins} if kwm else {}},
                    {"expect": "ok", "f": mi, "T": None, "args": vals, "obj": obj, "arity": len(mins)})
        if ctors and meths:
            mi, mf = meths[0]
            mins = [p for p in mf["params"] if p["kind"] in ir.IN_KINDS and p["kind"] != "implied"]
            vals = {p["name"]: libs.base_value(p, r) for p in mins}
            add({"kind": "method", "cls": c, "name": mf["name"], "obj": "o0", "pos": [enc(vals[p["name"]]) for p in mins], "kw": {}},
                {"expect": "ok", "f": mi, "T": None, "args": vals, "obj": "o0", "arity": len(mins)})
        for oi in range(len(ctors) * 2):
            add({"kind": "del", "obj": "o%d" % oi}, {"expect": "del", "obj": "o%d" % oi})
    return ops, meta


def run_library(case):
    lib = case["lib"]
    ops, meta = case["ops"], case["meta"]
    res = {"violations": [], "stats": {}, "name": lib["name"]}
    rr = engine.generate(lib)
    cwd = rr.get("cwd")
    try:
        if rr.get("exc") or rr.get("exit") != 0:
            e = rr.get("exc") or {}
            _k, _t = engine.reject_mech(rr)
            res["violations"].append({"mech": "shroud-rejects-admitted-library:" + _k, "detail": "%s: %s" % (lib["name"], _t)})
            return res
        out = os.path.join(cwd, "out")
        h, c = ir.library_sources(lib)
        ext = ".hpp" if lib["language"] == "c++" else ".h"
        open(os.path.join(out, lib["name"] + ext), "w").write(h)
        src = lib["name"] + "_impl" + (".cpp" if lib["language"] == "c++" else ".c")
        open(os.path.join(out, src), "w").write(c)
        files = [src] + sorted(f for f in os.listdir(out) if f.startswith("py") and f.endswith((".c", ".cpp")))
        cc = ["g++", "-std=c++11"] if lib["language"] == "c++" else ["gcc", "-std=c99"]
        mod = lib["name"].lower()
        rc, so, se = engine.sh(cc + ["-shared", "-fPIC", "-g", "-O0", "-w", "-I", PYINC, "-I", engine.NATIVE, "-I", "."] + engine.SANF + files + ["-o", mod + ".so"], out)
        if rc != 0:
            where, msg = engine.first_error(se)
            res["violations"].append({"mech": "extension-does-not-compile:%s" % msg, "detail": "%s\n%s" % (lib["name"], se[:2500])})
            return res
        planf = os.path.join(out, "plan.json")
        json.dump({"dir": out, "module": mod, "ops": ops}, open(planf, "w"))
        env = dict(os.environ)
        env.update({"ASAN_OPTIONS": "detect_leaks=0:halt_on_error=1:abort_on_error=0", "UBSAN_OPTIONS": "print_stacktrace=1:halt_on_error=1",
                    "VF_TRACE": os.path.join(out, "trace.log"),
                    "LD_PRELOAD": subprocess.check_output(["gcc", "-print-file-name=libasan.so"], text=True).strip(),
                    "PYTHONDONTWRITEBYTECODE": "1"})
        rc, so, se = engine.sh([common.PY, os.path.join(engine.NATIVE, "py_driver.py"), planf], out, env=env, timeout=900)
        if rc == -999:
            res["watchdog"] = True
            return res
        trace, marks = engine.parse_trace(open(env["VF_TRACE"]).read() if os.path.exists(env["VF_TRACE"]) else "")
        outs = {}
        for ln in so.split("\n"):
            if ln.startswith("OUT "):
                _, k, js = ln.split(" ", 2)
                outs[int(k)] = json.loads(js)
        st = res["stats"]
        st["ops"] = len(ops)
        gen_files = set(os.listdir(out))
        for rp in buildfarm.sanitizer_reports(se):
            gen, libf = buildfarm.classify_frames(rp["frames"], gen_files)
            res["violations"].append({"mech": "sanitizer:%s:%s" % (rp["kind"], _n(gen or libf or "-")), "detail": "%s\n%s" % (lib["name"], rp["text"])})
        if rc != 0 and not se.count("ERROR: AddressSanitizer") and "runtime error" not in se:
            last = max(outs) if outs else -1
            res["violations"].append({"mech": "interpreter-crash:%s" % ("signal" if rc < 0 else "rc%d" % rc),
                                      "detail": "%s: driver ended after op %d (%r)\n%s" % (lib["name"], last, ops[last + 1] if last + 1 < len(ops) else None, se[-1500:])})
        serials, counter = {}, 0
        for k, (op, m) in enumerate(zip(ops, meta)):
            if k not in outs:
                continue               # the driver never reached this op (crash reported above)
            got = outs[k]              # None is a legitimate result (void functions, del)
            recs = [t for t in trace.get(k, []) if t[0] == "RECV"]
            f = lib["functions"][m["f"]] if "f" in m else None
            label = "%s %s(%s%s)" % (lib["name"], op.get("name"), ", ".join(json.dumps(x) for x in op.get("pos", [])),
                                     "".join(", %s=%s" % (a, json.dumps(b)) for a, b in op.get("kw", {}).items()))
            if m["expect"] == "ok":
                st["positive_calls"] = st.get("positive_calls", 0) + 1
                g = ir.instantiate(f, m.get("T"))
                args = dict(m["args"])
                for p in g["params"]:
                    if p["kind"] in ir.IN_KINDS and p["kind"] != "implied" and p["name"] not in args and "default" in p:
                        args[p["name"]] = ir.default_value(p)
                    if p["name"] in args and p.get("T") in ("float", "double") and isinstance(args[p["name"]], int) and not isinstance(args[p["name"]], bool):
                        args[p["name"]] = float(args[p["name"]])
                this = serials.get(m.get("obj")) if (f.get("cls") and not f.get("static")) else None
                exp = ir.model_call(g, args, this_serial=this)
                if isinstance(got, dict) and "exc" in got:
                    res["violations"].append({"mech": "valid-call-raises:%s:%s" % (got["exc"], _shape(f, op)), "detail": "%s -> %s: %s" % (label, got["exc"], got["msg"])})
                    continue
                if len(recs) != 1 or recs[0][1] != g["fid"]:
                    res["violations"].append({"mech": "wrong-entry-point:%s" % _shape(f, op), "detail": "%s reached %r, expected %s" % (label, [t[1] for t in recs], g["fid"])})
                    continue
                for n, want in exp["recv"].items():
                    if recs[0][2].get(n) != want:
                        res["violations"].append({"mech": "library-received-wrong-value:%s" % _shape(f, op),
                                                  "detail": "%s: %s received %s, expected %s" % (label, n, recs[0][2].get(n), want)})
                want = expected_result(g, exp)
                if got != want:
                    res["violations"].append({"mech": "returned-object-differs:%s" % _shape(f, op), "detail": "%s returned %s, expected %s" % (label, json.dumps(got), json.dumps(want))})
            elif m["expect"] == "reject":
                st["negative_calls"] = st.get("negative_calls", 0) + 1
                if not (isinstance(got, dict) and got.get("exc") in ("TypeError", "ValueError", "OverflowError")):
                    if isinstance(got, dict) and "exc" in got:
                        res["violations"].append({"mech": "bad-call-raises-%s:%s" % (got["exc"], m["why"].split(" :=")[0].split(" ")[0]),
                                                  "detail": "%s [%s] -> %s: %s" % (label, m["why"], got["exc"], got["msg"])})
                    else:
                        res["violations"].append({"mech": "bad-call-accepted:%s:%s" % (m["why"].split(" :=")[0].split(" ")[0], _shape(f, op)),
                                                  "detail": "%s [%s] returned %s and reached the library %r" % (label, m["why"], json.dumps(got), [t[1] for t in recs])})
                elif recs:
                    res["violations"].append({"mech": "rejected-call-reached-library", "detail": "%s [%s]: %r" % (label, m["why"], recs)})
            elif m["expect"] == "refcount":
                st["refcount_runs"] = st.get("refcount_runs", 0) + 1
                if isinstance(got, dict) and "t" in got:
                    deltas, n_ok, n_exc = got["t"][:3]
                    blocks = got["t"][3] if len(got["t"]) > 3 else 0
                    st["allocated_block_drift_checks"] = st.get("allocated_block_drift_checks", 0) + 1
                    # objects the wrapper creates for its results die with the result: over 2000 calls whose results are
                    # dropped the interpreter's count of allocated blocks stays where it was (a leak of one object per
                    # call shows as >= 2000; the threshold leaves room for allocator noise)
                    if blocks >= 1000:
                        res["violations"].append({"mech": "python-objects-leak-per-call:%s:%s" % (m["path"], _shape(f, op)),
                                                  "detail": "%s x2000 (%s path): %d more allocated blocks after the results were dropped (ok %d, rejected %d)" % (
                                                      label, m["path"], blocks, n_ok, n_exc)})
                    if any(d != 0 for d in deltas):
                        res["violations"].append({"mech": "reference-count-drift:%s:%s" % (m["path"], _shape(f, op)),
                                                  "detail": "%s x2000 (%s path): refcount deltas %r (ok %d, rejected %d)" % (label, m["path"], deltas, n_ok, n_exc)})
                    if m["path"] == "success" and n_ok != 2000 or m["path"] == "failure" and n_exc != 2000:
                        st["refcount_path_not_as_planned"] = st.get("refcount_path_not_as_planned", 0) + 1
            elif m["expect"] == "new":
                counter += 1
                serials[m["obj"]] = counter
                g = f
                exp = ir.model_call(g, m["args"])
                if isinstance(got, dict) and "exc" in got:
                    res["violations"].append({"mech": "constructor-raises:%s:%s" % (got["exc"], "keyword" if op.get("kw") else "positional"),
                                              "detail": "%s -> %s: %s" % (label, got["exc"], got["msg"])})
                    counter -= 1
                    serials.pop(m["obj"], None)
                elif len(recs) != 1 or recs[0][1] != g["fid"]:
                    res["violations"].append({"mech": "constructor:wrong-entry-point", "detail": "%s reached %r expected %s" % (label, [t[1] for t in recs], g["fid"])})
                else:
                    for n, want in exp["recv"].items():
                        if recs[0][2].get(n) != want:
                            res["violations"].append({"mech": "library-received-wrong-value:ctor", "detail": "%s: %s=%s expected %s" % (label, n, recs[0][2].get(n), want)})
            elif m["expect"] == "del":
                d = [t for t in trace.get(k, []) if t[0] == "DTOR"]
                if m["obj"] in serials:
                    want = "i:%d" % serials[m["obj"]]
                    if len(d) != 1 or d[0][2].get("this") != want:
                        res["violations"].append({"mech": "destructor:wrong-object-or-count", "detail": "%s del %s: destructor records %r, expected this=%s" % (lib["name"], m["obj"], d, want)})
        st["recv_records"] = sum(1 for v in trace.values() for t in v if t[0] == "RECV")
        if ops:
            res["sample"] = {"library": lib["name"], "op": ops[0], "out": outs.get(0),
                             "trace": [" ".join([t[0], t[1]] + ["%s=%s" % kv for kv in t[2].items()]) for t in trace.get(0, [])]}
        return res
    finally:
        if cwd:
            common.rmtree(cwd)


def _n(s):
    import re
    return re.sub(r"f\d+[a-z0-9]*", "F", s)[:50]


def _shape(f, op):
    return (f.get("shape") if f else "?") + (":kw" if op.get("kw") else "")


SACL_H = """#ifndef SACL_H
#define SACL_H
struct Sacl { int nitems; int *ivalue; double *dvalue; int tag; };
typedef struct Sacl Sacl;
struct Spt { int i; double d; };
typedef struct Spt Spt;
struct Smp { double *vals; int count; double scale; };
typedef struct Smp Smp;
#ifdef __cplusplus
extern "C" {
#endif
double smp_sum(const Smp *s);
int spt_in(const Spt *s);
int spt_bump(Spt *s, int by);
void spt_touch(Spt *s);
void spt_make(Spt *s, int tag);
Sacl *sacl_global(void);
void sacl_refill(int base);
void sacl_resize(int n);
int sacl_sum(void);
#ifdef __cplusplus
}
#endif
#endif
"""
SACL_C = """#include "sacl.h"
static int iv[8]; static double dv[8];
static Sacl g = { 4, iv, dv, 7 };
Sacl *sacl_global(void) { static int once = 0; if (!once) { sacl_refill(1); once = 1; } return &g; }
void sacl_refill(int base) { int i; for (i = 0; i < 8; i++) { iv[i] = base + i; dv[i] = base * 0.5 + i; } }
void sacl_resize(int n) { g.nitems = n; }
int sacl_sum(void) { int i, s = g.tag; for (i = 0; i < g.nitems; i++) s += iv[i]; return s; }
double smp_sum(const Smp *s) { int i; double t = 0; for (i = 0; i < s->count; i++) t += s->vals[i]; return t * s->scale; }
int spt_in(const Spt *s) { return s->i * 2; }
int spt_bump(Spt *s, int by) { s->i += by; s->d += 0.5; return s->i; }
void spt_touch(Spt *s) { s->i += 1; }
void spt_make(Spt *s, int tag) { s->i = tag; s->d = tag * 0.25; }
"""
SACL_PY = """import json, sys
sys.path.insert(0, '.')
import sacl as m
def out(k, v):
    print('OUT %d %s' % (k, json.dumps(v)), flush=True)
s = m.sacl_global()
out(0, [s.nitems, list(s.ivalue), list(s.dvalue), s.tag])
m.sacl_refill(10)                      # the library changes the arrays behind the object
out(1, [list(s.ivalue), list(s.dvalue)])
m.sacl_resize(2)                       # ... and the member the dimension depends on
out(2, [s.nitems, list(s.ivalue)])
s.nitems = 3                           # the caller changes it through the object
out(3, [list(s.ivalue), m.sacl_sum()])
x = s.ivalue
x[0] = 999                             # a list handed out earlier is a copy
out(4, [list(s.ivalue)])
s.tag = 100
out(5, [m.sacl_sum(), s.tag])
t = m.sacl_global()                    # a second object for the same struct
m.sacl_refill(20)
out(6, [list(t.ivalue), list(s.ivalue)])
# reference counts of a struct object passed in every intent; results are dropped at once (a wrapper that hands back
# the argument without owning a reference frees the caller's object)
p = m.Spt(6, 7.0)
rc0 = sys.getrefcount(p)
for _ in range(40):
    m.spt_in(p)
out(7, [sys.getrefcount(p) - rc0, p.i])
for _ in range(40):
    r = m.spt_bump(p, 1)
    del r
out(8, [sys.getrefcount(p) - rc0, p.i, p.d])
for _ in range(40):
    r = m.spt_touch(p)
    del r
out(9, [sys.getrefcount(p) - rc0, p.i])
q = m.Spt(100, 0.5)
r = m.spt_bump(p, 1)
out(10, [r[0] if isinstance(r, tuple) else r, p.i, q.i, p is q])
w = m.spt_make(5)
out(11, [w.i, w.d, sys.getrefcount(w) - sys.getrefcount(q)])
# constructor of a struct whose first member is an array: positional arguments follow the member order (docs/struct.rst)
def ctor(*a, **k):
    try:
        o = m.Smp(*a, **k)
        return [o.count, o.scale, m.smp_sum(o)]
    except Exception as e:
        return type(e).__name__
out(12, [ctor([1.0, 2.0, 3.0], 3, 2.5), ctor([4.0, 5.0], count=2, scale=0.5), ctor(vals=[1.0], count=1, scale=2.0), ctor(scale=2.0, count=1, vals=[3.0])])
out(13, [ctor(3, [1.0], 2.5), ctor("x", 1, 1.0)])
"""


def sacl_expected():
    iv = lambda b: [b + i for i in range(8)]
    dv = lambda b: [b * 0.5 + i for i in range(8)]
    return {0: [4, iv(1)[:4], dv(1)[:4], 7], 1: [iv(10)[:4], dv(10)[:4]], 2: [2, iv(10)[:2]], 3: [iv(10)[:3], 7 + sum(iv(10)[:3])],
            4: [iv(10)[:3]], 5: [100 + sum(iv(10)[:3]), 100], 6: [iv(20)[:3], iv(20)[:3]],
            7: [0, 6], 8: [0, 46, 27.0], 9: [0, 86], 10: [87, 87, 100, False], 11: [5, 1.25, 0],
            12: [[3, 2.5, 15.0], [2, 0.5, 4.5], [1, 2.0, 2.0], [1, 2.0, 6.0]], 13: ["TypeError", "TypeError"]}


def run_struct_class(case):
    """Struct wrapped as a Python class with list-mode array members (struct.yaml Cstruct_list): a read / library-side
    change / read history.  Expected values come from a model of the ten-line library."""
    from .. import shroudrun
    lang = case["lang"]
    res = {"violations": [], "stats": {}, "name": "sacl-" + lang}
    y = {"library": "sacl", "cxx_header": "sacl.h", "language": lang,
         "options": {"wrap_c": False, "wrap_fortran": False, "wrap_python": True, "wrap_lua": False, "PY_struct_arg": "class", "PY_array_arg": "list"},
         "declarations": [{"decl": "struct Sacl { int nitems; int *ivalue +dimension(nitems); double *dvalue +dimension(nitems); int tag; };"},
                          {"decl": "Sacl *sacl_global(void)"}, {"decl": "void sacl_refill(int base)"}, {"decl": "void sacl_resize(int n)"},
                          {"decl": "int sacl_sum(void)"},
                          {"decl": "struct Spt { int i; double d; };"},
                          {"decl": "int spt_in(const Spt *s)"}, {"decl": "int spt_bump(Spt *s +intent(inout), int by)"},
                          {"decl": "void spt_touch(Spt *s +intent(inout))"}, {"decl": "void spt_make(Spt *s +intent(out), int tag)"},
                          {"decl": "struct Smp { double *vals +dimension(count); int count; double scale; };"}, {"decl": "double smp_sum(const Smp *s)"}]}
    sp = {"name": "sacl", "files": {"work/sacl.yaml": workloads.dump_yaml(y)}, "dirs": ["out"], "argv": ["--outdir", "out", "--logdir", "out", "work/sacl.yaml"],
          "monitors": [], "keep": True}
    rr = shroudrun.run(sp)
    cwd = rr.get("cwd")
    try:
        if rr.get("exc") or rr.get("exit") != 0:
            k_, t_ = engine.reject_mech(rr)
            res["violations"].append({"mech": "shroud-rejects-admitted-library:" + k_, "detail": "struct-as-class list library: " + t_})
            return res
        out = os.path.join(cwd, "out")
        open(os.path.join(out, "sacl.h"), "w").write(SACL_H)
        open(os.path.join(out, "sacl_impl.c"), "w").write(SACL_C)
        open(os.path.join(out, "drv.py"), "w").write(SACL_PY)
        pys = sorted(f for f in os.listdir(out) if f.startswith("py") and f.endswith((".c", ".cpp")))
        objs = []
        for f in ["sacl_impl.c"] + pys:
            cc = ["g++", "-std=c++11"] if f.endswith(".cpp") else ["gcc", "-std=c99"]
            rc, so, se = engine.sh(cc + ["-c", "-fPIC", "-g", "-O0", "-w", "-I", PYINC, "-I", "."] + engine.SANF + [f, "-o", f + ".o"], out)
            if rc != 0:
                where, msg = engine.first_error(se)
                res["violations"].append({"mech": "extension-does-not-compile:%s" % msg, "detail": "sacl %s\n%s" % (f, se[:2000])})
                return res
            objs.append(f + ".o")
        rc, so, se = engine.sh((["g++"] if lang == "c++" else ["gcc"]) + ["-shared"] + engine.SANF + objs + ["-o", "sacl.so"], out)
        if rc != 0:
            res["violations"].append({"mech": "extension-does-not-link", "detail": se[:1500]})
            return res
        env = dict(os.environ)
        env.update({"ASAN_OPTIONS": "detect_leaks=0:halt_on_error=1:abort_on_error=0", "UBSAN_OPTIONS": "print_stacktrace=1:halt_on_error=1",
                    "LD_PRELOAD": subprocess.check_output(["gcc", "-print-file-name=libasan.so"], text=True).strip(), "PYTHONDONTWRITEBYTECODE": "1"})
        rc, so, se = engine.sh([common.PY, "drv.py"], out, env=env, timeout=300)
        outs = {}
        for ln in so.split("\n"):
            if ln.startswith("OUT "):
                _, k, js = ln.split(" ", 2)
                outs[int(k)] = json.loads(js)
        for rp in buildfarm.sanitizer_reports(se):
            gen, libf = buildfarm.classify_frames(rp["frames"], set(os.listdir(out)))
            res["violations"].append({"mech": "sanitizer:%s:%s" % (rp["kind"], _n(gen or libf or "-")), "detail": "sacl\n%s" % rp["text"]})
        exp = sacl_expected()
        what = {0: "first read", 1: "read after the library changed the arrays", 2: "read after the library changed the extent member",
                3: "read after the caller changed the extent member", 4: "read after a returned list was modified", 5: "scalar member set",
                6: "two objects for the same struct", 7: "reference count after intent(in) calls", 8: "reference count after intent(inout) calls that also return a value",
                9: "reference count after intent(inout) calls returning only the struct", 10: "struct object still the caller's after results were dropped",
                11: "intent(out) struct", 12: "constructor arguments in member order (positional, mixed, keyword)", 13: "constructor with wrongly typed arguments"}
        for k, want in exp.items():
            res["stats"]["struct_class_steps"] = res["stats"].get("struct_class_steps", 0) + 1
            if k not in outs:
                res["violations"].append({"mech": "struct-as-class:step-not-reached", "detail": "sacl step %d (%s)\n%s" % (k, what[k], se[-1200:])})
                break
            if outs[k] != want:
                res["violations"].append({"mech": "struct-as-class:member-value-differs:%s" % what[k].replace(" ", "-"),
                                          "detail": "sacl [%s] step %d (%s): got %r, the struct holds %r" % (lang, k, what[k], outs[k], want)})
        return res
    finally:
        if cwd:
            common.rmtree(cwd)


def main(rec):
    thorough = common.tier() == "thorough"
    r = common.rng("c03")
    rec.rule = ("numpy-free generated libraries (language c and c++; PY_array_arg=list): every function called with every split "
                "into positional prefix + keywords (all keyword orders for <= 3), every admissible default arity, each overload "
                "and template instantiation, battery values; negative calls: wrong arity 0..k+2, each argument replaced by every "
                "other type class, unknown keyword, duplicate positional+keyword; 2000x repeats for reference counts on success "
                "and failure paths; classes via constructor (positional and keyword) / methods / static / del. "
                "distinct_nontrivial = driver operations whose outcome was compared")
    rec.assumptions = ["reference model + documented Python API (result followed by out/inout arguments; defaults from the library)",
                       "CPython 3.12 under LD_PRELOAD=libasan (detect_leaks=0: leaks are judged by reference counts and live-object counters)",
                       "supplied arguments are always a prefix of the parameter list (docs/pytutorial.rst note on default arguments)"]
    cases = []
    for lang in ("c++", "c"):
        inst = [x for x in libs.instances(lang, ("python",))]
        per = 9
        for bi in range(0, len(inst), per):
            lib = libs.build("p%s%d" % ("x" if lang == "c++" else "c", bi // per), lang, inst[bi:bi + per], ("python",))
            ops, meta = build_plan(lib, common.rng("c03", lang, bi), thorough)
            cases.append({"lib": lib, "ops": ops, "meta": meta})
    for k in range(20 if thorough else 3):
        lang = r.choice(["c++", "c"])
        inst = libs.instances(lang, ("python",))
        lib = libs.build("pm%d" % k, lang, [r.choice(inst) for _ in range(r.randint(3, 9))], ("c", "fortran", "python"),
                         options={"debug": r.random() < 0.3}, namespace=r.choice([None, "outer"]) if lang == "c++" else None)
        ops, meta = build_plan(lib, r, thorough)
        cases.append({"lib": lib, "ops": ops, "meta": meta})
    # a NULL const char* result, alone in its library (a crash ends the driver, so nothing else shares it)
    for lang in ("c", "c++"):
        fs = [libs.F("cnull", "cstr", [libs.P("n", "val", "int", role="outlen")])]
        for f in fs:
            f["shape"] = "cstr_res_null"
            f["fid"] = f["name"]
        lib = {"name": "pnull" + ("x" if lang == "c++" else "c"), "language": lang, "functions": fs, "format": {}, "namespace": None, "wraps": ["python"],
               "options": {"wrap_c": False, "wrap_fortran": False, "wrap_python": True, "wrap_lua": False}}
        libs.assign_names(lib)
        ops = [{"kind": "call", "name": "cnull", "pos": [n], "kw": {}, "k": k} for k, n in enumerate([3, 0, -1, 5])]
        meta = [{"expect": "ok", "f": 0, "T": None, "args": {"n": n}, "arity": 1} for n in (3, 0, -1, 5)]
        cases.append({"lib": lib, "ops": ops, "meta": meta, "tag": "null-char-result"})
    res = pool.run_cases("vf.checks.c03", cases, func="run_library", timeout=2400)
    for c, rr in zip(cases, res):
        if c.get("tag") and "stats" in rr:
            for v in rr["violations"]:
                v["mech"] = "%s:%s" % (v["mech"], c["tag"])
        if "stats" not in rr:
            workloads.bad_run(rec, {"name": c["lib"]["name"]}, rr)
            continue
        rec.merge_stats(rr["stats"])
        rec.evaluations += rr["stats"].get("ops", 0)
        if rr.get("sample") and len(rec.samples) < 3:
            rec.samples.append(rr["sample"])
        for v in rr["violations"]:
            rec.violation(v["mech"], v["detail"], {"lib": c["lib"]["name"]})
    # struct wrapped as a class with list-mode array members
    sc = [{"lang": "c"}, {"lang": "c++"}]
    sres = pool.run_cases("vf.checks.c03", sc, func="run_struct_class", timeout=900)
    for c, rr in zip(sc, sres):
        if "stats" not in rr:
            workloads.bad_run(rec, {"name": "sacl-" + c["lang"]}, rr)
            continue
        rec.merge_stats(rr["stats"])
        for v in rr["violations"]:
            rec.violation(v["mech"], v["detail"], {"case": "struct-as-class", "language": c["lang"]})
    # upstream unit tests of the numpy-free configurations, extension built with ASan+UBSan
    pc = [{"name": n} for n in buildfarm.PYTHON_TARGETS]
    pres = pool.run_cases("vf.buildfarm", pc, func="python_corpus_job", timeout=1500)
    for c, rr in zip(pc, pres):
        if "stats" not in rr:
            workloads.bad_run(rec, c, rr)
            continue
        if rr.get("unreachable"):
            rec.unreach("upstream python test %s: %s" % (c["name"], rr["unreachable"]))
        rec.count("upstream_python_tests_run", rr["stats"].get("python_tests_run", 0))
        for v in rr["violations"]:
            rec.violation("corpus:%s:%s" % (c["name"], v["mech"]), v["detail"], c)
    rec.distinct_override = sum(rec.counters.get(k, 0) for k in ("positive_calls", "negative_calls", "refcount_runs"))
    if rec.counters.get("recv_records", 0) == 0:
        rec.inconclusive = "no library call was observed"


def replay(bundle):
    print("re-run ./check C03 with the bundle's seed")
    return 2
