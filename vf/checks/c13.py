"""C13 — line wrapping never alters code; Fortran <= 132 columns.

Deciding method: online monitor (vf.monitors 'lines') on every call that real
Shroud runs make to write_continue / write_lines, plus a direct fuzz of the
same two methods of the working tree; oracle = vf.oracles.lines.
"""
from __future__ import annotations

import os
import re

import io
import random

from .. import common, corpus, pool, workloads
from ..oracles import lines as LO

LEVEL = "exploration"


# --------------------------------------------------------------- fuzz (child)

WORDS = ["integer(C_INT),", "intent(IN)", "::", "arg1,", "arg2", "call", "foo(", ")", "=", "x", "SHT_rv",
         "const", "char", "*", "name,", "&", "std::string", "{", "}", ";", "result(SHT_rv)", "bind(C,",
         "name=\"abc\")", "a", "bb", "ccc", "dddddddd", "e" * 20, "f" * 45, "+", "-", "0", "!", "//", "'a b'"]


def gen_line(r):
    style = r.random()
    parts = []
    n = r.randint(1, 12)
    for i in range(n):
        if style < 0.5:
            w = r.choice(WORDS)
        else:
            w = "".join(r.choice("abcXYZ019_(),=*&%:;'\" ") for _ in range(r.randint(1, 18)))
        parts.append(w)
        c = r.random()
        if c < 0.35:
            parts.append("\t")
        elif c < 0.42:
            parts.append("\f")
        elif c < 0.5:
            parts.append("\t\f")
        elif c < 0.55:
            parts.append("\t\t")
        if r.random() < 0.5:
            parts.append(" " * r.randint(1, 3))
    line = "".join(parts)
    if r.random() < 0.2:
        line = "\r" + line
    if not line.replace("\r", ""):
        line += "x"
    return line


def fuzz_chunk(case):
    import shroud.util as util

    class W(util.WrapperMixin):
        pass

    r = random.Random(case["seed"])
    shapes = set()
    stats = {"fuzz_continue_calls": 0, "fuzz_continue_split": 0, "fuzz_lines_calls": 0,
             "fuzz_overlong_lines_allowed": 0}
    viol = []
    sample = None
    w = W()
    for _ in range(case["n"]):
        line = gen_line(r)
        w.linelen = r.choice([1, 2, 5, 10, 20, 30, 40, 60, 72, 80, 100, 132]) if r.random() < 0.7 else r.randint(1, 132)
        w.cont = r.choice(["", " &", " \\", "&"])
        w.indent = r.choice([0, 0, 1, 2, 3, 4, 8])
        spaces = r.choice(["    ", "  ", " "])
        fp = io.StringIO()
        indent = w.indent
        try:
            w.write_continue(fp, line, spaces)
        except Exception as e:  # an exception on a non-empty line loses the line
            viol.append({"mech": "write_continue:exception:" + type(e).__name__,
                         "detail": repr(e), "case": {"line": line, "linelen": w.linelen, "cont": w.cont,
                                                     "indent": indent, "spaces": spaces}})
            continue
        out = fp.getvalue()
        stats["fuzz_continue_calls"] += 1
        nphys = out.count("\n")
        if nphys > 1:
            stats["fuzz_continue_split"] += 1
            if sample is None:
                sample = {"line": line, "linelen": w.linelen, "cont": w.cont, "indent": indent, "produced": out}
        over = any(len(p) > w.linelen + len(w.cont) for p in out.split("\n"))
        if over:
            stats["fuzz_overlong_lines_allowed"] += 1
        shapes.add("h%d/p%d/o%d/L%d/i%d/c%s/r%d" % (
            min(line.count("\t") + line.count("\f"), 9), min(nphys, 9), int(over), w.linelen // 20, indent,
            len(w.cont), int(line[0] == "\r")))
        for mech, detail in LO.check_continue(line, spaces, indent, w.linelen, w.cont, out):
            viol.append({"mech": "write_continue:" + mech, "detail": detail,
                         "case": {"line": line, "linelen": w.linelen, "cont": w.cont, "indent": indent,
                                  "spaces": spaces}})
    # write_lines directives
    for _ in range(case["n"] // 10):
        lines = []
        for _ in range(r.randint(1, 8)):
            c = r.random()
            body = gen_line(r).lstrip("\r")
            body = body.lstrip("-+#@^") or "x"
            if c < 0.15:
                lines.append(r.choice([1, -1, 2, -2]))
            elif c < 0.25:
                lines.append("+" + body)
            elif c < 0.32:
                lines.append("+" + body.rstrip("-+") + "x-")
            elif c < 0.42:
                lines.append("-" * r.randint(1, 2) + body)
            elif c < 0.5:
                lines.append(body.rstrip("+-") + "x+")
            elif c < 0.58:
                lines.append("@" + r.choice(["-", "+", "0", "#", ""]) + body)
            elif c < 0.64:
                lines.append("#" + body.replace("\t", "").replace("\f", ""))
            elif c < 0.7:
                lines.append("^" + body.replace("\t", "").replace("\f", ""))
            elif c < 0.75:
                lines.append("")
            elif c < 0.8:
                lines.append(body + "\n" + body)
            else:
                lines.append(body)
        w.linelen = r.choice([20, 40, 72, 132])
        w.cont = r.choice(["", " &"])
        w.indent = r.choice([0, 1, 3])
        indent0 = w.indent
        fp = io.StringIO()
        try:
            w.write_lines(fp, list(lines))
        except Exception as e:
            viol.append({"mech": "write_lines:exception:" + type(e).__name__, "detail": repr(e),
                         "case": {"lines": lines, "indent": indent0}})
            continue
        stats["fuzz_lines_calls"] += 1
        # reference: directive model + the (already checked) splitter of the tree
        model, final = LO.model_write_lines(lines, indent0)
        ref = io.StringIO()
        w2 = W()
        w2.linelen, w2.cont = w.linelen, w.cont
        for e in model:
            if e[0] == "raw":
                ref.write(e[1])
            else:
                w2.indent = e[2]
                w2.write_continue(ref, e[1])
        if ref.getvalue() != fp.getvalue() or final != w.indent:
            viol.append({"mech": "write_lines:directive-model",
                         "detail": "got %r want %r (final indent %r/%r)" % (fp.getvalue(), ref.getvalue(), w.indent, final),
                         "case": {"lines": lines, "indent": indent0, "linelen": w.linelen, "cont": w.cont}})
        shapes.add("WL/" + "".join(sorted(set(str(x)[:1] for x in lines))))
    return {"stats": stats, "shapes": sorted(shapes), "violations": viol[:20], "n_viol": len(viol), "sample": sample}


# --------------------------------------------------------------- main

def main(rec):
    thorough = common.tier() == "thorough"
    rec.rule = ("online: every write_continue/write_lines call made by Shroud on the workload descriptions "
                "(corpus configurations, generated libraries, line-length variants 40/72/100); fuzz: synthetic "
                "logical lines over text x \\t \\f \\r x linelen 1..132 x indent x continuation style. "
                "distinct_nontrivial = distinct (hint count, physical lines, overlong, linelen bucket, indent, "
                "marker, leading-CR) shape classes seen in the fuzz plus distinct workload runs in which at least "
                "one line was actually split")
    rec.assumptions = ["oracle vf/oracles/lines.py encodes the property's four clauses; whitespace adjacent to a "
                       "break is ignored as the property says",
                       "identifiers <= 63 characters in the Fortran 132-column scan"]
    # (a) online monitor over real runs
    specs = workloads.level_a_specs(monitors=["lines"], linelen_variants=True, thorough=thorough)
    res = pool.run_cases("vf.shroudrun", specs, timeout=300)
    for sp, r in zip(specs, res):
        if workloads.bad_run(rec, sp, r):
            continue
        e = r["events"]
        rec.count("write_continue_calls", e["continue_calls"])
        rec.count("write_continue_split_calls", e["continue_split"])
        rec.count("write_lines_calls", e["lines_calls"])
        rec.count("shroud_runs")
        nf = 0
        for rel, text in r["outputs"].items():
            if rel.endswith((".f", ".f90", ".F", ".F90")) and not sp.get("linelen"):
                nf += 1
                for n, ln, txt in LO.fortran_overlong(text):
                    rec.violation("fortran-line>132", "%s:%d has %d columns: %s" % (rel, n, ln, txt), sp)
        rec.count("fortran_files_scanned", nf)
        # layout directives (tab / form feed / carriage return) steer the writer and never reach a generated file; upstream's
        # own splicer files (user text, copied verbatim) are the only legitimate source of such a character
        user_ctl = sp.get("what") == "corpus" or bool(sp.get("links"))
        for rel, text in r["outputs"].items():
            if rel.endswith((".json", ".log", ".yaml", ".txt")) or user_ctl:
                continue
            rec.count("files_scanned_for_directive_characters")
            for n_, ln_ in enumerate(text.split("\n"), 1):
                if "\t" in ln_ or "\f" in ln_ or "\r" in ln_:
                    ch = "tab" if "\t" in ln_ else ("form-feed" if "\f" in ln_ else "carriage-return")
                    rec.violation("layout-directive-character-in-output:%s:%s" % (ch, "fortran" if rel.endswith((".f", ".f90")) else "c-family"),
                                  "%s:%d contains a raw %s: %r" % (rel, n_, ch, ln_[:200]), sp)
                    break
        if sp.get("linelen") is not None:
            # the configured length is the length every emitter writes with
            for kind, lens_ in (e.get("linelens") or {}).items():
                rec.count("configured_line_length_checks")
                want_ = sp.get("linelen_f", sp["linelen"]) if kind == "Wrapf" else sp["linelen"]
                if kind in ("Wrapc", "Wrapf", "Wrapp", "Wrapl") and lens_ != [want_]:
                    rec.violation("configured-line-length-not-used:%s" % kind,
                                  "%s: C_line_length = %d, F_line_length = %d: %s wrote with line length(s) %r" % (sp["name"], sp["linelen"], sp.get("linelen_f", sp["linelen"]), kind, lens_), sp)
        rec.case(key="run:" + sp["name"] if e["continue_split"] else None,
                 sample=(e["line_samples"][0] if e["line_samples"] and len(rec.samples) < 2 else None))
        for mech, detail in e["line_violations"]:
            rec.violation(mech, detail, sp)
    # (a2) user text is not layout input: lines of a declaration-level splicer (documented: copied into the wrapper) that
    # contain break hints, trailing '+' or exceed the line length must come out character for character
    from ..libgen import gen
    import copy as _copy
    USER = {"f": ["vf_u1 = 1 +", "vf_u2 = 'tab\there'", "vf_u3 = '" + "a b c " * 30 + "\ttail'", "vf_u4 = [1, 2, &", "         3]"],
            "c": ["int\tvf_t = 3;", "vf_z = vf_a ? vf_b : vf_c; // trailing +", "vf_s = \"" + "word " * 40 + "\tend\";"]}
    USER["py"] = USER["c"]
    ulibs = [x for x in gen.libraries(thorough, count=(12 if thorough else 4), salt="c13user") if x[0].startswith("gmix")][: (12 if thorough else 4)]
    uspecs = []
    for name, d, meta in ulibs:
        d = _copy.deepcopy(d)
        ents = [e for e in d["declarations"] if "(" in e.get("decl", "") and not e["decl"].lstrip().startswith(("class", "struct", "enum", "typedef", "namespace", "template"))]
        for e in ents[:3]:
            e["splicer"] = {k: list(v) for k, v in USER.items()}
        sp = gen.spec_for(d, name + "+inline-splicers")
        sp["monitors"] = ["lines"]
        sp["user_decls"] = len(ents[:3])
        uspecs.append(sp)
    ures = pool.run_cases("vf.shroudrun", uspecs, timeout=300)
    for sp, r in zip(uspecs, ures):
        if workloads.bad_run(rec, sp, r) or not sp["user_decls"]:
            continue
        outlines = {}
        for rel, text in r["outputs"].items():
            if rel.endswith((".json", ".log", ".yaml", ".txt")):
                continue
            lang = "f" if rel.endswith((".f", ".F", ".f90")) else ("py" if os.path.basename(rel).startswith("py") else "c")
            outlines.setdefault(lang, set()).update(x.strip() for x in text.split("\n"))
        for lang, lines in USER.items():
            if not any(ln.strip().startswith("vf_") or "vf_t" in ln for ln in outlines.get(lang, ())):
                continue            # that wrapper is not generated for this library
            for ln in lines:
                rec.count("user_splicer_lines_checked")
                if ln.strip() not in outlines.get(lang, ()):
                    rec.violation("user-splicer-line-altered-by-layout-directives:%s" % lang,
                                  "%s: the line %r of a declaration-level %s splicer does not appear unchanged in the output" % (sp["name"], ln, lang), sp)
    # (a2b) statement templates supplied by the user (fstatements, docs/fortran.rst "Statements"): the documented break hints
    # \t (may break), \f (must break) and a leading \r (double indent) work there as in Shroud's own templates, whether the
    # template is written as a YAML list of lines or as one string with newlines
    def fst_lib(form, length):
        stm = {"sum3": {"call": ["{F_result} = {F_C_call}(\f{F_arg_c_call})"]},
               "clamp3": {"call": ["{F_result} = {F_C_call}({F_arg_c_call})"],
                          "post_call": ["if ({F_result} > 100) then+", "{F_result} = min(a + b + c,\f 100,\t 1000)", "-endif"]},
               "wide3": {"call": ["\r{F_result} = {F_C_call}(\t" + "{F_arg_c_call})"],
                         "post_call": ["{F_result} = {F_result} +\t 0 +\t 0 +\f 0 +\t 0"]}}
        decls = []
        for fn, st in stm.items():
            if form == "string":
                st = {k: "\n".join(v) + ("\n" if fn == "clamp3" else "") for k, v in st.items()}
            decls.append({"decl": "int %s(int a, int b, int c)" % fn, "fstatements": {"f": st}})
        return {"library": "fst", "language": "c", "cxx_header": "fst.h",
                "options": {"wrap_python": False, "wrap_lua": False, "F_force_wrapper": True, "F_line_length": length},
                "declarations": decls}
    want_stmts = ["SHT_rv=c_sum3(a,b,c)", "SHT_rv=c_clamp3(a,b,c)", "SHT_rv=min(a+b+c,100,1000)", "SHT_rv=c_wide3(a,b,c)", "SHT_rv=SHT_rv+0+0+0+0"]
    fspecs = []
    for length in (72, 40):
        for form in ("list", "string"):
            sp = gen.spec_for(fst_lib(form, length), "fstatements-%s-%d" % (form, length))
            sp["monitors"] = ["lines"]
            sp["form"], sp["length"] = form, length
            fspecs.append(sp)
    fres = pool.run_cases("vf.shroudrun", fspecs, timeout=300)
    byform = {}
    for sp, r in zip(fspecs, fres):
        if workloads.bad_run(rec, sp, r):
            continue
        ftext = "".join(t for rel, t in sorted(r["outputs"].items()) if rel.endswith(".f"))
        byform[(sp["form"], sp["length"])] = ftext
        # the compiler's reading of the file: free-form continuation lines joined, blanks dropped
        joined, cur = [], ""
        for ln in ftext.split("\n"):
            t = ln.strip()
            if t.startswith("!"):
                continue
            if t.startswith("&"):
                t = t[1:]
            if t.endswith("&"):
                cur += t[:-1]
                continue
            joined.append((cur + t).replace(" ", ""))
            cur = ""
        for w in want_stmts:
            rec.count("user_statement_templates_checked")
            if w not in joined:
                rec.violation("user-statement-template-not-one-statement:%s-form" % sp["form"],
                              "%s: the statement %r (from an fstatements template with break hints) is not a statement of the "
                              "generated module once continuation lines are joined" % (sp["name"], w), sp)
        for ln in ftext.split("\n"):
            if "\t" in ln or "\f" in ln or "\r" in ln:
                rec.violation("layout-directive-character-in-output:user-statement-template:%s-form" % sp["form"],
                              "%s: %r" % (sp["name"], ln[:200]), sp)
                break
        for mech, detail in r["events"]["line_violations"]:
            rec.violation(mech, detail, sp)
    for length in (72, 40):
        if ("list", length) in byform and ("string", length) in byform and byform[("list", length)] != byform[("string", length)]:
            rec.violation("user-statement-template:string-form-differs-from-list-form",
                          "F_line_length=%d: the Fortran module differs between the two documented spellings of the same fstatements" % length,
                          fspecs[0])
    # (a3) 132 columns with identifiers of ordinary length: every single-row library again with its parameters renamed to
    # 24 / 31 / 40-character names (the scan above only sees the short names of the tables)
    lspecs = []
    singles = [x for x in gen.libraries(thorough, count=0, salt="c13long") if "fortran" in (x[1]["options"].get("wrap_fortran") and ("fortran",) or ())]
    lens_ = (24, 31, 40) if thorough else ((24, 31, 40)[common.seed() % 3], 40)
    for name, d, meta in singles:
        for L in sorted(set(lens_)):
            for cfi in (False, True):
                if cfi and not thorough and (len(lspecs) + common.seed()) % 2:
                    continue
                d2, n = gen.long_names(d, L)
                if not n:
                    continue
                if cfi:
                    d2["options"] = dict(d2["options"], F_CFI=True)
                d2["options"] = dict(d2["options"], wrap_python=False, wrap_lua=False)
                sp = gen.spec_for(d2, "%s+names%d%s" % (name, L, "+cfi" if cfi else ""))
                sp["monitors"] = ["lines"]
                lspecs.append(sp)
    lres = pool.run_cases("vf.shroudrun", lspecs, timeout=300)
    for sp, r in zip(lspecs, lres):
        if r.get("exc") or r.get("exit") not in (0, None):
            rec.count("long_name_descriptions_rejected")      # e.g. F_CFI on a form it does not support: not C13's question
            continue
        if workloads.bad_run(rec, sp, r):
            continue
        rec.count("long_name_runs")
        for rel, text in r["outputs"].items():
            if rel.endswith((".f", ".f90", ".F", ".F90")):
                rec.count("fortran_files_scanned_long_names")
                for n, ln, txt in LO.fortran_overlong(text):
                    stmt = re.sub(r"\w*_long_argument_name\w*", "ARG", txt.strip())
                    stmt = re.sub(r"\bf\d+\w*|\bg[cx]_\w+", "NAME", stmt)
                    rec.violation("fortran-line>132:long-names:%s" % re.sub(r"\d+", "N", stmt)[:70],
                                  "%s:%d has %d columns: %s" % (rel, n, ln, txt), sp)
        for mech, detail in r["events"]["line_violations"]:
            rec.violation(mech, detail, sp)
        rec.case(key="longnames:" + sp["name"])
    # (b) fuzz
    nchunks = 64 if thorough else 16
    per = 80000 if thorough else 12500
    cases = [{"seed": common.seed() * 1000003 + i, "n": per} for i in range(nchunks)]
    fres = pool.run_cases("vf.checks.c13", cases, func="fuzz_chunk", timeout=1800)
    for c, r in zip(cases, fres):
        if "stats" not in r:
            rec.inconclusive = "fuzz chunk failed: %r" % (r,)
            continue
        rec.merge_stats(r["stats"])
        for s in r["shapes"]:
            rec.case(key="shape:" + s)
            rec.evaluations -= 1
        rec.evaluations += r["stats"]["fuzz_continue_calls"] + r["stats"]["fuzz_lines_calls"]
        if r["sample"] and len(rec.samples) < 5:
            rec.samples.append(r["sample"])
        for v in r["violations"]:
            rec.violation(v["mech"], v["detail"], {"fuzz": v["case"]})
    if rec.counters.get("write_continue_split_calls", 0) == 0 or rec.counters.get("fuzz_continue_split", 0) == 0:
        rec.inconclusive = "no line was ever split: monitor saw nothing deciding"


def replay(bundle):
    case = bundle["case"]
    if "fuzz" in case:
        import shroud.util as util

        class W(util.WrapperMixin):
            pass
        f = case["fuzz"]
        w = W()
        if "line" in f:
            w.linelen, w.cont, w.indent = f["linelen"], f["cont"], f["indent"]
            fp = io.StringIO()
            w.write_continue(fp, f["line"], f["spaces"])
            v = LO.check_continue(f["line"], f["spaces"], f["indent"], f["linelen"], f["cont"], fp.getvalue())
            print(repr(fp.getvalue()))
        else:
            w.linelen, w.cont, w.indent = f.get("linelen", 72), f.get("cont", ""), f["indent"]
            fp = io.StringIO()
            w.write_lines(fp, list(f["lines"]))
            print(repr(fp.getvalue()))
            v = []
        print(v)
        if v:
            print("VIOLATION property=C13 replay=replayed")
            return 1
        return 0
    from .. import shroudrun
    r = pool.run_cases("vf.shroudrun", [case])[0]
    v = r.get("events", {}).get("line_violations", [])
    print(v)
    if v:
        print("VIOLATION property=C13 replay=replayed")
        return 1
    return 0
