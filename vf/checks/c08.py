"""C08 — every callable C++ signature gets exactly one, distinct wrapper name.

Deciding method: real Shroud runs on generated overload / default-argument / template / fortran_generic /
class / namespace combinations; the emitted artifacts are then read back with the compilers' help
(nm on the compiled wrapper objects for external C symbols, the Fortran module source for specifics and
generic interfaces, PyMethodDef / luaL_Reg tables) and compared with an independent naming model written
from docs/reference.rst (vf/libgen/libs.py: assign_names).
"""
from __future__ import annotations

import copy
import itertools
import os
import re
import subprocess

from .. import common, engine, pool, workloads
from ..libgen import ir, libs
from ..libgen.libs import F, P

LEVEL = "exploration"

SIGS = [[("a", "int")], [("a", "double")], [("a", "int"), ("b", "int")], [("a", "double"), ("b", "int")], [("a", "long"), ("b", "double"), ("c", "int")]]


def make_group(name, nover, ndef, explicit, tmpl, generic, cls=None, strres=False):
    """One C++ name with 'nover' overloads; the first gets 'ndef' trailing defaults; suffix policy 'explicit'."""
    fs = []
    for i in range(nover):
        # overloads are distinguished by arity (1, 4, 7 parameters; the defaults of the first add at most 2), so no call
        # is ambiguous in C++ whatever the suffix / template / generic options are
        tys = ["int", "double", "long", "int", "double", "long", "int"]
        params = [P("p%d" % j, "val", tys[(j + i) % len(tys)]) for j in range(1 + 3 * i)]
        f = F(name, "cstr" if strres else "int", params, fid="%s#%d" % (name, i))
        if cls:
            f["cls"] = cls
        y = {}
        if strres:
            # the Fortran wrapper becomes a subroutine with the result as an extra argument; names keep their suffixes
            y["format"] = {"F_string_result_as_arg": "output"}
        if i == 0 and ndef:
            extra = [P("d%d" % j, "val", "int", default=str(3 + j)) for j in range(ndef)]
            f["params"] = f["params"] + extra
            if explicit == "default_arg_suffix":
                y["default_arg_suffix"] = ["_n%d" % j for j in range(ndef + 1)]
            elif explicit == "default_arg_suffix_short":
                y["default_arg_suffix"] = ["_n%d" % j for j in range(ndef)]          # the remaining variants are numbered
            elif explicit == "default_arg_suffix_long":
                y["default_arg_suffix"] = ["_n%d" % j for j in range(ndef + 2)]      # the surplus entry is unused
        if explicit == "function_suffix" and not (i == 0 and ndef):
            y["format"] = dict(y.get("format") or {}, function_suffix="_v%s" % "abc"[i])
        if i == nover - 1 and tmpl:
            f["params"] = [P("t", "val", "ArgType")] + f["params"][1:]
            f["template"] = ["int", "double"]
        if i == nover - 1 and generic and not tmpl:
            pn = f["params"][0]["name"]
            pt = f["params"][0]["T"]
            alt = {"int": "long", "double": "float", "long": "int"}[pt]
            gs = [{"decl": "(%s %s)" % (alt, pn), "types": {pn: alt}}, {"decl": "(%s %s)" % (pt, pn), "types": {pn: pt}}]
            if generic == "sfx":
                gs[0]["function_suffix"] = "_" + alt
                gs[1]["function_suffix"] = "_" + pt
            f["generic"] = gs
        if y:
            f["yaml"] = y
        fs.append(f)
    return fs


ASSUMED_RANK_NEIGHBOUR = {
    # docs/fortran.rst assumed rank (generic.yaml SumValues): Shroud expands the declaration into one specific per rank;
    # it stands before the modelled declarations, its own names are not judged
    "raw_decls": [{"decl": "int vfSumValues(const int *values +dimension(..), int nvalues)", "options": {"F_assumed_rank_max": 2}}],
    "raw_header": "int vfSumValues(const int *values, int nvalues);",
    "raw_impl": "int vfSumValues(const int *values, int nvalues) { int i, s = 0; for (i = 0; i < nvalues; i++) s += values[i]; return s; }",
    "raw_ignore": r"vf_?sum_?values",
}


def build_lib(name, groups, lang="c++", wraps=("c", "fortran", "python", "lua"), namespace=None, fmt=None, interleave=False, neighbour=None):
    funcs = []
    classes = []
    if interleave:
        # the members of an overload set need not be adjacent in the declaration list: round-robin over the
        # names (the relative order inside each set, which the numbering depends on, is kept)
        rr_ = []
        gs = [list(g) for g in groups]
        while any(gs):
            for g in gs:
                if g:
                    rr_.append([g.pop(0)])
        groups = rr_
    for g in groups:
        for f in g:
            f.setdefault("shape", "c08")
            if f.get("cls") and f["cls"] not in classes:
                classes.append(f["cls"])
                funcs.append(F(f["cls"], "void", [], cls=f["cls"], ctor=True, fid=f["cls"] + "#ctor"))
            funcs.append(f)
    opts = {"wrap_c": "c" in wraps, "wrap_fortran": "fortran" in wraps, "wrap_python": "python" in wraps, "wrap_lua": "lua" in wraps}
    lib = {"name": name, "language": lang, "functions": funcs, "options": opts, "format": dict(fmt or {}), "namespace": namespace, "wraps": list(wraps)}
    if neighbour:
        lib.update(neighbour)
    libs.assign_names(lib)
    return lib


def expected_names(lib):
    """Model: C entry points and Fortran specifics / generics predicted from the input alone."""
    c_names = []
    f_specs = {}
    f_generics = {}
    for f in lib["functions"]:
        for v in f["variants"]:
            gens = f.get("generic")
            c_names.append(v["c_name"])
            if f.get("ctor"):
                spec = v["f_specific"]
                f_specs[spec] = v["c_name"]
                f_generics.setdefault(f["cls"].lower(), set()).add(spec)
                continue
            if gens:
                for gi, g in enumerate(gens):
                    sfx = g.get("function_suffix", "_%d" % gi)
                    spec = v["f_specific"] + sfx.lower()
                    f_specs[spec] = v["c_name"]
                    key = ((f.get("cls") or "").lower(), v["f_generic"])
                    f_generics.setdefault(key, set()).add(spec)
            else:
                spec = v["f_specific"]
                f_specs[spec] = v["c_name"]
                key = ((f.get("cls") or "").lower(), v["f_generic"])
                f_generics.setdefault(key, set()).add(spec)
    return c_names, f_specs, f_generics


def run_library(case):
    lib = case["lib"]
    res = {"violations": [], "stats": {}, "name": lib["name"]}
    rr = engine.generate(lib)
    cwd = rr.get("cwd")
    try:
        if rr.get("exc") or rr.get("exit") != 0:
            e = rr.get("exc") or {}
            res["violations"].append({"mech": "shroud-rejects:%s:%s" % (e.get("type"), (e.get("msg") or "").split("\n")[-1][:50]),
                                      "detail": "%s: %s" % (lib["name"], (e.get("msg") or "")[:500])})
            return res
        out = os.path.join(cwd, "out")
        objs = engine.build_objects(lib, out, res, sanitize=False)
        c_names, f_specs, f_generics = expected_names(lib)
        st = res["stats"]
        st["signatures"] = len(c_names)
        # ---- external C symbols
        if objs is None:
            # a duplicate definition does not even compile: read the definitions from the sources
            defs = []
            for f in engine.c_family_files(out):
                defs += re.findall(r"^[A-Za-z_][\w \*]*?\b(%s\w+)\(" % re.escape(lib["c_prefix"]), open(os.path.join(out, f)).read(), re.M)
            for s_ in sorted({x for x in defs if defs.count(x) > 1}):
                res["violations"].append({"mech": "duplicate-c-symbol:%s" % _kind(lib, s_), "detail": "%s: %s defined %d times (sources do not compile)" % (lib["name"], s_, defs.count(s_))})
            res["violations"] = [v for v in res["violations"] if not v["mech"].startswith("compile-fails:generated")] if any(v["mech"].startswith("duplicate-c-symbol") for v in res["violations"]) else res["violations"]
        if objs is not None:
            wobjs = [o for o in objs if not o.startswith(lib["name"] + "_impl")]
            p = subprocess.run(["nm", "--defined-only"] + wobjs, cwd=out, capture_output=True, text=True)
            syms = re.findall(r" T (\w+)$", p.stdout, re.M)
            dup = sorted({s for s in syms if syms.count(s) > 1})
            for s in dup:
                res["violations"].append({"mech": "duplicate-c-symbol:%s" % _kind(lib, s), "detail": "%s: %s defined %d times" % (lib["name"], s, syms.count(s))})
            for n in c_names:
                st["c_names_checked"] = st.get("c_names_checked", 0) + 1
                if n not in syms:
                    res["violations"].append({"mech": "c-entry-point-missing-or-misnamed:%s" % _kind(lib, n),
                                              "detail": "%s: expected external symbol %s; emitted %s" % (lib["name"], n, sorted(set(syms)))})
            # each name must belong to the signature the model assigns it to (arity = leading parameters used)
            hdr = "\n".join(open(os.path.join(out, f)).read() for f in os.listdir(out) if f.startswith("wrap") and f.endswith(".h"))
            hdr = re.sub(r"\s+", " ", hdr)
            for f in lib["functions"]:
                for v in f["variants"]:
                    m = re.search(r"\b%s\(([^)]*)\)" % re.escape(v["c_name"]), hdr)
                    if not m:
                        continue
                    ps = [x for x in m.group(1).split(",") if x.strip() and x.strip() != "void"]
                    want = v["nparams"] + (1 if f.get("cls") else 0)
                    st["arity_checked"] = st.get("arity_checked", 0) + 1
                    if len(ps) != want:
                        res["violations"].append({"mech": "name-bound-to-wrong-signature:%s" % _kind(lib, v["c_name"]),
                                                  "detail": "%s: %s takes %d C arguments (%s); the documented name belongs to the %d-argument form" % (
                                                      lib["name"], v["c_name"], len(ps), m.group(1), want)})
            prefix = lib["c_prefix"]
            for s in set(syms):
                base = re.sub(r"(_bufferify|_CFI)$", "", s)
                if s in c_names or base in c_names:
                    continue
                if lib.get("raw_ignore") and re.search(lib["raw_ignore"], s, re.I):
                    continue
                # the extra C entry point of a fortran_generic entry with a new scalar / array pattern: <name of the
                # variant><suffix of the entry>; it must be unique (duplicates are reported above)
                if any(s == v["c_name"] + g.get("function_suffix", "") for f in lib["functions"] for v in f["variants"] for g in (f.get("generic") or []) if "rank(" in g.get("decl", "")):
                    continue
                if s.startswith(prefix + "SHROUD_") or s.startswith(prefix + "Shroud") or re.search(r"_(get_instance|set_instance|associated|final|dtor)$", s):
                    continue
                res["violations"].append({"mech": "unpredicted-c-symbol:%s" % re.sub(r"g\d+", "G", s)[:30],
                                          "detail": "%s: symbol %s is not predicted by the documented name templates (expected %s)" % (lib["name"], s, sorted(c_names))})
        # ---- Fortran
        ftext = "\n".join(open(os.path.join(out, f)).read() for f in engine.fortran_files(out))
        ftext_nc = "\n".join(ln for ln in ftext.split("\n") if not ln.lstrip().startswith("!"))
        code = re.sub(r"&\s*\n\s*", "", ftext_nc)
        contains = code.split("\ncontains\n", 1)[1] if "\ncontains\n" in code else ""
        procs = [m.lower() for m in re.findall(r"^\s*(?:pure\s+|elemental\s+)*(?:function|subroutine)\s+(\w+)", contains, re.M | re.I)]
        # when no Fortran-side work is needed the specific IS the bind(C) interface body of that name
        head = code.split("\ncontains\n", 1)[0]
        procs += [m.lower() for m in re.findall(r"^\s*(?:pure\s+|elemental\s+)*(?:function|subroutine)\s+(\w+)", head, re.M | re.I)
                  if not m.lower().startswith("c_")]
        if "fortran" in lib["wraps"]:
            dupf = sorted({x for x in procs if procs.count(x) > 1})
            for x in dupf:
                kind = next((_kind(lib, v["c_name"]) for f in lib["functions"] for v in f["variants"] if v["f_specific"] == x), "?")
                res["violations"].append({"mech": "duplicate-fortran-procedure:%s" % kind, "detail": "%s: %s" % (lib["name"], x)})
            for spec in f_specs:
                st["fortran_specifics_checked"] = st.get("fortran_specifics_checked", 0) + 1
                if procs.count(spec) > 1:
                    continue        # reported above as duplicate-fortran-procedure
                if procs.count(spec) != 1:
                    res["violations"].append({"mech": "fortran-specific-missing-or-misnamed:%s" % ("generic-variant" if re.search(r"_(int|long|float|double|\d)$", spec) else "plain"),
                                              "detail": "%s: expected exactly one module procedure %s; module procedures: %s" % (lib["name"], spec, procs)})
            # generic interfaces
            ifaces = {}
            for m in re.finditer(r"^\s*interface\s+(\w+)\s*\n(.*?)^\s*end interface", code, re.M | re.S | re.I):
                ifaces.setdefault(m.group(1).lower(), []).extend(x.lower() for x in re.findall(r"module procedure\s+(\w+)", m.group(2), re.I))
            tbound = {}
            for m in re.finditer(r"^\s*type\s+(\w+)\s*\n(.*?)^\s*end type", code, re.M | re.S | re.I):
                tname = m.group(1).lower()
                bind = {a.lower(): b.lower() for a, b in re.findall(r"procedure(?:\s*,\s*nopass)?\s*::\s*(\w+)\s*=>\s*(\w+)", m.group(2), re.I)}
                for gm in re.finditer(r"generic\s*::\s*(\w+)\s*=>\s*([\w \t,]+)", m.group(2), re.I):
                    tbound[(tname, gm.group(1).lower())] = sorted(bind.get(x.strip().lower(), x.strip().lower()) for x in gm.group(2).split(","))
                for a, b in bind.items():
                    tbound.setdefault((tname, "=" + a), []).append(b)
            for key, specs in f_generics.items():
                if isinstance(key, str):
                    got = ifaces.get(key)
                    st["generics_checked"] = st.get("generics_checked", 0) + 1
                    if got is None or sorted(got) != sorted(specs):
                        res["violations"].append({"mech": "constructor-generic-differs", "detail": "%s: interface %s lists %r, expected %r" % (lib["name"], key, got, sorted(specs))})
                    continue
                cls, gname = key
                if len(specs) < 2:
                    continue
                st["generics_checked"] = st.get("generics_checked", 0) + 1
                if cls:
                    got = tbound.get((cls, gname))
                else:
                    got = ifaces.get(gname)
                if got is not None and dupf and sorted(set(got)) == sorted(specs):
                    continue        # the duplicated specifics were reported above
                if got is None or sorted(got) != sorted(specs):
                    res["violations"].append({"mech": "generic-interface-differs:%s" % ("class" if cls else "module"),
                                              "detail": "%s: generic %s%s lists %r, expected exactly %r" % (lib["name"], (cls + "%") if cls else "", gname, got, sorted(specs))})
        # ---- Python / Lua tables
        for f in os.listdir(out):
            if f.startswith("py") and f.endswith((".c", ".cpp")):
                t = open(os.path.join(out, f)).read()
                for m in re.finditer(r"static PyMethodDef (\w+)\[\] = \{(.*?)\};", t, re.S):
                    names = re.findall(r'\{\s*"(\w+)"', m.group(2))
                    st["method_table_entries"] = st.get("method_table_entries", 0) + len(names)
                    for d in sorted({x for x in names if names.count(x) > 1}):
                        res["violations"].append({"mech": "duplicate-python-method-entry", "detail": "%s: %s in %s" % (lib["name"], d, m.group(1))})
                defs = re.findall(r"^(PY_\w+|PP_\w+)\(\s*$", t, re.M)
                for d in sorted({x for x in defs if defs.count(x) > 1}):
                    res["violations"].append({"mech": "duplicate-python-function", "detail": "%s: %s defined twice in %s" % (lib["name"], d, f)})
            if f.startswith("lua") and f.endswith((".c", ".cpp")):
                t = open(os.path.join(out, f)).read()
                for m in re.finditer(r"luaL_Reg (\w+)\s*\[\] = \{(.*?)\};", t, re.S):
                    names = re.findall(r'\{\s*"(\w+)"', m.group(2))
                    st["method_table_entries"] = st.get("method_table_entries", 0) + len(names)
                    for d in sorted({x for x in names if names.count(x) > 1}):
                        res["violations"].append({"mech": "duplicate-lua-method-entry", "detail": "%s: %s in %s" % (lib["name"], d, m.group(1))})
        res["sample"] = {"library": lib["name"], "decls": [ir.func_decl(f) for f in lib["functions"]][:6], "c_names": c_names[:10],
                         "fortran_specifics": sorted(f_specs)[:10]}
        return res
    finally:
        if cwd:
            common.rmtree(cwd)


def parse_fortran(code):
    """(module procedures, {generic: [specifics]}) of preprocessed, comment-free, continuation-joined module text."""
    contains = "\n".join(part.split("\ncontains\n", 1)[1] for part in code.split("end module") if "\ncontains\n" in part)
    procs = [m.lower() for m in re.findall(r"^\s*(?:pure\s+|elemental\s+)*(?:function|subroutine)\s+(\w+)", contains, re.M | re.I)]
    ifaces = {}
    for m in re.finditer(r"^\s*interface\s+(\w+)\s*\n(.*?)^\s*end interface", code, re.M | re.S | re.I):
        ifaces.setdefault(m.group(1).lower(), []).extend(x.lower() for x in re.findall(r"module procedure\s+(\w+)", m.group(2), re.I))
    return procs, ifaces


def run_cppif(case):
    """Overload sets of which some members carry cpp_if: with the macro defined and undefined, the generic interface of a
    C++ name must list exactly the specifics that exist in that configuration (the preprocessor sees the module)."""
    lib = case["lib"]
    conds = dict(case.get("conds") or {x: "ifdef VF_GUARD" for x in case["guarded"]})
    macros = sorted({c.split()[1] for c in conds.values()})
    def holds(spec, defined):
        c = conds.get(spec)
        if not c:
            return True
        kw, m = c.split()
        return (m in defined) if kw == "ifdef" else (m not in defined)
    res = {"violations": [], "stats": {}, "name": lib["name"]}
    rr = engine.generate(lib)
    cwd = rr.get("cwd")
    try:
        if rr.get("exc") or rr.get("exit") != 0:
            k_, t_ = engine.reject_mech(rr)
            res["violations"].append({"mech": "shroud-rejects:" + k_, "detail": "%s: %s" % (lib["name"], t_)})
            return res
        out = os.path.join(cwd, "out")
        c_names, f_specs, f_generics = expected_names(lib)
        modes = []
        for bits in itertools.product([False, True], repeat=len(macros)):
            dset = {m for m, b in zip(macros, bits) if b}
            modes.append(("+".join(sorted(dset)) or "none-defined", ["-D" + m for m in sorted(dset)], dset))
        for mode, flags, dset in modes:
            code = ""
            for f in engine.fortran_files(out):
                p = subprocess.run(["gfortran", "-cpp", "-E", "-P"] + flags + [f], cwd=out, capture_output=True, text=True, timeout=120)
                if p.returncode != 0:
                    res["violations"].append({"mech": "module-does-not-preprocess", "detail": "%s %s\n%s" % (lib["name"], f, p.stderr[:800])})
                code += p.stdout + "\n"
            # the module must also be accepted by the compiler in this configuration
            for f in engine.fortran_files(out):
                q = subprocess.run(["gfortran", "-cpp", "-ffree-form", "-fsyntax-only", "-w"] + flags + [f], cwd=out, capture_output=True, text=True, timeout=120)
                res["stats"]["cpp_if_module_compiles"] = res["stats"].get("cpp_if_module_compiles", 0) + 1
                if q.returncode != 0:
                    w_, m_ = engine.first_error(q.stderr)
                    res["violations"].append({"mech": "cpp_if:module-does-not-compile:%s" % m_, "detail": "%s [defined: %s] %s\n%s" % (lib["name"], mode, f, q.stderr[:1200])})
            code = "\n".join(ln for ln in code.split("\n") if not ln.lstrip().startswith("!"))
            code = re.sub(r"&\s*\n\s*", "", code)
            procs, ifaces = parse_fortran(code)
            for key, specs in f_generics.items():
                if isinstance(key, str) or key[0] or len(specs) < 2:
                    continue
                active = sorted(x for x in specs if holds(x, dset))
                got = sorted(ifaces.get(key[1]) or [])
                res["stats"]["cpp_if_generics_checked"] = res["stats"].get("cpp_if_generics_checked", 0) + 1
                missing_procs = [x for x in active if x not in procs]
                if missing_procs:
                    res["violations"].append({"mech": "cpp_if:specific-missing:%s" % ("all-defined" if len(dset) == len(macros) else "some-undefined"),
                                              "detail": "%s [%s]: module procedures %s expected, module has %s" % (lib["name"], mode, missing_procs, procs)})
                elif got != active and not (len(active) == 1 and not got):
                    res["violations"].append({"mech": "cpp_if:generic-differs:%s" % ("all-defined" if len(dset) == len(macros) else "some-undefined"),
                                              "detail": "%s [defined: %s]: generic %s lists %r; the specifics that exist are %r" % (lib["name"], mode, key[1], got, active)})
        return res
    finally:
        if cwd:
            common.rmtree(cwd)


def _kind(lib, cname):
    for f in lib["functions"]:
        for v in f["variants"]:
            if v["c_name"] == cname:
                k = []
                if f.get("template"):
                    k.append("template")
                if any("default" in p for p in f["params"]):
                    k.append("default")
                if f.get("generic"):
                    k.append("generic")
                if f.get("cls"):
                    k.append("class")
                return "+".join(k) or "plain"
    return "?"


def rank_generic_groups():
    """An overload pair and a defaulted function whose fortran_generic entries differ in rank from the C declaration:
    Shroud adds one more C entry point per new scalar / array pattern, named after the overload / default variant AND
    the entry (docs/fortran.rst fortran_generic; generic.yaml SavePointer)."""
    gi = [{"decl": "(const int *values)", "function_suffix": "_scalar"}, {"decl": "(const int *values +rank(1))", "function_suffix": "_array"}]
    gd = [{"decl": "(const double *values)", "function_suffix": "_scalar"}, {"decl": "(const double *values +rank(1))", "function_suffix": "_array"}]
    g1 = [F("sumv", "int", [P("values", "ptr_in", "int"), P("nv", "val", "int")], fid="sumv#i", generic=gi),
          F("sumv", "double", [P("values", "ptr_in", "double"), P("nv", "val", "int")], fid="sumv#d", generic=gd)]
    g2 = [F("scalev", "int", [P("values", "ptr_in", "int"), P("nv", "val", "int"), P("k", "val", "int", default="2")], fid="scalev#i", generic=gi)]
    return [g1, g2]


def run_class_templates(case):
    """Class templates instantiated in several scopes (library level, two namespaces): the C entry point of a member is
    {C_prefix}{C_name_scope}{name} with C_name_scope = <namespaces>_<class>_<instantiation>_ (docs/reference.rst
    C_name_scope, docs/templates.rst); every (scope, instantiation, member) has exactly one entry point."""
    from .. import shroudrun
    res = {"violations": [], "stats": {}, "name": case["name"]}
    scopes = case["scopes"]          # [(namespace or None, class name, [instantiations], [member names incl. ctor])]
    decls = []
    expect = []
    for ns, cls, insts, members in scopes:
        md = [{"decl": "%s()" % cls}] + [{"decl": ("T %s()" % m) if not m.startswith("set") else ("void %s(T v)" % m)} for m in members]
        ent = {"decl": "template<typename T> class %s" % cls, "cxx_template": [{"instantiation": "<%s>" % t} for t in insts], "declarations": md}
        if ns:
            blk = next((b for b in decls if b["decl"] == "namespace %s" % ns), None)
            if blk is None:
                blk = {"decl": "namespace %s" % ns, "declarations": []}
                decls.append(blk)
            blk["declarations"].append(ent)
        else:
            decls.append(ent)
        for t in insts:
            for m in ["ctor"] + members:
                expect.append("%s%s%s_%s_%s" % (case["prefix"], (ns + "_") if ns else "", cls, t.replace(" ", "_"), m))
    y = {"library": case["lib"], "cxx_header": case["lib"] + ".hpp", "language": "c++", "format": {"C_prefix": case["prefix"]},
         "options": {"wrap_c": True, "wrap_fortran": True, "wrap_python": False, "wrap_lua": False}, "declarations": decls}
    sp = {"name": case["name"], "files": {"work/%s.yaml" % case["lib"]: workloads.dump_yaml(y)}, "dirs": ["out"],
          "argv": ["--outdir", "out", "--logdir", "out", "work/%s.yaml" % case["lib"]], "monitors": []}
    rr = shroudrun.run(sp)
    if rr.get("exc") or rr.get("exit") != 0:
        k_, t_ = engine.reject_mech(rr)
        res["violations"].append({"mech": "class-template:shroud-rejects:" + k_, "detail": "%s: %s" % (case["name"], t_)})
        return res
    protos = []
    for rel, text in rr["outputs"].items():
        if rel.endswith(".h"):
            protos += re.findall(r"^[A-Za-z_][\w \*]*?\b(%s\w+)\(" % re.escape(case["prefix"]), text, re.M)
    res["stats"]["class_template_entry_points_checked"] = len(expect)
    for d_ in sorted({x for x in protos if protos.count(x) > 1}):
        res["violations"].append({"mech": "duplicate-c-symbol:class-template", "detail": "%s: %s declared %d times" % (case["name"], d_, protos.count(d_))})
    for n in expect:
        if n not in protos:
            res["violations"].append({"mech": "c-entry-point-missing-or-misnamed:class-template%s" % (":in-namespace" if n.count("_") > 4 else ""),
                                      "detail": "%s: expected %s; declared: %s" % (case["name"], n, sorted(set(protos)))})
    return res


def cppif_cases():
    """Overload sets whose members carry cpp_if conditions (some members / every member, equal or different conditions)."""
    # cpp_if on some members of an overload set (first / last / middle member guarded)
    cpp_cases = []
    for ci, (nover, which) in enumerate([(2, [0]), (2, [1]), (3, [0]), (3, [1]), (3, [0, 2]), (3, [2])]):
        g = make_group("g0name", nover, 0, None, False, None)
        guarded = []
        for wi in which:
            g[wi].setdefault("yaml", {})["cpp_if"] = "ifdef VF_GUARD"
        libc = build_lib("ncpp%d" % ci, [g, make_group("g1name", 1, 0, None, False, None)], "c++", ("c", "fortran"))
        for wi in which:
            guarded += [v["f_specific"] for v in libc["functions"][wi]["variants"]]
        cpp_cases.append({"lib": libc, "guarded": guarded})
    # every member guarded, with different conditions (ifdef / ifndef of one macro; two macros; same condition everywhere)
    for ci, condl in enumerate([["ifdef VF_A", "ifndef VF_A"], ["ifdef VF_A", "ifdef VF_B"], ["ifdef VF_A", "ifdef VF_A"],
                                ["ifndef VF_A", "ifdef VF_A", "ifdef VF_B"], ["ifdef VF_B", "ifdef VF_A", "ifdef VF_A"]]):
        g = make_group("g0name", len(condl), 0, None, False, None)
        for wi, c_ in enumerate(condl):
            g[wi].setdefault("yaml", {})["cpp_if"] = c_
        libc = build_lib("ncppall%d" % ci, [g, make_group("g1name", 1, 0, None, False, None)], "c++", ("c", "fortran"))
        conds = {}
        for wi, c_ in enumerate(condl):
            for v in libc["functions"][wi]["variants"]:
                conds[v["f_specific"]] = c_
        cpp_cases.append({"lib": libc, "guarded": sorted(conds), "conds": conds})
    return cpp_cases


def main(rec):
    thorough = common.tier() == "thorough"
    r = common.rng("c08")
    rec.rule = ("one C++ name = overload set size 1..3 x trailing defaults 0..2 on the first overload x suffix policy "
                "{none, function_suffix, default_arg_suffix complete / one entry short / one entry long} x {no template, 2 instantiations} x {no fortran_generic, 2 entries "
                "with/without explicit suffix} x {free function, class method} x {overload set adjacent / interleaved with other names in the declaration list}; exhaustive over this product (quick: each "
                "combination once, 6 names per library), libraries also vary namespace and C_prefix; distinct_nontrivial = "
                "distinct callable signatures whose C and Fortran names were compared with the model")
    rec.assumptions = ["naming model vf/libgen/libs.py:assign_names written from docs/reference.rst (C_name_template, F_name_impl_template, "
                       "F_name_generic_template, default suffix rules)", "un_camel (CamelCase -> underscore_name) as implemented in vf/libgen/libs.py; CamelCase names are used in the ncamel libraries only"]
    combos = []
    for nover, ndef, explicit, tmpl, generic, incls in itertools.product([1, 2, 3], [0, 1, 2], [None, "function_suffix", "default_arg_suffix", "default_arg_suffix_short", "default_arg_suffix_long"],
                                                                        [False, True], [None, "nosfx", "sfx"], [False, True]):
        if (explicit or "").startswith("default_arg_suffix") and not ndef:
            continue
        if tmpl and generic:
            continue
        if tmpl and incls:
            continue
        combos.append((nover, ndef, explicit, tmpl, generic, incls))
    if not thorough:
        r.shuffle(combos)
    cases = []
    per = 6
    for bi in range(0, len(combos), per):
        groups = []
        for gi, (nover, ndef, explicit, tmpl, generic, incls) in enumerate(combos[bi:bi + per]):
            groups.append(make_group("g%dname" % gi, nover, ndef, explicit, tmpl, generic, cls=("K%d" % (gi % 2)) if incls else None))
        k = bi // per
        ns = [None, "outer", "outer inner"][k % 3]
        fmt = [{}, {"C_prefix": "ZZ_"}][k % 2]
        wraps = [("c", "fortran"), ("c", "fortran", "python"), ("c", "fortran", "python", "lua")][k % 3]
        # python/lua cannot wrap templates/generics the same way; names there are checked for duplicates only
        # every other library starts with an assumed-rank declaration (processed before the modelled ones)
        cases.append({"lib": build_lib("n%d" % k, groups, "c++", [w for w in wraps if k % 2 == 0 or w in ("c", "fortran")], namespace=ns, fmt=fmt, interleave=(k % 4 >= 2),
                                       neighbour=(ASSUMED_RANK_NEIGHBOUR if k % 2 else None))})
    cases.append({"lib": build_lib("nrank", rank_generic_groups(), "c++", ("c", "fortran"))})
    # two overloaded function templates with the same instantiation list
    tt = [F("ttname", "int", [P("t", "val", "ArgType")], template=["int", "double"], fid="tt#0"),
          F("ttname", "int", [P("t", "val", "ArgType"), P("b", "val", "int")], template=["int", "double"], fid="tt#1")]
    cases.append({"lib": build_lib("ntt", [tt], "c++", ("c", "fortran"))})
    # several function templates with two type parameters whose instantiation lists share entries at different positions
    # (docs/reference.rst template_suffix: with several template arguments the suffix is the position in the template's own list);
    # the result type is not a template parameter (Shroud deliberately writes no generic when it is)
    t2 = [[F("pairUp", "int", [P("v", "val", "Value"), P("k", "val", "Index")], tparams=["Value", "Index"],
             template=[["int", "long"], ["float", "double"]], fid="pu#0")],
          [F("mixDown", "int", [P("v", "val", "Value"), P("k", "val", "Index")], tparams=["Value", "Index"],
             template=[["long", "int"], ["int", "long"]], fid="md#0")],
          [F("lastOne", "int", [P("v", "val", "Value"), P("k", "val", "Index")], tparams=["Value", "Index"],
             template=[["double", "int"], ["float", "double"], ["int", "long"]], fid="lo#0")],
          [F("oneArg", "int", [P("t", "val", "ArgType")], template=["long", "int"], fid="oa#0")]]
    cases.append({"lib": build_lib("nt2", t2, "c++", ("c", "fortran"))})
    cases.append({"lib": build_lib("nt2ns", [list(g) for g in copy.deepcopy(t2)], "c++", ("c", "fortran"), namespace="outer")})
    if thorough:
        for k in range(60):
            groups = [make_group("g%dname" % gi, *r.choice(combos)[:5], cls=r.choice([None, "K0", "K1"])) for gi in range(r.randint(2, 8))]
            groups = [g for g in groups if not (any(f.get("template") for f in g) and any(f.get("cls") for f in g))]
            cases.append({"lib": build_lib("r%d" % k, groups, "c++", ("c", "fortran"), namespace=r.choice([None, "outer"]), interleave=r.random() < 0.5)})
    # string results returned through an argument (format F_string_result_as_arg) in overload / default sets
    sk = 0
    groups = []
    for nover, ndef, explicit, incls in itertools.product([1, 2, 3], [0, 1, 2], [None, "function_suffix", "default_arg_suffix"], [False, True]):
        if (explicit == "default_arg_suffix" and not ndef) or (nover == 1 and not ndef and not explicit):
            continue
        groups.append(make_group("s%dname" % (len(groups) % 5), nover, ndef, explicit, False, None, cls=("K0" if incls else None), strres=True))
        if len(groups) == 5:
            cases.append({"lib": build_lib("nstr%d" % sk, groups, "c++", ("c", "fortran"), interleave=(sk % 2 == 1))})
            sk += 1
            groups = []
    if groups:
        cases.append({"lib": build_lib("nstr%d" % sk, groups, "c++", ("c", "fortran"))})
    # CamelCase C++ names (underscore_name = un_camel of the C++ name): acronyms, digits, capitals next to the end
    camel = ["getIDs", "getIds", "numCPUs", "toRGBa", "parseHTMLDoc", "setName", "Vec3Ab", "incrementBy2", "XMLHttpRequest2", "aB"]
    for ci in range(0, len(camel), 5):
        groups = []
        for gi, nm in enumerate(camel[ci:ci + 5]):
            groups.append(make_group(nm, 1 + (gi % 2), gi % 3 if gi % 2 == 0 else 0, None, False, None, cls=("K0" if gi == 3 else None)))
        cases.append({"lib": build_lib("ncamel%d" % (ci // 5), groups, "c++", ("c", "fortran", "python") if ci else ("c", "fortran"))})
    cpp_cases = cppif_cases()
    cres = pool.run_cases("vf.checks.c08", cpp_cases, func="run_cppif", timeout=600)
    for c, rr in zip(cpp_cases, cres):
        if "stats" not in rr:
            workloads.bad_run(rec, {"name": c["lib"]["name"]}, rr)
            continue
        rec.merge_stats(rr["stats"])
        for v in rr["violations"]:
            rec.violation(v["mech"], v["detail"], {"lib": c["lib"]["name"], "guarded": c["guarded"]})
    tcases = [{"name": "ctmpl0", "lib": "bx", "prefix": "BX_", "scopes": [("geom", "Box", ["int", "double"], ["get", "set"]), ("store", "Box", ["int"], ["get", "set"]), (None, "Box", ["int"], ["get"])]},
              {"name": "ctmpl1", "lib": "pr", "prefix": "ZQ_", "scopes": [("alpha", "Pair", ["long"], ["get"]), ("beta", "Pair", ["long", "float"], ["get", "setv"])]}]
    tres = pool.run_cases("vf.checks.c08", tcases, func="run_class_templates", timeout=600)
    for c, rr in zip(tcases, tres):
        if "stats" not in rr:
            workloads.bad_run(rec, {"name": c["name"]}, rr)
            continue
        rec.merge_stats(rr["stats"])
        for v in rr["violations"]:
            rec.violation(v["mech"], v["detail"], c)
    res = pool.run_cases("vf.checks.c08", cases, func="run_library", timeout=1800)
    for c, rr in zip(cases, res):
        if "stats" not in rr:
            workloads.bad_run(rec, {"name": c["lib"]["name"]}, rr)
            continue
        if rr.get("harness_error"):
            rec.inconclusive = rr["harness_error"][:300]
        rec.merge_stats(rr["stats"])
        rec.evaluations += rr["stats"].get("signatures", 0)
        if rr.get("sample") and len(rec.samples) < 3:
            rec.samples.append(rr["sample"])
        for v in rr["violations"]:
            rec.violation(v["mech"], v["detail"], {"lib": c["lib"]["name"], "decls": [dict({"decl": ir.func_decl(f)}, **(f.get("yaml") or {})) for f in c["lib"]["functions"]]})
    rec.distinct_override = rec.counters.get("c_names_checked", 0)
    if rec.counters.get("c_names_checked", 0) == 0:
        rec.inconclusive = rec.inconclusive or "no name was compared"


def replay(bundle):
    print("re-run ./check C08")
    return 2
