"""C02 — the generated C API of a C++ library is call-equivalent to the C++ API.

Deciding method: for generated C++ libraries, the wrappers Shroud emits are compiled with
ASan+UBSan, linked with an instrumented subject library and driven by a synthesised C99 driver that
includes only the generated headers; the library's RECV/SEND trace and the driver's OUT records are
compared call by call with the reference model.  Upstream testc.c drivers run as a second workload.
"""
from __future__ import annotations

import os

from .. import buildfarm, common, engine, pool, workloads
from ..drivers import c as cdrv
from ..libgen import ir, libs

LEVEL = "exploration"


def plan_with_objects(lib, r):
    """Free-function calls + short object histories for every class."""
    plan = libs.call_plan(lib, r)
    classes = []
    for f in lib["functions"]:
        if f.get("cls") and f["cls"] not in classes:
            classes.append(f["cls"])
    for c in classes:
        fs = [(i, f) for i, f in enumerate(lib["functions"]) if f.get("cls") == c]
        ctors = [(i, f) for i, f in fs if f.get("ctor")]
        dtor = next(((i, f) for i, f in fs if f.get("dtor")), None)
        meths = [(i, f) for i, f in fs if not f.get("ctor") and not f.get("dtor")]
        for oi, (ci, cf) in enumerate(ctors * 2):
            obj = "o_%s_%d" % (c, oi)
            args = {p["name"]: libs.base_value(p, r) if oi < len(ctors) else r.choice(libs.battery(p["T"])) for p in cf["params"]}
            plan.append({"f": ci, "variant": 0, "args": args, "obj": obj, "cls": c, "op": "new"})
            for _ in range(3):
                mi, mf = r.choice(meths)
                vj = r.randrange(len(mf["variants"]))
                margs = {p["name"]: r.choice(libs.battery(p["T"])) for p in mf["params"][:mf["variants"][vj]["nparams"]]}
                plan.append({"f": mi, "variant": vj, "args": margs, "obj": obj, "cls": c, "op": "call"})
        # interleave: call methods on the first object again after others were created (right 'this')
        if ctors and meths:
            mi, mf = meths[0]
            plan.append({"f": mi, "variant": 0, "args": {p["name"]: libs.base_value(p, r) for p in mf["params"]}, "obj": "o_%s_0" % c, "cls": c, "op": "call"})
        # free functions taking an object of this class (by const / non-const reference or pointer)
        if ctors:
            for fi, f in enumerate(lib["functions"]):
                cps = [p for p in f["params"] if p["kind"] in ("cls_cptr", "cls_cref", "cls_ref") and p.get("cls") == c]
                if f.get("cls") or not cps:
                    continue
                for vj, v in enumerate(f["variants"]):
                    for oi in range(len(ctors) * 2):
                        args = {p["name"]: (r.choice(libs.battery(p["T"])) if p["kind"] == "val" else None) for p in f["params"][:v["nparams"]]}
                        plan.append({"f": fi, "variant": vj, "args": args, "arg_objs": {p["name"]: "o_%s_%d" % (c, oi) for p in cps}, "op": "call"})
        if dtor:
            for oi in range(len(ctors) * 2):
                plan.append({"f": dtor[0], "variant": 0, "args": {}, "obj": "o_%s_%d" % (c, oi), "cls": c, "op": "delete"})
    return plan


C_CONV = {"in": None, "out": None}


def run_library(case):
    lib, plan = case["lib"], case["plan"]
    res = {"violations": [], "stats": {}, "name": lib["name"]}
    plan = [c for c in plan if cdrv.c_callable(lib["functions"][c["f"]])]
    rr = engine.generate(lib)
    cwd = rr.get("cwd")
    try:
        if rr.get("exc") or rr.get("exit") != 0:
            e = rr.get("exc") or {}
            _k, _t = engine.reject_mech(rr)
            res["violations"].append({"mech": "shroud-rejects-admitted-library:" + _k, "detail": "%s: %s" % (lib["name"], _t)})
            return res
        out = os.path.join(cwd, "out")
        objs = engine.build_objects(lib, out, res)
        if objs is None:
            return res
        headers = sorted(f for f in os.listdir(out) if f.endswith(".h") and f.startswith("wrap"))
        open(os.path.join(out, "driver.c"), "w").write(cdrv.gen_driver(lib, plan, headers))
        rc, so, se = engine.sh(["gcc", "-std=c99", "-g", "-O0", "-w", "-I", engine.NATIVE, "-I", "."] + engine.SANF + ["-c", "driver.c", "-o", "driver.o"], out)
        if rc != 0:
            where, msg = engine.first_error(se)
            res["violations"].append({"mech": "c-driver-does-not-compile-against-generated-headers:%s" % msg,
                                      "detail": "%s\n%s" % (lib["name"], se[:2500])})
            return res
        rc, so, se = engine.sh(["g++"] + engine.SANF + ["driver.o"] + objs + ["-o", "driver"], out)
        if rc != 0:
            where, msg = engine.first_error(se)
            res["violations"].append({"mech": "link-fails:%s" % msg, "detail": "%s\n%s" % (lib["name"], se[:2500])})
            return res
        env = dict(os.environ)
        env.update(buildfarm.ASAN_ENV)
        env["VF_TRACE"] = os.path.join(out, "trace.log")
        rc, so, se = engine.sh([os.path.join(out, "driver")], out, env=env, timeout=300)
        if rc == -999:
            res["watchdog"] = True
            return res
        trace, marks = engine.parse_trace(open(env["VF_TRACE"]).read() if os.path.exists(env["VF_TRACE"]) else "")
        outs = engine.parse_out(so)
        res["stats"]["calls"] = len(plan)
        res["stats"]["recv_records"] = sum(1 for v in trace.values() for t in v if t[0] == "RECV")
        reps = buildfarm.sanitizer_reports(se)
        gen_files = set(os.listdir(out))
        for rp in reps:
            if rp["kind"].startswith("lsan"):
                for lb in buildfarm.leak_blocks(se):
                    fu = next(((fn, loc) for fn, loc in lb["frames"][1:] if not fn.startswith(("__interceptor", "operator"))), ("?", ""))
                    res["violations"].append({"mech": "sanitizer:lsan:leak-after-driver-released-everything:%s" % fu[0],
                                              "detail": "%s\n%s" % (lib["name"], lb["text"])})
                continue
            gen, libf = buildfarm.classify_frames(rp["frames"], gen_files)
            res["violations"].append({"mech": "sanitizer:%s:%s" % (rp["kind"], _norm_fn(gen or libf or "-")),
                                      "detail": "%s\n%s" % (lib["name"], rp["text"])})
        # compare
        serials = {}
        serial_counter = 0
        live = 0
        for k, call in enumerate(plan):
            f = lib["functions"][call["f"]]
            if call.get("op") == "new":
                serial_counter += 1
                serials[call["obj"]] = serial_counter
                live += 1
                g, exp = engine.expected_call(lib, call, serials)
                recs = [t for t in trace.get(k, []) if t[0] == "RECV"]
                if len(recs) != 1 or recs[0][1] != g["fid"]:
                    res["violations"].append({"mech": "constructor:wrong-entry-point", "detail": "%s call %d: %r expected %s" % (lib["name"], k, recs, g["fid"])})
                else:
                    for n, want in exp["recv"].items():
                        if recs[0][2].get(n) != want:
                            res["violations"].append({"mech": "library-received-wrong-value:ctor", "detail": "%s %s: %s=%s expected %s" % (lib["name"], g["fid"], n, recs[0][2].get(n), want)})
                if outs.get(k, {}).get("ctor_returns_capsule") != "b:1":
                    res["violations"].append({"mech": "constructor:does-not-return-capsule", "detail": "%s %s: %r" % (lib["name"], g["fid"], outs.get(k))})
            elif call.get("op") == "delete":
                d = [t for t in trace.get(k, []) if t[0] == "DTOR"]
                want = "i:%d" % serials.get(call["obj"], -1)
                if len(d) != 1 or d[0][2].get("this") != want:
                    res["violations"].append({"mech": "destructor:wrong-object-or-count", "detail": "%s call %d: destructor records %r, expected one for this=%s" % (lib["name"], k, d, want)})
                live -= 1
            else:
                if call.get("arg_objs"):
                    call = dict(call, args=dict(call["args"], **{n_: serials.get(o_, -1) for n_, o_ in call["arg_objs"].items()}))
                for mech, detail in engine.compare_call(lib, k, call, trace, outs.get(k), serials, C_CONV):
                    res["violations"].append({"mech": mech, "detail": "%s: %s" % (lib["name"], detail)})
            res["stats"]["calls_compared"] = res["stats"].get("calls_compared", 0) + 1
            nxt = marks.get(k + 1)
            if nxt is not None and nxt != live:
                res["violations"].append({"mech": "live-object-count-differs", "detail": "%s after call %d: library has %d live objects, model %d" % (lib["name"], k, nxt, live)})
        if plan:
            k = 0
            call = plan[0]
            f = lib["functions"][call["f"]]
            res["sample"] = {"library": lib["name"], "call": f["variants"][call["variant"]]["c_name"], "args": call["args"],
                             "trace": [" ".join([t[0], t[1]] + ["%s=%s" % kv for kv in t[2].items()]) for t in trace.get(0, [])],
                             "out": outs.get(0)}
        res["shapes"] = sorted({f.get("shape", "?") for f in lib["functions"]})
        return res
    finally:
        if cwd:
            common.rmtree(cwd)


def _norm_fn(s):
    import re
    return re.sub(r"f\d+[a-z0-9]*", "F", s)[:50]


ENUM_MEMBERS = [("LOW", "2"), ("MID", "LOW - -1 + 2"), ("SCALED", "LOW * -3 / 2"), ("AFTER", None), ("BIG", "(LOW + 3) * (MID - 1)"),
                ("NEG", "-MID"), ("CHAIN", "BIG - MID - LOW"), ("DIV", "100 / 5 / 2"), ("MIXED", "2 + 3 * 4 - 6 / 2"),
                ("SUBDIV", "BIG - 12 / 4 * 2"), ("LAST", None)]


def run_enum_args(case):
    """Enumeration-typed arguments and results (docs/types.rst enumerations; enum.yaml): the value a C caller passes under the
    generated constant's name is the value the C++ callee receives under the original enumerator's name, and back."""
    import re
    from .. import shroudrun
    ns, scoped = case.get("ns"), case.get("scoped")
    res = {"violations": [], "stats": {}, "name": "en-%s-%s" % (ns or "global", "scoped" if scoped else "plain")}
    body = ", ".join(n if e is None else "%s = %s" % (n, e) for n, e in ENUM_MEMBERS)
    kw = "enum class" if scoped else "enum"
    inner = [{"decl": "%s Level { %s };" % (kw, body)}, {"decl": "int take_level(Level v)"}, {"decl": "Level pick_level(int i)"}]
    decls = [{"decl": "namespace %s" % ns, "declarations": inner}] if ns else inner
    y = {"library": "en", "cxx_header": "en.hpp", "language": "c++", "format": {"C_prefix": "EN_"},
         "options": {"wrap_c": True, "wrap_fortran": False, "wrap_python": False, "wrap_lua": False}, "declarations": decls}
    sp = {"name": res["name"], "files": {"work/en.yaml": workloads.dump_yaml(y)}, "dirs": ["out"],
          "argv": ["--outdir", "out", "--logdir", "out", "work/en.yaml"], "monitors": [], "keep": True}
    rr = shroudrun.run(sp)
    cwd = rr.get("cwd")
    try:
        if rr.get("exc") or rr.get("exit") != 0:
            res["violations"].append({"mech": "shroud-rejects-admitted-library:enum-arguments", "detail": engine.reject_mech(rr)[1][:500]})
            return res
        out = os.path.join(cwd, "out")
        q = (ns + "::") if ns else ""
        qe = q + ("Level::" if scoped else "")
        names = [n for n, _ in ENUM_MEMBERS]
        open(os.path.join(out, "en.hpp"), "w").write(
            "#ifndef EN_HPP\n#define EN_HPP\n%s%s Level { %s };\nint take_level(Level v);\nLevel pick_level(int i);\n%s#endif\n" % (
                ("namespace %s {\n" % ns) if ns else "", kw, body, "}\n" if ns else ""))
        open(os.path.join(out, "en_impl.cpp"), "w").write(
            '#include "en.hpp"\n%sstatic int vf_last = 0;\nint take_level(Level v) { vf_last = (int)v; return 1000 + (int)v; }\n'
            'Level pick_level(int i) { static const Level all[] = { %s }; return all[i]; }\n%s' % (
                ("namespace %s {\n" % ns) if ns else "", ", ".join(("Level::" if scoped else "") + n for n in names), "}\n" if ns else ""))
        open(os.path.join(out, "ref.cpp"), "w").write(
            '#include <cstdio>\n#include "en.hpp"\nint main() {\n%s\n%s\nreturn 0; }\n' % (
                "\n".join('  std::printf("%s const=%%d take=%%d\\n", (int)%s%s, %stake_level(%s%s));' % (n, qe, n, q, qe, n) for n in names),
                "\n".join('  std::printf("pick %d -> %%d\\n", (int)%spick_level(%d));' % (i, q, i) for i in range(len(names)))))
        hdr = "".join(open(os.path.join(out, f)).read() for f in sorted(os.listdir(out)) if f.startswith("wrap") and f.endswith(".h"))
        m = re.search(r"enum\s+(\w*Level)\s*\{(.*?)\}", hdr, re.S)
        take = re.search(r"(\w*take_level)\s*\(", hdr)
        pick = re.search(r"(\w*pick_level)\s*\(", hdr)
        if not (m and take and pick):
            res["violations"].append({"mech": "enum-arguments:c-api-incomplete", "detail": "%s: enumeration / take_level / pick_level not declared in the generated headers" % res["name"]})
            return res
        cnames = [x.split("=")[0].strip() for x in re.sub(r"/\*.*?\*/|//[^\n]*", "", m.group(2), flags=re.S).split(",") if x.strip()]
        if len(cnames) != len(names):
            res["violations"].append({"mech": "enum-arguments:enumerator-count-differs", "detail": "%s: C header has %r" % (res["name"], cnames)})
            return res
        heads = [f for f in sorted(os.listdir(out)) if f.startswith("wrap") and f.endswith(".h")]
        open(os.path.join(out, "drv.c"), "w").write(
            '#include <stdio.h>\n%s\nint main(void) {\n%s\n%s\nreturn 0; }\n' % (
                "\n".join('#include "%s"' % h for h in heads),
                "\n".join('  printf("%s const=%%d take=%%d\\n", (int)%s, %s(%s));' % (n, cn, take.group(1), cn) for n, cn in zip(names, cnames)),
                "\n".join('  printf("pick %d -> %%d\\n", (int)%s(%d));' % (i, pick.group(1), i) for i in range(len(names)))))
        cpps = [f for f in sorted(os.listdir(out)) if f.startswith("wrap") and f.endswith(".cpp")]
        for cmd in (["g++", "-std=c++11", "-g", "-w", "-I.", "ref.cpp", "en_impl.cpp", "-o", "ref"],
                    ["gcc", "-std=c99", "-g", "-Wall", "-Werror", "-I.", "-c", "drv.c", "-o", "drv.o"],
                    ["g++", "-std=c++11", "-g", "-w", "-I.", "drv.o", "en_impl.cpp"] + cpps + ["-o", "drv"]):
            rc, so, se = engine.sh(cmd, out)
            if rc != 0:
                if cmd[-1] == "ref":
                    res["harness_error"] = "enum reference program does not compile: " + se[:300]
                else:
                    res["violations"].append({"mech": "enum-arguments:generated-c-api-does-not-build:" + engine.first_error(se)[1], "detail": "%s\n%s" % (res["name"], se[:1500])})
                return res
        _, ref_out, _ = engine.sh(["./ref"], out)
        _, drv_out, _ = engine.sh(["./drv"], out)
        rl, dl = ref_out.strip().split("\n"), drv_out.strip().split("\n")
        res["stats"]["enum_value_lines_compared"] = len(rl)
        res["stats"]["calls"] = 2 * len(names)
        for a_, b_ in zip(rl, dl):
            if a_ != b_:
                res["violations"].append({"mech": "enum-argument-value-differs:%s" % ("constant" if a_.split("take=")[0] != b_.split("take=")[0] else "call"),
                                          "detail": "%s: C++ caller sees %r, C caller through the generated API sees %r" % (res["name"], a_, b_)})
        if len(rl) != len(dl):
            res["violations"].append({"mech": "enum-argument-value-differs:output-length", "detail": "%s: %d vs %d lines" % (res["name"], len(rl), len(dl))})
        return res
    finally:
        if cwd:
            common.rmtree(cwd)


def make_cases(r, thorough, lang="c++", wraps=("c", "fortran"), driver_ok=cdrv.c_callable):
    cases = []
    inst = libs.instances(lang, wraps)
    # small-first: every shape instance, batched into a few libraries
    per = 12
    batches = [inst[i:i + per] for i in range(0, len(inst), per)]
    for bi, items in enumerate(batches):
        lib = libs.build("b%d" % bi, lang, items, wraps)
        cases.append({"lib": lib, "plan": plan_with_objects(lib, r)})
    # random combinations with customised names / namespaces
    n = 40 if thorough else 6
    for k in range(n):
        items = [r.choice(inst) for _ in range(r.randint(3, 10))]
        fmt = {}
        if r.random() < 0.5:
            fmt["C_prefix"] = r.choice(["ZZ_", "my", "Lib_"])
        ns = r.choice([None, "outer", "outer inner"]) if lang == "c++" else None
        opts = {}
        if r.random() < 0.3:
            opts["debug"] = True
        lib = libs.build("m%d" % k, lang, items, wraps, options=opts, fmt=fmt, namespace=ns)
        cases.append({"lib": lib, "plan": plan_with_objects(lib, r)})
    return cases


def main(rec):
    thorough = common.tier() == "thorough"
    r = common.rng("c02")
    rec.rule = ("generated C++ libraries (every shape of the admitted-grammar table batched small-first, then random "
                "combinations with customised C_prefix / namespaces / debug); each function called at a base point and with "
                "every battery value one parameter at a time; classes through constructor / method / destructor histories. "
                "distinct_nontrivial = distinct (library, C entry point, argument tuple) calls whose RECV record was compared")
    rec.assumptions = ["reference model vf/libgen/ir.py (digest, outputs) and the documented C API mapping in vf/drivers/c.py",
                       "gcc/g++ 12 with ASan+UBSan"]
    cases = make_cases(r, thorough)
    # shapes that only the C API can express (e.g. overloads that differ in const only): C-only libraries
    conly = [x for x in libs.instances("c++", ("c",)) if "fortran" not in x[0]["wraps"]]
    for bi, item in enumerate(conly):
        for opts in ({}, {"debug": True}):
            lib = libs.build("conly%d%s" % (bi, "d" if opts else ""), "c++", [item, item], ("c",), options=opts)
            cases.append({"lib": lib, "plan": plan_with_objects(lib, r)})
    res = pool.run_cases("vf.checks.c02", cases, func="run_library", timeout=1200)
    shapes = set()
    for c, rr in zip(cases, res):
        if "stats" not in rr:
            workloads.bad_run(rec, {"name": c["lib"]["name"]}, rr)
            continue
        if rr.get("harness_error"):
            rec.inconclusive = rr["harness_error"][:300]
        rec.merge_stats(rr["stats"])
        rec.evaluations += rr["stats"].get("calls", 0)
        shapes.update(rr.get("shapes", []))
        if rr.get("sample") and len(rec.samples) < 3:
            rec.samples.append(rr["sample"])
        for v in rr["violations"]:
            if v["mech"].startswith("HARNESS"):
                rec.inconclusive = "harness self-check failed: %s" % v["detail"][:300]
                continue
            rec.violation(v["mech"], v["detail"], {"lib": c["lib"]["name"]})
    ecases = [{"ns": ns, "scoped": sc} for ns in (None, "lev") for sc in (False, True)]
    eres = pool.run_cases("vf.checks.c02", ecases, func="run_enum_args", timeout=600)
    for c, rr in zip(ecases, eres):
        if "stats" not in rr:
            workloads.bad_run(rec, {"name": "enum-arguments"}, rr)
            continue
        if rr.get("harness_error"):
            rec.inconclusive = rr["harness_error"][:300]
        rec.count("enum_value_lines_compared", rr["stats"].get("enum_value_lines_compared", 0))
        rec.evaluations += rr["stats"].get("calls", 0)
        for v in rr["violations"]:
            rec.violation(v["mech"], v["detail"], dict(c, lib=rr["name"]))
    rec.add_to_set("shapes_covered", shapes)
    rec.distinct_override = rec.counters.get("calls_compared", 0)
    # upstream C drivers
    ccases = [{"name": n, "targets": ["c"]} for n in buildfarm.C_TARGETS]
    cres = pool.run_cases("vf.buildfarm", ccases, func="corpus_job", timeout=1500)
    for c, rr in zip(ccases, cres):
        if "builds" not in rr:
            workloads.bad_run(rec, c, rr)
            continue
        rec.count("upstream_c_drivers_run", sum(1 for b in rr["builds"] if b.get("run_rc") is not None))
        for v in rr["violations"]:
            rec.violation("corpus:%s:%s" % (c["name"], v["mech"]), v["detail"], c)
    if rec.counters.get("recv_records", 0) == 0:
        rec.inconclusive = rec.inconclusive or "no library call was observed"


def replay(bundle):
    print("re-run ./check C02 with seed %s" % bundle.get("seed"))
    return 2
