"""C09 — declarations are understood exactly as a C++ compiler understands them.

Deciding method: for every declaration Shroud's parser accepts (generated from
the documented declarator grammar, plus every declaration parsed while running
the corpus), g++ decides with static_assert(std::is_same<...>) whether
Shroud's C++ rendering (gen_decl / gen_arg_as_cxx) denotes the type the
compiler derives from the original text and whether the C rendering
(gen_arg_as_c) is the documented C counterpart; an online monitor re-parses
Shroud's own rendering and compares the parse trees.
"""
from __future__ import annotations

import itertools
import os
import random
import re
import subprocess

from .. import common, corpus, pool, workloads

LEVEL = "exploration"

PRELUDE = r"""
#include <string>
#include <vector>
#include <type_traits>
#include <cstdint>
#include <cstddef>
#include <complex>
using std::string; using std::vector;
class Class1 { public: Class1(); };
enum Color { RED, BLUE, WHITE };
typedef int TypeID;
struct Struct1 { int i; double d; };
namespace ns1 { class Inner {}; enum NsEnum { NA, NB }; }
struct CC_Class1; struct CC_ns1_Inner;
#define N 5

// return type / signature of a function or member function type
template<class T> struct vf_ret;
template<class R, class... A> struct vf_ret<R(A...)> { typedef R type; };
template<class R, class... A> struct vf_ret<R(A...) const> { typedef R type; };
template<class T> struct vf_sig;
template<class C, class R, class... A> struct vf_sig<R (C::*)(A...)> { typedef R type(A...); };
template<class C, class R, class... A> struct vf_sig<R (C::*)(A...) const> { typedef R type(A...) const; };

// documented C counterpart of a C++ type (docs/types.rst, cwrapper.rst)
template<class T> struct vf_c { typedef T type; };
template<class T> struct vf_c<T&> { typedef typename vf_c<T>::type *type; };
template<class T> struct vf_c<T*> { typedef typename vf_c<T>::type *type; };
template<class T> struct vf_c<T* const> { typedef typename vf_c<T>::type * const type; };
template<class T> struct vf_c<T* volatile> { typedef typename vf_c<T>::type * volatile type; };
template<class T> struct vf_c<const T> { typedef const typename vf_c<T>::type type; };
template<class T> struct vf_c<volatile T> { typedef volatile typename vf_c<T>::type type; };
template<class T> struct vf_c<const volatile T> { typedef const volatile typename vf_c<T>::type type; };
template<class T, std::size_t K> struct vf_c<T[K]> { typedef typename vf_c<T>::type type[K]; };
template<class T, std::size_t K> struct vf_c<const T[K]> { typedef const typename vf_c<T>::type type[K]; };
template<> struct vf_c<std::string> { typedef char type; };
template<> struct vf_c<Color> { typedef int type; };
template<> struct vf_c<ns1::NsEnum> { typedef int type; };
template<> struct vf_c<Class1> { typedef CC_Class1 type; };
template<> struct vf_c<ns1::Inner> { typedef CC_ns1_Inner type; };
template<class U> struct vf_c<std::vector<U> > { typedef typename vf_c<U>::type type; };
"""

NATIVE = ["int", "long", "short", "char", "float", "double", "bool", "unsigned int", "unsigned", "long long",
          "unsigned long", "unsigned long long", "unsigned short", "long int", "short int", "long long int",
          "unsigned long int", "unsigned char", "size_t", "int32_t", "int64_t", "uint16_t", "int8_t"]
PERMUTED = ["long unsigned", "int long", "long unsigned int", "int unsigned", "long long unsigned", "int short",
            "unsigned int long", "short unsigned", "long int long", "int long long"]
NAMED = ["Class1", "Color", "TypeID", "Struct1", "ns1::Inner", "std::string", "std::vector<int>", "std::vector<double>",
         "string", "std::vector<long>", "ns1::NsEnum"]
PTRS = ["", "*", "&", "**", "*&", "* const", "* const *", "** const", "* const &", "* volatile", "***", "* const * const",
        "* const volatile", "* const volatile *", "* volatile * const", "* const volatile &"]
CVS = ["", "const ", "volatile ", "const volatile ", "volatile const "]
POSTCV = ["", " const", " volatile"]
ARRS = ["", "[20]", "[N]", "[3][4]", "[2][3][4]", "[5][N][2]", "[N][2]", "[64/(4*2)]", "[N*(2+1)]", "[(N+1)*2]", "[60/(N/2)]", "[2*(N-3)]", "[N-(3-1)]", "[40/(2*2)][N]"]
ATTRS = ["", " +intent(in)", " +intent(out)", " +rank(1)", " +dimension(n)", " +value", " +len(30)", " +hidden",
         " +intent(inout)+rank(2)", " +rank=1", " +name(other)", " +deref(raw)"]


def gen_var(r, name="v"):
    if r.random() < 0.07:
        # void only behind a pointer (void *ctx, const void *, void **)
        return "%svoid %s%s" % (r.choice(["", "const "]), r.choice(["*", "**", "* const "]), name)
    base = r.choice(NATIVE if r.random() < 0.55 else (PERMUTED if r.random() < 0.25 else NAMED))
    pre = r.choice(CVS) if r.random() < 0.5 else ""
    post = r.choice(POSTCV) if not pre and r.random() < 0.25 else ""
    ptr = r.choice(PTRS) if r.random() < 0.7 else ""
    arr = r.choice(ARRS) if r.random() < 0.2 and "&" not in ptr else ""
    sep = " " if ptr.endswith(("const", "volatile")) and name else ""
    return "%s%s%s %s%s%s%s" % (pre, base, post, ptr, sep, name, arr)


def gen_fptr(r, name="fp"):
    ret = r.choice(["int", "void", "double", "const char *", "Class1 *"])
    params = ", ".join(gen_var(r, "") .replace(" ,", ",").strip() for _ in range(r.randint(0, 2))) or "void"
    return "%s (*%s)(%s)" % (ret, name, params)


def gen_decl(r):
    """(text, scope) ; scope 'lib' or 'class'"""
    c = r.random()
    if c < 0.45:
        d = gen_var(r, "var1")
        if r.random() < 0.25:
            d += r.choice(ATTRS)
        return d, "lib"
    if c < 0.52:
        return gen_fptr(r, "fptr1"), "lib"
    # function
    rt = r.choice(["void", "int", "double", "const char *", "const std::string &", "std::string", "Class1 *", "int *",
                   "const Class1 &", "Color", "TypeID", "bool", "std::vector<int>", "const int *", "long long",
                   "unsigned int", "size_t", "ns1::Inner *", "int **", "void *", "char"])
    nparam = r.randint(0, 4)
    params = []
    for i in range(nparam):
        if r.random() < 0.1:
            p = gen_fptr(r, "cb%d" % i)
        else:
            p = gen_var(r, "a%d" % i)
            if "[" in p:
                p = p.split("[")[0]
        if r.random() < 0.3:
            p += r.choice(ATTRS)
        params.append(p)
    if r.random() < 0.15 and params:
        params[-1] = re.sub(r"\s*\+.*", "", params[-1])
        if re.search(r"(int|long|short|double|float|size_t)\s+a\d+$", params[-1]) and "*" not in params[-1] and "&" not in params[-1]:
            params[-1] += " = " + r.choice(["0", "1", "3"])
    sp = " " if not rt.endswith(("*", "&")) else ""
    d = "%s%s%s(%s)" % (rt, sp, "func1", ", ".join(params) if params else r.choice(["", "void"]))
    scope = "lib"
    if r.random() < 0.2:
        d += " const"
        scope = "class"
    if r.random() < 0.2:
        d += r.choice([" +pure", " +len(30)", " +dimension(10)", " +owner(caller)", " +deref(scalar)", " +name(other)"])
    return d, scope


def strip_shroud(text):
    """Original text as C++: Shroud attributes removed (balanced parens), defaults kept."""
    out = []
    i = 0
    n = len(text)
    while i < n:
        ch = text[i]
        if ch == "+" and re.match(r"\+\s*[A-Za-z_]", text[i:]):
            m = re.match(r"\+\s*[A-Za-z_]\w*", text[i:])
            i += m.end()
            if i < n and text[i] == "(":
                depth = 0
                while i < n:
                    if text[i] == "(":
                        depth += 1
                    elif text[i] == ")":
                        depth -= 1
                        if depth == 0:
                            i += 1
                            break
                    i += 1
            elif i < n and text[i] == "=":
                m = re.match(r"=\s*\w+", text[i:])
                i += m.end() if m else 1
            continue
        out.append(ch)
        i += 1
    return "".join(out)


# ------------------------------------------------------------------ child: parse + render + g++

def make_ns():
    from shroud import ast, typemap
    typemap.initialize()
    lib = ast.LibraryNode(library="cc")
    cls = lib.add_class("Class1")
    lib.add_enum("enum Color { RED, BLUE, WHITE }")
    lib.add_typedef("typedef int TypeID")
    lib.add_struct("struct Struct1 { int i; double d; };")
    ns = lib.add_namespace("ns1")
    ns.add_class("Inner")
    ns.add_enum("enum NsEnum { NA, NB }")
    return lib, cls


def render_chunk(case):
    """Parse each text; for accepted ones produce the g++ translation unit and the round-trip verdicts."""
    from shroud import declast, todict
    lib, cls = make_ns()
    texts = case["texts"]
    stats = {"inputs": len(texts), "accepted": 0, "rejected": 0, "roundtrip_checked": 0, "gxx_asserts": 0}
    viol = []
    lines = [PRELUDE]
    line_map = {}   # line number -> (index, role)
    items = []

    def add(i, role, code):
        lines.append(code)
        line_map[len("\n".join(lines).split("\n"))] = (i, role)

    for i, (text, scope) in enumerate(texts):
        ns = cls if scope == "class" else lib
        try:
            r = declast.check_decl(text, namespace=ns)
        except Exception:
            stats["rejected"] += 1
            continue
        if not isinstance(r, declast.Declaration):
            continue
        if r.attrs["_constructor"] or r.attrs["_destructor"]:
            continue      # constructors / destructors have no type of their own to compare
        if not r.name and "(" in text:
            continue      # 'Class1()' outside its class (harvested text without its scope)
        stats["accepted"] += 1
        # (0) rendering is an observation: producing the Fortran / bind(C) / C view of a declaration (what the other
        # emitters of one Shroud run do, in an order the C++ emitter does not control) must leave its C and C++
        # renderings and its recorded structure as they were
        def _views(dd):
            out = {}
            for nm, fn in (("gen_decl", lambda: dd.gen_decl()), ("gen_arg_as_cxx", lambda: dd.gen_arg_as_cxx(with_template_args=True)),
                           ("gen_arg_as_c", lambda: dd.gen_arg_as_c()), ("to_dict", lambda: repr(_norm(todict.to_dict(dd))))):
                try:
                    out[nm] = fn()
                except Exception as e:
                    out[nm] = "raises %s" % type(e).__name__
            return out
        nodes = [r] + list(r.params or [])
        stats["rerender_checked"] = stats.get("rerender_checked", 0) + len(nodes)
        for dd in nodes:
            b0 = _views(dd)
            changed = None
            # judged after every single view (two calls of a view that flips something would cancel out)
            for vn, fn in (("gen_arg_as_fortran", lambda: dd.gen_arg_as_fortran()), ("bind_c", lambda: dd.bind_c()),
                           ("gen_arg_as_fortran(bindc)", lambda: dd.gen_arg_as_fortran(bindc=True)),
                           ("gen_arg_as_c", lambda: dd.gen_arg_as_c()), ("gen_arg_as_cxx", lambda: dd.gen_arg_as_cxx()),
                           ("gen_decl", lambda: dd.gen_decl())):
                try:
                    fn()
                except Exception:
                    continue        # a view that does not exist for this shape (e.g. Fortran for a function pointer)
                a0 = _views(dd)
                bad = [nm for nm in b0 if b0[nm] != a0[nm]]
                if bad:
                    changed = (vn, bad[0], b0[bad[0]], a0[bad[0]])
                    break
            if changed:
                viol.append({"mech": "rendering-changes-declaration:%s-after-%s" % (changed[1], changed[0]),
                             "detail": "%r: %s was %r; after %s was produced it is %r" % (text, changed[1], changed[2], changed[0], changed[3]),
                             "case": {"decl": text, "scope": scope}})
        # (3) round trip
        has_default = r.init is not None or any(p.init is not None for p in (r.params or []))
        if not has_default:
            try:
                t2 = r.gen_decl()
                r2 = declast.check_decl(t2, namespace=ns)
                d1, d2 = todict.to_dict(r), todict.to_dict(r2)
                stats["roundtrip_checked"] += 1
                if _norm(d1) != _norm(d2):
                    viol.append({"mech": "roundtrip-differs:" + _diffkey(_norm(d1), _norm(d2)),
                                 "detail": "%r -> gen_decl %r\n first  %r\n second %r" % (text, t2, _norm(d1), _norm(d2)),
                                 "case": {"decl": text, "scope": scope}})
            except Exception as e:
                viol.append({"mech": "roundtrip-rendering-rejected:%s" % type(e).__name__,
                             "detail": "%r -> gen_decl %r -> %s" % (text, r.gen_decl(), str(e)[:300]),
                             "case": {"decl": text, "scope": scope}})
        # (1)/(2) g++
        orig = strip_shroud(text).strip().rstrip(";")
        name = r.name
        is_func = r.params is not None

        def has_vector(dd):
            if dd.typemap is not None and dd.typemap.base == "vector":
                return True
            return any(has_vector(q) for q in (dd.params or []))
        # a whole function / function-pointer type with std::vector parameters is never emitted as C++ by
        # Shroud (gen_arg_as_lang renders parameters as their C element type by design): outside the check
        skip_whole = any(has_vector(q) for q in (r.params or [])) or (r.is_function_pointer() and has_vector(r))
        try:
            # the rendering used for emitted C++ code (prototypes, local variables); gen_decl itself is
            # only used for comments/logs and is judged by the round trip above
            ren = r.gen_arg_as_cxx(with_template_args=True)
        except Exception as e:
            viol.append({"mech": "gen_arg_as_cxx-raises:%s" % type(e).__name__, "detail": "%r: %s" % (text, e),
                         "case": {"decl": text, "scope": scope}})
            continue
        if not name:
            continue
        if is_func:
            if scope == "class":
                add(i, "orig", "struct vo%d { %s; };" % (i, orig))
                add(i, "ren" if not skip_whole else "skip", "struct vr%d { %s; };" % (i, ren))
                add(i, "assert:gen_arg_as_cxx(whole)" if not skip_whole else "skip", 'static_assert(std::is_same<vf_sig<decltype(&vo%d::%s)>::type, vf_sig<decltype(&vr%d::%s)>::type>::value, "D%d");' % (i, name, i, name, i))
                stats["gxx_asserts"] += 1
                rettype = "vf_ret<vf_sig<decltype(&vo%d::%s)>::type>::type" % (i, name)
            else:
                add(i, "orig", "namespace vo%d { %s; }" % (i, orig))
                add(i, "ren" if not skip_whole else "skip", "namespace vr%d { %s; }" % (i, ren))
                add(i, "assert:gen_arg_as_cxx(whole)" if not skip_whole else "skip", 'static_assert(std::is_same<decltype(vo%d::%s), decltype(vr%d::%s)>::value, "D%d");' % (i, name, i, name, i))
                stats["gxx_asserts"] += 1
                rettype = "vf_ret<decltype(vo%d::%s)>::type" % (i, name)
            # result variable as C++ (used for local result variables in wrappers)
            if r.typemap.name != "void" or r.is_indirect():
                try:
                    rv = r.gen_arg_as_cxx(name="vf_rv", params=None, with_template_args=True)
                    add(i, "ren_rv", "namespace vrv%d { extern %s; }" % (i, rv))
                    add(i, "assert:gen_arg_as_cxx(result)", 'static_assert(std::is_same<%s, decltype(vrv%d::vf_rv)>::value, "D%d");' % (rettype, i, i))
                    stats["gxx_asserts"] += 1
                except Exception as e:
                    viol.append({"mech": "gen_arg_as_cxx-raises:%s" % type(e).__name__, "detail": "%r: %s" % (text, e),
                                 "case": {"decl": text, "scope": scope}})
            # each parameter on its own (top-level cv of by-value parameters is invisible in the function type)
            for k, p in enumerate(r.params):
                if not p.name or p.is_function_pointer():
                    continue
                try:
                    pc = p.gen_arg_as_cxx(with_template_args=True)
                except Exception as e:
                    viol.append({"mech": "gen_arg_as_cxx-raises:%s" % type(e).__name__, "detail": "%r: %s" % (text, e),
                                 "case": {"decl": text, "scope": scope}})
                    continue
                po = _orig_param(orig, k)
                if po is None:
                    continue
                add(i, "orig", "namespace vpo%d_%d { extern %s; }" % (i, k, po))
                add(i, "ren", "namespace vpr%d_%d { extern %s; }" % (i, k, pc))
                add(i, "assert:gen_arg_as_cxx(param)", 'static_assert(std::is_same<decltype(vpo%d_%d::%s), decltype(vpr%d_%d::%s)>::value, "D%d");' % (i, k, p.name, i, k, p.name, i))
                stats["gxx_asserts"] += 1
                if _c_checkable(p):
                    cc = p.gen_arg_as_c()
                    add(i, "ren_c", "namespace vpc%d_%d { extern %s; }" % (i, k, cc))
                    add(i, "assert:gen_arg_as_c(param)", 'static_assert(std::is_same<vf_c<decltype(vpo%d_%d::%s)>::type, decltype(vpc%d_%d::%s)>::value, "D%d");' % (i, k, p.name, i, k, p.name, i))
                    stats["gxx_asserts"] += 1
        else:
            oi = re.sub(r"=\s*[^,;]+$", "", orig)
            add(i, "orig", "namespace vo%d { extern %s; }" % (i, oi))
            r2 = r
            ren_noinit = re.sub(r"=[^=]*$", "", ren) if r.init is not None else ren
            add(i, "ren" if not skip_whole else "skip", "namespace vr%d { extern %s; }" % (i, ren_noinit))
            add(i, "assert:gen_arg_as_cxx(whole)" if not skip_whole else "skip", 'static_assert(std::is_same<decltype(vo%d::%s), decltype(vr%d::%s)>::value, "D%d");' % (i, name, i, name, i))
            stats["gxx_asserts"] += 1
            if not r.is_function_pointer():
                try:
                    vc = r.gen_arg_as_cxx(with_template_args=True)
                    add(i, "ren", "namespace vx%d { extern %s; }" % (i, vc))
                    add(i, "assert:gen_arg_as_cxx", 'static_assert(std::is_same<decltype(vo%d::%s), decltype(vx%d::%s)>::value, "D%d");' % (i, name, i, name, i))
                    stats["gxx_asserts"] += 1
                    if _c_checkable(r):
                        cc = r.gen_arg_as_c()
                        add(i, "ren_c", "namespace vc%d { extern %s; }" % (i, cc))
                        add(i, "assert:gen_arg_as_c", 'static_assert(std::is_same<vf_c<decltype(vo%d::%s)>::type, decltype(vc%d::%s)>::value, "D%d");' % (i, name, i, name, i))
                        stats["gxx_asserts"] += 1
                except Exception as e:
                    viol.append({"mech": "gen_arg_as-raises:%s" % type(e).__name__, "detail": "%r: %s" % (text, e),
                                 "case": {"decl": text, "scope": scope}})
    # compile
    d = common.mkscratch("c09-")
    try:
        src = os.path.join(d, "tu.cpp")
        with open(src, "w") as f:
            f.write("\n".join(lines) + "\n")
        p = subprocess.run(["g++", "-std=c++11", "-fsyntax-only", "-w", "-fmax-errors=0", "-fno-diagnostics-show-caret", src],
                           capture_output=True, text=True, timeout=900)
        bad_orig = set()
        errs = []
        for ln in p.stderr.split("\n"):
            m = re.match(r".*tu\.cpp:(\d+):\d+: error: (.*)", ln)
            if not m:
                continue
            lno = int(m.group(1))
            ent = line_map.get(lno)
            if not ent:
                continue
            errs.append((ent[0], ent[1], m.group(2), lno))
        for i, role, msg, lno in errs:
            if role == "orig":
                bad_orig.add(i)
        stats["gxx_rejects_original"] = len(bad_orig)
        src_lines = "\n".join(lines).split("\n")
        seen = set()
        for i, role, msg, lno in errs:
            if i in bad_orig or (i, role) in seen:
                continue
            seen.add((i, role))
            text, scope = texts[i]
            if role == "skip":
                continue
            if role.startswith("assert"):
                if "static assertion failed" in msg:
                    viol.append({"mech": "type-differs:%s:%s" % (role.split(":")[1], _feature(text)),
                                 "detail": "%r\n g++: %s\n %s" % (text, msg, "\n ".join(src_lines[lno - 3:lno])),
                                 "case": {"decl": text, "scope": scope}})
                else:
                    pass  # consequence of an invalid rendering reported below
            elif role.startswith("ren"):
                viol.append({"mech": "rendering-not-valid-c++:%s:%s" % (role, _feature(text)),
                             "detail": "%r\n rendering line: %s\n g++: %s" % (text, src_lines[lno - 1], msg),
                             "case": {"decl": text, "scope": scope}})
        stats["gxx_asserts"] -= 0
        return {"stats": stats, "violations": viol[:300], "n_viol": len(viol),
                "sample": {"decl": texts[0][0]} if texts else None}
    finally:
        common.rmtree(d)


def _orig_param(orig, k):
    m = re.match(r".*?\((.*)\)[^)]*$", orig, re.S)
    if not m:
        return None
    depth = 0
    cur = ""
    parts = []
    for ch in m.group(1):
        if ch in "(<[":
            depth += 1
        elif ch in ")>]":
            depth -= 1
        if ch == "," and depth == 0:
            parts.append(cur)
            cur = ""
        else:
            cur += ch
    parts.append(cur)
    if k >= len(parts):
        return None
    return re.sub(r"=\s*[^=]+$", "", parts[k]).strip()


def _c_checkable(decl):
    """Categories whose C counterpart the documentation fixes: native / enum / typedef of native by value, pointer
    or reference; std::string, class, vector only behind a pointer or reference."""
    sg = decl.typemap.sgroup if decl.typemap else None
    base = decl.typemap.base if decl.typemap else None
    if decl.is_function_pointer() or decl.array:
        return False
    if base in ("string", "vector", "shadow", "struct"):
        return bool(decl.is_indirect()) and base != "struct"
    return True


def _norm(d):
    """todict output with attribute values as strings (+rank=1 and +rank(1) are the same attribute)."""
    if isinstance(d, dict):
        return {k: _norm(v) for k, v in sorted(d.items())}
    if isinstance(d, list):
        return [_norm(x) for x in d]
    if isinstance(d, (int, float)) and not isinstance(d, bool):
        return str(d)
    return d


def _diffkey(a, b, path=""):
    if isinstance(a, dict) and isinstance(b, dict):
        for k in sorted(set(a) | set(b)):
            if a.get(k) != b.get(k):
                return _diffkey(a.get(k), b.get(k), path + "/" + re.sub(r"\d+", "N", str(k)))
    return path or "/"


def _feature(text):
    f = []
    if "volatile" in text:
        f.append("volatile")
    if re.search(r"\*\s*const|&\s*const", text):
        f.append("ptr-const")
    if re.search(r"\b(int|long|unsigned|short)\s+(long|unsigned|short|int)\b", text):
        f.append("multiword-specifier")
    if "[" in text:
        f.append("array")
    if "(*" in text:
        f.append("fptr")
    if re.search(r"\w\s+const\b(?!\s*[,)]?$)", text) and not f:
        f.append("east-const")
    return f[0] if f else "plain"


# ------------------------------------------------------------------ online monitor job (corpus harvest)

def harvest_case(spec):
    """Run one corpus configuration with an online monitor on check_decl: every declaration parsed is
    re-rendered and re-parsed in the same namespace; also returns the texts for the g++ batch."""
    from .. import shroudrun
    from shroud import declast, todict
    seen = []
    viol = []
    stats = {"online_decls": 0, "online_roundtrips": 0}
    orig = declast.check_decl
    busy = {"on": False}

    def check_decl(decl, namespace=None, template_types=None, trace=False):
        r = orig(decl, namespace=namespace, template_types=template_types, trace=trace)
        if busy["on"] or not isinstance(r, declast.Declaration):
            return r
        stats["online_decls"] += 1
        seen.append(decl)
        if r.init is None and not any(p.init is not None for p in (r.params or [])):
            busy["on"] = True
            try:
                t2 = r.gen_decl()
                r2 = orig(t2, namespace=namespace, template_types=template_types)
                stats["online_roundtrips"] += 1
                d1, d2 = _norm(todict.to_dict(r)), _norm(todict.to_dict(r2))
                if d1 != d2:
                    viol.append({"mech": "roundtrip-differs:" + _diffkey(d1, d2),
                                 "detail": "%r -> gen_decl %r\n first  %r\n second %r" % (decl, t2, d1, d2)})
            except Exception as e:
                viol.append({"mech": "roundtrip-rendering-rejected:%s" % type(e).__name__,
                             "detail": "%r -> %r -> %s" % (decl, r.gen_decl(), str(e)[:300])})
            finally:
                busy["on"] = False
        return r
    declast.check_decl = check_decl
    rr = shroudrun.run(spec)
    return {"stats": stats, "violations": viol[:100], "texts": seen, "exit": rr.get("exit"), "exc": rr.get("exc")}


def main(rec):
    thorough = common.tier() == "thorough"
    r = common.rng("c09")
    rec.max_replays = 40
    rec.rule = ("declarations generated from the documented declarator grammar (specifier permutations, cv before/after the "
                "type and at every pointer level, * & ** *& chains to depth 3, arrays <= 2 dims, function pointers <= 2 "
                "parameters, std::vector<T>, std::string, qualified names, attributes, defaults), plus every declaration "
                "parsed while generating the corpus. Only texts that both Shroud and g++ accept are judged. "
                "distinct_nontrivial = distinct accepted declaration texts with at least one g++ assertion or round trip")
    rec.assumptions = ["g++ 12 -std=c++11 is the reference compiler", "C counterpart metafunction vf_c encodes docs/types.rst"]
    n = 20000 if thorough else 3000
    texts = []
    seen = set()
    # exhaustive small core: cv x base x pointer chains
    for cv in CVS:
        for base in ["int", "unsigned long", "Class1", "std::string", "std::vector<int>", "Color"]:
            for ptr in PTRS:
                t = "%s%s %s%svar1" % (cv, base, ptr, " " if ptr.endswith(("const", "volatile")) else "")
                if t not in seen:
                    seen.add(t)
                    texts.append((t, "lib"))
    for base in NATIVE + PERMUTED + NAMED:
        for post in POSTCV:
            for ptr in ["", "*", "&"]:
                t = "%s%s %svar1" % (base, post, ptr)
                if t not in seen:
                    seen.add(t)
                    texts.append((t, "lib"))
    while len(texts) < n:
        t, scope = gen_decl(r)
        if t not in seen:
            seen.add(t)
            texts.append((t, scope))
    chunks = [texts[i:i + 400] for i in range(0, len(texts), 400)]
    res = pool.run_cases("vf.checks.c09", [{"texts": c} for c in chunks], func="render_chunk", timeout=1800)
    for c, rr in zip(chunks, res):
        if "stats" not in rr:
            workloads.bad_run(rec, {"name": "chunk"}, rr)
            continue
        rec.merge_stats(rr["stats"])
        for v in rr["violations"]:
            rec.violation(v["mech"], v["detail"], v.get("case"))
        if rr.get("sample") and len(rec.samples) < 3:
            rec.samples.append(rr["sample"])
    rec.evaluations = rec.counters.get("inputs", 0)
    # corpus harvest with online round-trip monitor
    specs = [corpus.spec(c) for c in corpus.configs()]
    hres = pool.run_cases("vf.checks.c09", specs, func="harvest_case", timeout=600)
    harvested = []
    for sp, rr in zip(specs, hres):
        if "stats" not in rr:
            workloads.bad_run(rec, sp, rr)
            continue
        rec.merge_stats(rr["stats"])
        for v in rr["violations"]:
            rec.violation(v["mech"], v["detail"], {"corpus": sp["name"]})
        harvested.extend(rr["texts"])
    hv = sorted(set(t for t in harvested if isinstance(t, str) and "\n" not in t))
    rec.count("harvested_distinct_declarations", len(hv))
    # g++ check of harvested declarations that only use types known to the prelude
    known = [(t, "lib") for t in hv if not re.search(r"\b(class|struct|enum|namespace|typedef|template|extern)\b", t)]
    hchunks = [known[i:i + 400] for i in range(0, len(known), 400)]
    hres2 = pool.run_cases("vf.checks.c09", [{"texts": c} for c in hchunks], func="render_chunk", timeout=1800)
    for c, rr in zip(hchunks, hres2):
        if "stats" not in rr:
            continue
        rec.merge_stats({"harvest_" + k: v for k, v in rr["stats"].items()})
        for v in rr["violations"]:
            rec.violation(v["mech"], v["detail"], v.get("case"))
    rec.evaluations += len(hv)
    # names that differ by scope
    tys = ["int", "long", "double", "short", "float", "unsigned int"]
    sc = []
    for k in range(24 if thorough else 8):
        rr_ = common.rng("c09scoped", k)
        nns = rr_.choice([2, 2, 3])
        spaces = []
        for i in range(nns):
            spaces.append(("ns%s" % "abc"[i], {"Index": tys[(k + 2 * i) % len(tys)], "Real": tys[(k + 2 * i + 1) % len(tys)]} if k % 2 else {"Index": tys[(k + i) % len(tys)]}))
        sc.append({"name": "scoped%d" % k, "spaces": spaces, "class_last": bool(k % 3 == 0),
                   "global": ({"Index": tys[(k + 5) % len(tys)]} if k % 4 == 1 else None)})
    sres = pool.run_cases("vf.checks.c09", sc, func="run_scoped", timeout=600)
    for c, rr in zip(sc, sres):
        if "stats" not in rr:
            workloads.bad_run(rec, c, rr)
            continue
        rec.merge_stats(rr["stats"])
        for v in rr["violations"]:
            rec.violation(v["mech"], v["detail"], c)
    # qualified names of one to four components with the same last name declared at every level
    qc = []
    for k in range(12 if thorough else 4):
        t_ = tys[k % len(tys):] + tys[:k % len(tys)]
        levels = [("outer", {"Index": t_[0], "Count": t_[1]}), ("inner", {"Index": t_[2], "Count": t_[3]})]
        if k % 2 == 0:
            levels.append(("deep", {"Index": t_[4]}))
        qc.append({"name": "qualified%d" % k, "levels": levels, "global": ({"Index": t_[5]} if k % 3 != 2 else None)})
    qres = pool.run_cases("vf.checks.c09", qc, func="run_qualified", timeout=600)
    for c, rr in zip(qc, qres):
        if "stats" not in rr or rr.get("harness_error"):
            workloads.bad_run(rec, c, rr)
            if rr.get("harness_error"):
                rec.inconclusive = rr["harness_error"][:300]
            continue
        rec.merge_stats(rr["stats"])
        for v in rr["violations"]:
            rec.violation(v["mech"], v["detail"], c)
    # prototypes emitted by the whole pipeline for cv / pointer / reference structures
    pc = [{"name": "proto-" + T_.replace(" ", "_"), "T": T_} for T_ in (["int", "double", "long", "unsigned int", "float", "short"] if thorough else ["int", "double"])]
    pres = pool.run_cases("vf.checks.c09", pc, func="run_prototypes", timeout=600)
    for c, rr in zip(pc, pres):
        if "stats" not in rr:
            workloads.bad_run(rec, c, rr)
            continue
        rec.merge_stats(rr["stats"])
        for v in rr["violations"]:
            rec.violation(v["mech"], v["detail"], c)
    rec.distinct_override = rec.counters.get("accepted", 0) + rec.counters.get("online_roundtrips", 0)
    if rec.counters.get("gxx_asserts", 0) == 0:
        rec.inconclusive = "no g++ assertion was generated"


def run_scoped(case):
    """Unqualified names that mean different things in different scopes (namespace-level typedefs of the same name used
    by classes and functions of each namespace): the whole pipeline runs and g++ compares every emitted C prototype
    with the type the compiler derives from the library header."""
    from .. import shroudrun, engine
    import subprocess
    spaces = case["spaces"]            # [(namespace, {typedef name: underlying type}), ...] in declaration order
    res = {"violations": [], "stats": {}, "name": case["name"]}
    hdr, decls, asserts = ["#ifndef SCO_HPP", "#define SCO_HPP"], [], []
    glob = case.get("global") or {}
    for tn, ty in glob.items():
        hdr.append("typedef %s %s;" % (ty, tn))
        decls.append({"decl": "typedef %s %s" % (ty, tn)})
    for tn in glob:
        hdr.append("%s gfun_%s(%s a);" % (tn, tn.lower(), tn))
        decls.append({"decl": "%s gfun_%s(%s a)" % (tn, tn.lower(), tn)})
        asserts.append(("SCO_gfun_%s" % tn.lower(), "%s(%s)" % (tn, tn)))
    for ns, tds in spaces:
        hdr.append("namespace %s {" % ns)
        nd = []
        for tn, ty in tds.items():
            hdr.append("  typedef %s %s;" % (ty, tn))
            nd.append({"decl": "typedef %s %s" % (ty, tn)})
        names = list(tds)
        hdr.append("  class Bag { public: Bag();")
        cd = [{"decl": "Bag()"}]
        for tn in names:
            hdr.append("    %s next_%s(%s i); void put_%s(const %s *p, %s v);" % (tn, tn.lower(), tn, tn.lower(), tn, tn))
            cd.append({"decl": "%s next_%s(%s i)" % (tn, tn.lower(), tn)})
            cd.append({"decl": "void put_%s(const %s *p, %s v)" % (tn.lower(), tn, tn)})
            asserts.append(("SCO_%s_Bag_next_%s" % (ns, tn.lower()), "%s::%s(SCO_%s_Bag *, %s::%s)" % (ns, tn, ns, ns, tn)))
            asserts.append(("SCO_%s_Bag_put_%s" % (ns, tn.lower()), "void(SCO_%s_Bag *, const %s::%s *, %s::%s)" % (ns, ns, tn, ns, tn)))
        hdr.append("  };")
        for tn in names:
            hdr.append("  %s fun_%s(%s a, %s *b);" % (tn, tn.lower(), tn, tn))
            nd.append({"decl": "%s fun_%s(%s a, %s *b +intent(inout))" % (tn, tn.lower(), tn, tn)})
            asserts.append(("SCO_%s_fun_%s" % (ns, tn.lower()), "%s::%s(%s::%s, %s::%s *)" % (ns, tn, ns, tn, ns, tn)))
        nd.insert(len(tds), {"decl": "class Bag", "declarations": cd})
        if case.get("class_last"):
            nd.append(nd.pop(len(tds)))
        hdr.append("}")
        decls.append({"decl": "namespace %s" % ns, "declarations": nd})
    hdr.append("#endif")
    y = {"library": "sco", "cxx_header": "sco.hpp", "language": "c++",
         "options": {"wrap_c": True, "wrap_fortran": False, "wrap_python": False, "wrap_lua": False}, "declarations": decls}
    sp = {"name": case["name"], "files": {"work/sco.yaml": workloads.dump_yaml(y)}, "dirs": ["out"],
          "argv": ["--outdir", "out", "--logdir", "out", "work/sco.yaml"], "monitors": [], "keep": True}
    rr = shroudrun.run(sp)
    cwd = rr.get("cwd")
    try:
        if rr.get("exc") or rr.get("exit") != 0:
            k_, t_ = engine.reject_mech(rr)
            res["violations"].append({"mech": "scoped:shroud-rejects:" + k_, "detail": "%s: %s\n%s" % (case["name"], t_, workloads.dump_yaml(y)[:1500])})
            return res
        out = os.path.join(cwd, "out")
        open(os.path.join(out, "sco.hpp"), "w").write("\n".join(hdr) + "\n")
        heads = sorted(f for f in os.listdir(out) if f.startswith("wrap") and f.endswith(".h"))
        chk = ['#include <type_traits>', '#include "sco.hpp"'] + ['#include "%s"' % h for h in heads]
        for i, (cname, ftype) in enumerate(asserts):
            chk.append('static_assert(std::is_same<decltype(%s), %s>::value, "VFASSERT %d");' % (cname, ftype, i))
        open(os.path.join(out, "chk.cpp"), "w").write("\n".join(chk) + "\n")
        p = subprocess.run(["g++", "-std=c++11", "-fsyntax-only", "-w", "-I", ".", "chk.cpp"], cwd=out, capture_output=True, text=True, timeout=300)
        res["stats"]["scoped_prototypes_checked"] = len(asserts)
        failed = sorted({int(x) for x in re.findall(r"VFASSERT (\d+)", p.stderr)})
        other = [ln for ln in p.stderr.split("\n") if "error" in ln and "VFASSERT" not in ln and "static assertion" not in ln][:4]
        for i in failed:
            cname, ftype = asserts[i]
            proto = re.search(r"[^;{}]*\b%s\([^;]*;" % re.escape(cname), "\n".join(open(os.path.join(out, h)).read() for h in heads))
            res["violations"].append({"mech": "scoped-name-resolves-differently:%s" % ("method" if "_Bag_" in cname else "function"),
                                      "detail": "%s: %s is declared %r; the compiler derives %s from the library header" % (
                                          case["name"], cname, " ".join((proto.group(0) if proto else "?").split()), ftype)})
        if other and not failed:
            res["violations"].append({"mech": "scoped:checker-does-not-compile", "detail": "%s\n%s" % (case["name"], "\n".join(other))})
        # the wrapper implementation must compile against the library header too
        for f in sorted(x for x in os.listdir(out) if x.startswith("wrap") and x.endswith(".cpp")):
            q = subprocess.run(["g++", "-std=c++11", "-fsyntax-only", "-w", "-I", ".", f], cwd=out, capture_output=True, text=True, timeout=300)
            if q.returncode != 0:
                w_, m_ = engine.first_error(q.stderr)
                res["violations"].append({"mech": "scoped:wrapper-does-not-compile:%s" % m_, "detail": "%s %s\n%s" % (case["name"], f, q.stderr[:1500])})
        return res
    finally:
        if cwd:
            common.rmtree(cwd)


def run_qualified(case):
    """Qualified type names of one to four components, written from the global scope, from inside the outer namespace
    (relative qualification) and from an unrelated namespace, where every level declares a type of the same last name."""
    from .. import shroudrun, engine
    import subprocess
    levels = case["levels"]        # [("outer", {"Index": "long", ...}), ("inner", {...}), ("deep", {...})] nested in this order
    glob = case.get("global") or {}
    res = {"violations": [], "stats": {}, "name": case["name"]}
    hdr, decls, asserts = ["#ifndef QUA_HPP", "#define QUA_HPP"], [], []
    for tn, ty in glob.items():
        hdr.append("typedef %s %s;" % (ty, tn))
        decls.append({"decl": "typedef %s %s" % (ty, tn)})
    # nested namespaces with their typedefs
    def nest(i):
        ns, tds = levels[i]
        hdr.append("namespace %s {" % ns)
        nd = []
        for tn, ty in tds.items():
            hdr.append("typedef %s %s;" % (ty, tn))
            nd.append({"decl": "typedef %s %s" % (ty, tn)})
        if i + 1 < len(levels):
            nd.append(nest(i + 1))
        if i == 0:
            # functions inside the outer namespace that name inner types relative to it
            for j in range(1, len(levels)):
                rel = "::".join(l[0] for l in levels[1:j + 1])
                for tn in levels[j][1]:
                    q, full = "%s::%s" % (rel, tn), "::".join(l[0] for l in levels[:j + 1]) + "::" + tn
                    fn = "rel%d_%s" % (j, tn.lower())
                    hdr.append("%s %s(%s n, %s *p);" % (q, fn, q, q))
                    nd.append({"decl": "%s %s(%s n, %s *p +intent(inout))" % (q, fn, q, q)})
                    asserts.append(("QUA_%s_%s" % (levels[0][0], fn), "%s(%s, %s *)" % (full, full, full)))
        hdr.append("}")
        return {"decl": "namespace %s" % ns, "declarations": nd}
    top = nest(0)
    decls.append(top)
    k = 0
    quals = [(tn, tn) for tn in glob]
    for j in range(len(levels)):
        pre = "::".join(l[0] for l in levels[:j + 1])
        quals += [("%s::%s" % (pre, tn), "%s::%s" % (pre, tn)) for tn in levels[j][1]]
    other, ohdr = [], []
    for q, full in quals:
        fn = "qf%d" % k
        k += 1
        hdr.append("%s %s(%s n, const %s *p);" % (q, fn, q, q))
        decls.append({"decl": "%s %s(%s n, const %s *p)" % (q, fn, q, q)})
        asserts.append(("QUA_%s" % fn, "%s(%s, const %s *)" % (full, full, full)))
        if "::" in q:
            ohdr.append("%s of%d(%s n);" % (q, k, q))
            other.append({"decl": "%s of%d(%s n)" % (q, k, q)})
            asserts.append(("QUA_other_of%d" % k, "%s(%s)" % (full, full)))
    hdr += ["namespace other {"] + ohdr + ["}"]
    decls.append({"decl": "namespace other", "declarations": other})
    hdr.append("#endif")
    y = {"library": "qua", "cxx_header": "qua.hpp", "language": "c++",
         "options": {"wrap_c": True, "wrap_fortran": False, "wrap_python": False, "wrap_lua": False}, "declarations": decls}
    sp = {"name": case["name"], "files": {"work/qua.yaml": workloads.dump_yaml(y)}, "dirs": ["out"],
          "argv": ["--outdir", "out", "--logdir", "out", "work/qua.yaml"], "monitors": [], "keep": True}
    rr = shroudrun.run(sp)
    cwd = rr.get("cwd")
    try:
        if rr.get("exc") or rr.get("exit") != 0:
            k_, t_ = engine.reject_mech(rr)
            res["violations"].append({"mech": "qualified:shroud-rejects:" + k_, "detail": "%s: %s\n%s" % (case["name"], t_, workloads.dump_yaml(y)[:1500])})
            return res
        out = os.path.join(cwd, "out")
        open(os.path.join(out, "qua.hpp"), "w").write("\n".join(hdr) + "\n")
        pchk = subprocess.run(["g++", "-std=c++11", "-fsyntax-only", "-w", "-x", "c++", "qua.hpp"], cwd=out, capture_output=True, text=True, timeout=300)
        if pchk.returncode != 0:
            res["harness_error"] = "qualified-name header does not compile: " + pchk.stderr[:600]
            return res
        heads = sorted(f for f in os.listdir(out) if f.startswith("wrap") and f.endswith(".h"))
        chk = ['#include <type_traits>', '#include "qua.hpp"'] + ['#include "%s"' % h for h in heads]
        for i, (cname, ftype) in enumerate(asserts):
            chk.append('static_assert(std::is_same<decltype(%s), %s>::value, "VFASSERT %d");' % (cname, ftype, i))
        open(os.path.join(out, "chk.cpp"), "w").write("\n".join(chk) + "\n")
        p = subprocess.run(["g++", "-std=c++11", "-fsyntax-only", "-w", "-I", ".", "chk.cpp"], cwd=out, capture_output=True, text=True, timeout=300)
        res["stats"]["qualified_prototypes_checked"] = len(asserts)
        failed = sorted({int(x) for x in re.findall(r"VFASSERT (\d+)", p.stderr)})
        otherr = [ln for ln in p.stderr.split("\n") if "error" in ln and "VFASSERT" not in ln and "static assertion" not in ln][:4]
        alltext = "\n".join(open(os.path.join(out, h)).read() for h in heads)
        for i in failed:
            cname, ftype = asserts[i]
            proto = re.search(r"[^;{}]*\b%s\([^;]*;" % re.escape(cname), alltext)
            ncomp = ftype.split("(")[0].count("::") + 1
            res["violations"].append({"mech": "qualified-name-resolves-differently:%d-components:%s" % (ncomp, "relative" if "_rel" in cname else ("other-namespace" if "_other_" in cname else "global")),
                                      "detail": "%s: %s is declared %r; the compiler derives %s from the library header" % (
                                          case["name"], cname, " ".join((proto.group(0) if proto else "?").split()), ftype)})
        if otherr and not failed:
            res["violations"].append({"mech": "qualified:checker-does-not-compile", "detail": "%s\n%s" % (case["name"], "\n".join(otherr))})
        for f in sorted(x for x in os.listdir(out) if x.startswith("wrap") and x.endswith(".cpp")):
            q = subprocess.run(["g++", "-std=c++11", "-fsyntax-only", "-w", "-I", ".", f], cwd=out, capture_output=True, text=True, timeout=300)
            if q.returncode != 0:
                w_, m_ = engine.first_error(q.stderr)
                res["violations"].append({"mech": "qualified:wrapper-does-not-compile:%s" % m_, "detail": "%s %s\n%s" % (case["name"], f, q.stderr[:1500])})
        return res
    finally:
        if cwd:
            common.rmtree(cwd)


PROTO_PARAMS = ["{T} a", "const {T} a", "{T} *a", "const {T} *a", "{T} * const a", "const {T} * const a", "{T} &a", "const {T} &a",
                "{T} **a +intent(in)", "const {T} **a +intent(in)", "{T} * const *a +intent(in)", "const {T} * const *a +intent(in)",
                "volatile {T} *a", "const volatile {T} *a", "{T} * volatile a",
                "{T} a[3]", "const {T} a[4]", "const {T} a[2][3]", "{T} a[2][2]"]
PROTO_RESULTS = ["{T}", "{T} *", "const {T} *", "{T} &", "const {T} &"]
PROTO_MEMBERS = ["{T} m{k}", "const {T} *m{k}", "{T} *m{k}", "const {T} * const *m{k}", "{T} **m{k}", "{T} * const m{k} +readonly"]


def run_prototypes(case):
    """The C prototypes the whole pipeline emits (statement tables included) for parameters, results and class member
    accessors over the cv / pointer / reference structures: each must denote the declared type, a reference becoming a
    pointer (its documented C counterpart)."""
    from .. import shroudrun, engine
    import subprocess
    T = case["T"]
    res = {"violations": [], "stats": {}, "name": case["name"]}
    hdr, decls, asserts = ["#ifndef PRO_HPP", "#define PRO_HPP"], [], []
    def cside(t):
        return t.replace("&", "*")
    k = 0
    for ptxt in PROTO_PARAMS:
        p = ptxt.format(T=T)
        plain = p.split(" +")[0]
        ptype = re.sub(r"\ba\b", "", plain, 1).strip()
        hdr.append("void pf%d(%s);" % (k, plain))
        decls.append({"decl": "void pf%d(%s)" % (k, p)})
        asserts.append(("PRO_pf%d" % k, "void(%s)" % cside(ptype), "parameter:" + ptxt.split(" +")[0].replace("{T}", "T")))
        k += 1
    for rtxt in PROTO_RESULTS:
        r_ = rtxt.format(T=T)
        hdr.append("%s rf%d(int i);" % (r_, k))
        # +deref(raw): the pointer itself is the C result
        decls.append({"decl": "%s rf%d(int i)%s" % (r_, k, " +deref(raw)" if ("*" in r_ or "&" in r_) else "")})
        asserts.append(("PRO_rf%d" % k, "%s(int)" % cside(r_), "result:" + rtxt.replace("{T}", "T")))
        k += 1
    hdr.append("class Holder { public: Holder();")
    cd = [{"decl": "Holder()"}]
    for mi, mtxt in enumerate(PROTO_MEMBERS):
        m = mtxt.format(T=T, k=mi)
        plain = m.split(" +")[0]
        mtype = re.sub(r"\bm%d$" % mi, "", plain).strip()
        hdr.append("  %s;" % plain)
        cd.append({"decl": m + ";"})
        asserts.append(("PRO_Holder_get_m%d" % mi, "%s(PRO_Holder *)" % mtype, "member-getter:" + mtxt.split(" +")[0].replace("{T}", "T").replace("m{k}", "m")))
        if "readonly" not in m:
            asserts.append(("PRO_Holder_set_m%d" % mi, "void(PRO_Holder *, %s)" % mtype, "member-setter:" + mtxt.replace("{T}", "T").replace("m{k}", "m")))
    hdr.append("};")
    hdr.append("#endif")
    y = {"library": "pro", "cxx_header": "pro.hpp", "language": "c++",
         "options": {"wrap_c": True, "wrap_fortran": False, "wrap_python": False, "wrap_lua": False}, "declarations": decls + [{"decl": "class Holder", "declarations": cd}]}
    sp = {"name": case["name"], "files": {"work/pro.yaml": workloads.dump_yaml(y)}, "dirs": ["out"],
          "argv": ["--outdir", "out", "--logdir", "out", "work/pro.yaml"], "monitors": [], "keep": True}
    rr = shroudrun.run(sp)
    cwd = rr.get("cwd")
    try:
        if rr.get("exc") or rr.get("exit") != 0:
            k_, t_ = engine.reject_mech(rr)
            res["violations"].append({"mech": "prototypes:shroud-rejects:" + k_, "detail": "%s: %s" % (case["name"], t_)})
            return res
        out = os.path.join(cwd, "out")
        open(os.path.join(out, "pro.hpp"), "w").write("\n".join(hdr) + "\n")
        heads = sorted(f for f in os.listdir(out) if f.startswith("wrap") and f.endswith(".h"))
        alltext = "\n".join(open(os.path.join(out, h)).read() for h in heads)
        chk = ['#include <type_traits>', '#include "pro.hpp"'] + ['#include "%s"' % h for h in heads]
        live = []
        for i, (cname, ftype, what) in enumerate(asserts):
            if not re.search(r"\b%s\(" % re.escape(cname), alltext):
                res["stats"]["prototypes_not_emitted"] = res["stats"].get("prototypes_not_emitted", 0) + 1
                continue
            live.append(i)
            chk.append('static_assert(std::is_same<decltype(%s), %s>::value, "VFASSERT %d");' % (cname, ftype, i))
        open(os.path.join(out, "chk.cpp"), "w").write("\n".join(chk) + "\n")
        p = subprocess.run(["g++", "-std=c++11", "-fsyntax-only", "-w", "-I", ".", "chk.cpp"], cwd=out, capture_output=True, text=True, timeout=300)
        res["stats"]["emitted_prototypes_checked"] = len(live)
        failed = sorted({int(x) for x in re.findall(r"VFASSERT (\d+)", p.stderr)})
        otherr = [ln for ln in p.stderr.split("\n") if "error" in ln and "VFASSERT" not in ln and "static assertion" not in ln][:4]
        for i in failed:
            cname, ftype, what = asserts[i]
            proto = re.search(r"[^;{}]*\b%s\([^;]*;" % re.escape(cname), alltext)
            res["violations"].append({"mech": "emitted-c-prototype-denotes-another-type:%s" % what,
                                      "detail": "%s [T=%s]: %s is declared %r; the declaration denotes %s" % (
                                          case["name"], T, cname, " ".join((proto.group(0) if proto else "?").split()), ftype)})
        if otherr and not failed:
            res["violations"].append({"mech": "prototypes:checker-does-not-compile", "detail": "%s\n%s" % (case["name"], "\n".join(otherr))})
        for f in sorted(x for x in os.listdir(out) if x.startswith("wrap") and x.endswith(".cpp")):
            q = subprocess.run(["g++", "-std=c++11", "-fsyntax-only", "-w", "-I", ".", f], cwd=out, capture_output=True, text=True, timeout=300)
            if q.returncode != 0:
                errs = [ln for ln in q.stderr.split("\n") if "error:" in ln]
                fnames = sorted(set(re.findall(r"In function '[^']*?(PRO_\w+)", q.stderr) + re.findall(r"In function ‘[^’]*?(PRO_\w+)", q.stderr)))
                whats = sorted({w for c_, t_, w in asserts if c_ in fnames})
                res["violations"].append({"mech": "emitted-c-wrapper-does-not-compile:%s" % ("|".join(whats)[:80] or "?"),
                                          "detail": "%s [T=%s] %s\n%s" % (case["name"], T, f, q.stderr[:1800])})
        return res
    finally:
        if cwd:
            common.rmtree(cwd)


def replay(bundle):
    c = bundle["case"]
    rr = render_chunk({"texts": [(c["decl"], c.get("scope", "lib"))]})
    for v in rr["violations"]:
        print(v["mech"], "\n", v["detail"])
    if rr["violations"]:
        print("VIOLATION property=C09 replay=replayed")
        return 1
    return 0
