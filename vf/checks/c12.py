"""C12 — user splicer code is carried into the named blocks unchanged.

Deciding method: splicer monitor (every block Shroud emits: name, source,
lines) + block extractor on the emitted files, over real runs in which user
bodies are supplied through the three routes (splicer file, splicer_code,
declaration-level) and their combinations, and a round trip that feeds every
generated file back as a splicer file.
"""
from __future__ import annotations

import copy
import os
import re
import string

from .. import common, corpus, pool, workloads
from ..libgen import gen

LEVEL = "exploration"
LANG_OF = {"Wrapc": "c", "Wrapf": "f", "Wrapp": "py", "Wrapl": "lua"}
COMMENT = {"c": "//", "f": "!", "py": "//", "lua": "//"}
SUFFIX = {"c": ".c", "f": ".f", "py": ".py", "lua": ".lua"}
# every suffix docs/input.rst names for splicer files given on the command line
SUFFIXES = {"c": [".c", ".h", ".cpp", ".hpp", ".cxx", ".hxx", ".cc", ".C"], "f": [".f", ".f90"], "py": [".py"], "lua": [".lua"]}
META = "#@^+-0"

BEGIN_RE = re.compile(r"splicer begin (\S+)")
END_RE = re.compile(r"splicer end (\S+)")


def extract_blocks(text):
    """{name: [lines]} for every begin/end pair in an emitted file (a name that occurs
    twice gets a list of bodies)."""
    out = {}
    cur = None
    for ln in text.split("\n"):
        m = BEGIN_RE.search(ln)
        if cur is None and m:
            cur = (m.group(1), [])
            continue
        m2 = END_RE.search(ln)
        if cur is not None and m2 and m2.group(1) == cur[0]:
            out.setdefault(cur[0], []).append(cur[1])
            cur = None
            continue
        if cur is not None:
            cur[1].append(ln)
    return out


def norm(lines):
    return [ln.strip() for ln in lines]


PLAUSIBLE = {
    "c": ["int vf_a = 1;", "if (vf_a > 0) { vf_a = vf_a * 2; }", "/* user comment */", "return;", "vf_call(a, b,  c);",
          "x = y ? 1 : 2; // trailing comment", "static const char *s = \"a+b-c\";", "for (i = 0; i < n; i++) x[i] = 0;"],
    "f": ["integer :: vf_a", "vf_a = 1", "if (vf_a > 0) vf_a = vf_a * 2", "! user comment", "call vf_sub(a, b,  c)",
          "write(*,*) 'a+b-c'", "vf_b = [1, 2, 3]"],
}
PLAUSIBLE["py"] = PLAUSIBLE["c"]
PLAUSIBLE["lua"] = PLAUSIBLE["c"]


def gen_body(r, lang, hostile=True):
    n = r.randint(1, 6)
    lines = []
    for _ in range(n):
        c = r.random()
        if c < 0.45:
            ln = r.choice(PLAUSIBLE[lang])
        elif c < 0.6:
            ln = "".join(r.choice(string.ascii_letters + string.digits + " _=(),;*<>[]!%&|.:'") for _ in range(r.randint(1, 50)))
        elif c < 0.68:
            ln = ""
        elif hostile and c < 0.76:
            ln = "vf_x = vf_y" + r.choice([" +", " -", " &", "+", "-"])
        elif hostile and c < 0.80:
            ln = "int" + "\t" + "vf_t = 3;" if lang != "f" else "integer" + "\t" + ":: vf_t"
        elif hostile and c < 0.84:
            # a long line with a tab inside (tab-aligned trailing comment, tab in a string literal): longer than any line
            # length the writers break at
            pad = "vf_alpha, " * r.randint(7, 11)
            ln = ("vf_call(%svf_omega);\t\t// aligned comment" % pad) if lang != "f" else ("call vf_sub(%svf_omega)\t! aligned comment" % pad)
            if r.random() < 0.5:
                ln = ("printf(\"%s\tcolumn\tcolumn\\n\");" % ("word " * 16)) if lang != "f" else ("write(*,*) '%s\tcolumn\tcolumn'" % ("word " * 16))
        elif c < 0.9:
            ln = "    " * r.randint(1, 3) + r.choice(PLAUSIBLE[lang])      # user's own indentation
        else:
            ln = r.choice(PLAUSIBLE[lang]) + "   "                        # trailing blanks
        if ln and ln[0] in META:
            ln = "v" + ln
        if "splicer" in ln or "{" in ln and lang == "zz":
            ln = "vf_plain = 1"
        lines.append(ln)
    # unique first line so that a body is recognisable
    return lines


def file_for(lang, blocks, r, junk=True):
    """Text of a splicer file supplying blocks {name: lines}."""
    c = COMMENT[lang]
    out = []
    if junk:
        out.append("VFJUNK text outside markers must be ignored %d" % r.randint(0, 999))
    for name, lines in blocks.items():
        out.append("%s splicer begin %s" % (c, name))
        out.extend(lines)
        out.append("%s splicer end %s" % (c, name))
        if junk and r.random() < 0.5:
            out.append("VFJUNK between blocks")
            out.append("")
    if junk:
        out.append("VFJUNK trailing")
    return "\n".join(out) + "\n"


def nest(name, lines, root):
    parts = name.split(".")
    d = root
    for p in parts[:-1]:
        d = d.setdefault(p, {})
    d[parts[-1]] = list(lines)


def base_desc(item):
    """(name, yaml-dict, argv-prefix, links, yrel)"""
    return item


def plain_spec(desc, extra_files=None, d_override=None, extra_argv=()):
    name, d, argv, links, yrel = desc
    dd = d_override if d_override is not None else d
    files = {yrel: workloads.dump_yaml(dd)}
    files.update(extra_files or {})
    sp = {"name": name, "files": files, "dirs": ["out"],
          "argv": list(argv) + list(extra_argv) + [yrel], "monitors": ["splice"]}
    if links:
        sp["links"] = links
    return sp


def observed_blocks(rr):
    """{lang: {name: [body, ...]}} from the monitor, plus the same from the files."""
    mon = {}
    for s in rr["events"]["splicers"]:
        lang = LANG_OF.get(s["emitter"])
        if lang:
            mon.setdefault(lang, {}).setdefault(s["name"], []).append(s)
    return mon


def file_blocks(rr):
    out = {}
    for rel, text in rr["outputs"].items():
        if rel.endswith((".json", ".log", ".yaml", ".txt")):
            continue
        for name, bodies in extract_blocks(text).items():
            out.setdefault(rel, {})[name] = bodies
    return out


def lang_of_file(rel):
    b = os.path.basename(rel)
    if b.lower().endswith((".f", ".f90")):
        return "f"
    if b.startswith("py") or b == "setup.py":
        return "py"
    if b.startswith("lua"):
        return "lua"
    return "c"


def main(rec):
    thorough = common.tier() == "thorough"
    r = common.rng("c12")
    rec.rule = ("one evaluation = one Shroud run with user bodies supplied for a random subset of the splicer names a "
                "plain run produced (routes: splicer file, splicer_code, declaration-level, and pairs of routes), or one "
                "round-trip run; distinct_nontrivial = distinct (description, route set, supplied-name set) with at least "
                "one user body actually emitted (monitor source == 'user' or 'force')")
    rec.assumptions = ["user lines never begin in column one with a formatting metacharacter (#@^+-0) and never contain "
                       "the words 'splicer begin/end' (the property's domain)"]
    descs = []
    links = {"input": os.path.join(common.REPO, "regression", "input")}
    for c in corpus.configs():
        if any(a.startswith(("--write-helpers", "--yaml-types", "--write-statements")) for a in c["cmdline"]):
            continue
        d = workloads.load_yaml(corpus.yaml_text(c)) or {}
        descs.append((c["name"], d, ["--path", "input", "--logdir", "out", "--outdir", "out"] + list(c["cmdline"]), links,
                      "work/" + c["yaml"]))
    libs = gen.libraries(thorough, count=(40 if thorough else 10), salt="c12")
    if not thorough:
        libs = [x for i, x in enumerate(libs) if x[0].startswith("gmix") or i % 10 == common.seed() % 10]
    for name, d, meta in libs:
        descs.append((name, d, ["--logdir", "out", "--outdir", "out"], None, "work/%s.yaml" % name))
    # quick tier: the plain run is made for every description; the supplied-body variants for every second one (rotating
    # with the seed), for the generated mixes, and for every description that emits a splicer name more than once
    rotation = {x[0] for i, x in enumerate(descs) if i % 2 == common.seed() % 2 or x[0].startswith("gmix")}

    # ---- phase 1: plain runs (names + defaults)
    p1 = [plain_spec(dsc) for dsc in descs]
    r1 = pool.run_cases("vf.shroudrun", p1, timeout=300)
    jobs = []
    for dsc, sp, rr in zip(descs, p1, r1):
        if workloads.bad_run(rec, sp, rr):
            continue
        name, d, argv, links_, yrel = dsc
        mon = observed_blocks(rr)
        rec.count("splicer_blocks_seen_plain", sum(len(v) for v in mon.values()))
        fb = file_blocks(rr)
        # monitor vs files: every block the monitor saw is in a file and vice versa
        nfile = sum(len(b) for f in fb.values() for b in f.values())
        nmon = sum(len(b) for l in mon.values() for b in l.values())
        if nfile != nmon:
            rec.count("monitor_file_block_count_mismatch")
        defaults = {}
        for rel, blocks in fb.items():
            for n, bodies in blocks.items():
                defaults.setdefault((lang_of_file(rel), n), []).extend(bodies)
        # names to supply: blocks that exist in the emitted files exactly once (a name emitted twice cannot
        # be addressed unambiguously) and that upstream's own splicers do not already fill
        avail = {}
        dups = []
        for (lang, n), bodies in sorted(defaults.items()):
            evs = mon.get(lang, {}).get(n, [])
            if len(bodies) == 1 and evs and all(e["source"] in ("default", "none") for e in evs):
                avail.setdefault(lang, []).append(n)
            elif len(bodies) > 1 and evs and all(e["source"] in ("default", "none") for e in evs):
                # a name emitted several times (class template instantiations share class.<name>.*): the user's code
                # must reach every block of that name
                dups.append((lang, n))
        rec.count("duplicate_block_names_in_output", sum(1 for b in defaults.values() if len(b) > 1))
        if not thorough and name not in rotation and not dups:
            jobs.append(roundtrip_spec(dsc, rr))
            jobs.append(roundtrip_spec(dsc, rr, edit=common.rng("c12edit", name)))
            continue
        nvar = 6 if thorough else 2
        avail0 = avail
        for k in range(nvar):
            # every multiply-emitted name is supplied in one of two consecutive variants
            avail = {l_: list(v_) for l_, v_ in avail0.items()}
            forced_pick = {}
            for j, (lang, n) in enumerate(dups):
                if (j + k) % 2 == 0:
                    avail.setdefault(lang, []).append(n)
                    forced_pick.setdefault(lang, []).append(n)
                    rec.count("multiply_emitted_names_supplied")
            routes = r.choice([("file",), ("code",), ("file", "code"), ("file", "decl"), ("code", "decl"), ("file", "code", "decl")])
            supplied = {}   # (lang, name) -> (route, lines)
            forced_decls = {}
            files = {}
            dd = copy.deepcopy(d)
            argv_extra = []
            per_route = {"file": {}, "code": {}}
            for lang, names in avail.items():
                pick = r.sample(names, min(len(names), r.randint(1, 5)))
                pick = pick + [n for n in forced_pick.get(lang, [])[:6] if n not in pick]
                for n in pick:
                    route = r.choice([x for x in routes if x != "decl"] or ["file"])
                    body = gen_body(r, lang)
                    body[0] = ("vf_mark_%s = %d" % (re.sub(r"\W", "_", n), r.randint(0, 10 ** 6)))
                    if route == "file" and r.random() < 0.2:
                        body = []          # the user emptied the block (a hand edit like any other)
                    per_route[route].setdefault(lang, {})[n] = body
                    supplied[(lang, n)] = (route, body)
            for lang, blocks in per_route["file"].items():
                sfx_ = SUFFIXES[lang][len(jobs) % len(SUFFIXES[lang])]
                rec.add_to_set("splicer_file_suffixes", [sfx_])
                fn = "work/user_splicer" + sfx_
                files[fn] = file_for(lang, blocks, r)
                if r.random() < 0.5 and lang != "zz":
                    dd.setdefault("splicer", {}).setdefault(lang, [])
                    dd["splicer"] = dict(dd["splicer"])
                    dd["splicer"][lang] = list(dd["splicer"][lang]) + [os.path.basename(fn)]
                    if "--path" in argv:
                        pass
                    argv_extra = ["--path", "work:input"] if links_ else ["--path", "work"]
                else:
                    argv_extra_file = fn
                    files.setdefault("__cmdline__", [])
                    files["__cmdline__"].append(fn)
            sc = copy.deepcopy(dd.get("splicer_code") or {})
            for lang, blocks in per_route["code"].items():
                for n, body in blocks.items():
                    nest(n, body, sc.setdefault(lang, {}))
            if per_route["code"]:
                dd["splicer_code"] = sc
            # declaration-level: force a body on a function entry that has none; the same name also gets a
            # (different) body through another route to observe precedence
            if "decl" in routes:
                ents = [e for e in _func_entries(dd) if "splicer" not in e]
                for e in r.sample(ents, min(len(ents), 2)):
                    sp_l = {}
                    for lang in ("c", "f", "py"):
                        if r.random() < 0.7:
                            body = gen_body(r, lang)
                            body[0] = "vf_force_%s_%d = 1" % (lang, r.randint(0, 10 ** 6))
                            sp_l[lang] = body
                    if sp_l:
                        # docs/input.rst: the code of a declaration-level splicer is a list of lines or one text block
                        # (with or without a final newline, YAML block or quoted scalar)
                        def form_(body_):
                            c_ = r.random()
                            if c_ < 0.4 or any(not x.strip() for x in body_[-1:]):
                                return list(body_)
                            rec.count("forced_bodies_given_as_text")
                            return "\n".join(body_) + ("\n" if c_ < 0.6 else "")
                        e["splicer"] = {l_: form_(b_) for l_, b_ in sp_l.items()}
                        supplied[("decl", id(e))] = ("decl", sp_l)
                        for lang_, b_ in sp_l.items():
                            forced_decls[b_[0]] = {"decl": e["decl"], "options": e.get("options"), "lib_options": {k: v for k, v in (dd.get("options") or {}).items() if k.startswith("wrap_")}, "language": dd.get("language")}
            cmd_files = files.pop("__cmdline__", [])
            sp = plain_spec(dsc, files, dd)
            base_argv = list(argv)
            if argv_extra:
                # replace the --path of the corpus spec
                if "--path" in base_argv:
                    i = base_argv.index("--path")
                    base_argv[i + 1] = argv_extra[1]
                else:
                    base_argv = argv_extra + base_argv
            sp["argv"] = base_argv + [yrel] + cmd_files
            sp["supplied"] = {"%s|%s" % k_: v for k_, v in supplied.items() if k_[0] != "decl"}
            sp["forced"] = [v[1] for k_, v in supplied.items() if k_[0] == "decl"]
            sp["forced_decls"] = forced_decls
            sp["routes"] = routes
            sp["defaults"] = {"%s|%s" % k_: v for k_, v in defaults.items()}
            jobs.append(sp)
        # round trip of the plain output
        jobs.append(roundtrip_spec(dsc, rr))
        jobs.append(roundtrip_spec(dsc, rr, edit=common.rng("c12edit", name)))
    res = pool.run_cases("vf.shroudrun", jobs, timeout=300)
    second = []
    for sp, rr in zip(jobs, res):
        if sp.get("roundtrip"):
            judge_roundtrip(rec, sp, rr)
            continue
        if rr.get("exc") or rr.get("exit") not in (0,):
            if workloads.bad_run(rec, sp, rr) and (rr.get("exc") or rr.get("exit_msg")):
                e = rr.get("exc") or {}
                rec.violation("supplying-splicers-makes-shroud-fail:%s:%s" % (e.get("type"), e.get("where")),
                              "%s routes %s: %s %s %s" % (sp["name"], sp["routes"], e.get("type"), e.get("msg", "")[:300],
                                                          rr.get("exit_msg", "")), sp)
            continue
        judge_supplied(rec, sp, rr)
        # phase 3: deliberate conflict -- the blocks that took a declaration-level body also get a
        # different body through splicer_code and through a file; the declaration-level one must win
        if sp["forced"]:
            got = {}
            for rel, blocks in file_blocks(rr).items():
                for n, bodies in blocks.items():
                    for b in bodies:
                        for x in b:
                            if x.strip().startswith("vf_force_"):
                                got[x.strip()] = (lang_of_file(rel), n, norm(b))
            if got:
                sp3 = copy.deepcopy(sp)
                yrel = [k for k in sp3["files"] if k.endswith(".yaml")][0]
                dd = workloads.load_yaml(sp3["files"][yrel])
                sc = dd.get("splicer_code") or {}
                fileblocks = {}
                expect = {}
                for i, (mark, (lang, n, body)) in enumerate(sorted(got.items())):
                    loser = ["vf_loser_%d = 1" % i, "vf_loser_line2"]
                    if i % 2 == 0:
                        nest(n, loser, sc.setdefault(lang, {}))
                    else:
                        fileblocks.setdefault(lang, {})[n] = loser
                    expect["%s|%s" % (lang, n)] = body
                dd["splicer_code"] = sc
                sp3["files"][yrel] = workloads.dump_yaml(dd)
                for lang, blocks in fileblocks.items():
                    fn = "work/conflict_splicer" + SUFFIX[lang]
                    sp3["files"][fn] = file_for(lang, blocks, common.rng("c12", "conf"), junk=False)
                    sp3["argv"] = list(sp3["argv"]) + [fn]
                sp3["expect_forced"] = expect
                second.append(sp3)
    res3 = pool.run_cases("vf.shroudrun", second, timeout=300)
    for sp3, rr in zip(second, res3):
        if workloads.bad_run(rec, sp3, rr):
            continue
        got = {}
        for rel, blocks in file_blocks(rr).items():
            for n, bodies in blocks.items():
                got.setdefault("%s|%s" % (lang_of_file(rel), n), []).extend(bodies)
        for key, body in sp3["expect_forced"].items():
            rec.count("precedence_conflicts_checked")
            bodies = got.get(key) or []
            if not any(norm(b) == body for b in bodies):
                rec.violation("precedence:declaration-level-body-loses",
                              "%s: block %s has a declaration-level body and another route supplies the same name\n want %r\n got  %r" % (
                                  sp3["name"], key, body, [norm(b) for b in bodies]), sp3)
        rec.case(key="conflict|%s|%s" % (sp3["name"], sorted(sp3["expect_forced"])),
                 sample={"description": sp3["name"], "conflict_blocks": sorted(sp3["expect_forced"])[:4]})
    if rec.counters.get("user_bodies_checked", 0) == 0:
        rec.inconclusive = "no user body reached the emitter"


def _func_entries(d):
    from .c16 import decl_entries
    from .c14 import is_func_entry
    return [e for e in decl_entries(d) if is_func_entry(e) and "template" not in e["decl"]]


def judge_supplied(rec, sp, rr):
    fb = file_blocks(rr)
    got = {}
    for rel, blocks in fb.items():
        for n, bodies in blocks.items():
            got.setdefault("%s|%s" % (lang_of_file(rel), n), []).extend(bodies)
    mon = observed_blocks(rr)
    emitted_user = 0
    alltext = "\n".join(v for k, v in rr["outputs"].items() if not k.endswith((".json", ".log")))
    if "VFJUNK" in alltext:
        rec.violation("text-outside-markers-emitted", "%s: text outside splicer markers appears in the output" % sp["name"], sp)
    for key, (route, body) in sp["supplied"].items():
        bodies = got.get(key)
        rec.count("user_bodies_checked")
        if not bodies:
            rec.violation("block-missing:%s" % route, "%s: no block %s in the regenerated output" % (sp["name"], key), sp)
            continue
        emitted_user += 1
        want = norm(body)
        if not want:
            rec.count("emptied_blocks_checked")
        for b in bodies:
            if any(x.strip().startswith("vf_force_") for x in b):
                rec.count("precedence_decl_over_other_observed")
                continue       # the declaration-level body won: judged in the forced loop below
            if norm(b) != want:
                default = sp["defaults"].get(key)
                kept_default = default is not None and any(norm(b) == norm(x) for x in default)
                rec.violation(classify(route, want, norm(b), kept_default, sp["routes"]) + ("" if want else ":emptied-block"),
                              "%s: block %s supplied via %s (routes in this run: %s)\n want %r\n got  %r" % (
                                  sp["name"], key, route, sp["routes"], want, norm(b)), sp)
    # blocks not supplied keep the default
    for key, default in sp["defaults"].items():
        if key in sp["supplied"]:
            continue
        bodies = got.get(key)
        if bodies is None:
            continue
        if sp["forced"]:
            # a forced body replaces some function block: identified by its mark
            if any("vf_force_" in ln for b in bodies for ln in b):
                continue
        rec.count("default_blocks_checked")
        if [norm(b) for b in bodies] != [norm(b) for b in default]:
            if sp["forced"]:
                continue   # forcing a wrapper can legitimately create/alter neighbouring blocks
            rec.violation("unsupplied-block-changed", "%s: block %s not supplied but differs from the plain run\n plain %r\n now   %r" % (
                sp["name"], key, default, bodies), sp)
    # declaration-level precedence: forced bodies appear, complete
    for forced in sp["forced"]:
        for lang, body in forced.items():
            mark = body[0]
            found = False
            for key, bodies in got.items():
                for b in bodies:
                    if mark in [x.strip() for x in b]:
                        found = True
                        rec.count("forced_bodies_checked")
                        if norm(b) != norm(body):
                            rec.violation(classify("decl", norm(body), norm(b), False, sp["routes"]),
                                          "%s: declaration-level %s splicer\n want %r\n got  %r" % (sp["name"], lang, norm(body), norm(b)), sp)
            if not found:
                # outputs without splicer markers (show_splicer_comments off): look for the body in the raw text
                for rel, text in rr["outputs"].items():
                    if rel.endswith((".json", ".log", ".yaml", ".txt")):
                        continue
                    lines = [x.strip() for x in text.split("\n")]
                    if mark in lines:
                        i = lines.index(mark)
                        found = True
                        rec.count("forced_bodies_checked")
                        if lines[i:i + len(body)] != norm(body):
                            rec.violation(classify("decl", norm(body), lines[i:i + len(body)], False, sp["routes"]),
                                          "%s: declaration-level %s splicer (no markers in %s)\n want %r\n got  %r" % (
                                              sp["name"], lang, rel, norm(body), lines[i:i + len(body)]), sp)
                        break
            if not found:
                # legitimate only when Shroud itself says that this declaration has no wrapper in that language
                # (its JSON dump records the effective wrap flags of every function node)
                info = (sp.get("forced_decls") or {}).get(mark) or {}
                flag = {"c": "c", "f": "fortran", "py": "python"}[lang]
                on = _wrap_on(rr, info.get("decl"), flag)
                dtxt = info.get("decl") or ""
                if lang == "c" and (re.search(r"\bvector\s*<", dtxt) or re.match(r"\s*(const\s+)?(std::)?string\s+\w+\s*\(", dtxt)):
                    on = False      # no plain C entry point exists for these (only the bufferify one, splicer key c_buf)
                if lang == "py" and dtxt.lstrip().startswith("~"):
                    on = False      # the Python destructor is the type's tp_del, not a wrapped method
                if on:
                    rec.violation("declaration-level-body-not-emitted:%s" % lang,
                                  "%s: %r carries a %s splicer and its %s wrapper is on (Shroud's own dump), but the body appears in no block of the output" % (
                                      sp["name"], info.get("decl"), lang, flag), sp)
                else:
                    rec.count("forced_bodies_not_emitted_wrapper_off")
    rec.case(key="%s|%s|%s" % (sp["name"], sp["routes"], sorted(sp["supplied"])) if emitted_user or sp["forced"] else None,
             sample={"description": sp["name"], "routes": sp["routes"], "supplied": sorted(sp["supplied"])[:6]})


def _wrap_on(rr, decl, flag):
    """True if a function node with this declaration text has wrap[flag] in Shroud's JSON dump of the run."""
    if not decl:
        return False
    import json as _json
    for rel, text in rr["outputs"].items():
        if not rel.endswith(".json"):
            continue
        try:
            doc = _json.loads(text)
        except ValueError:
            continue
        stack = [doc]
        while stack:
            x = stack.pop()
            if isinstance(x, dict):
                if x.get("decl") == decl and isinstance(x.get("wrap"), dict) and x["wrap"].get(flag):
                    return True
                stack.extend(x.values())
            elif isinstance(x, list):
                stack.extend(x)
    return False


def classify(route, want, got, kept_default, routes):
    """Mechanism key: what happened to the body (never the random text itself)."""
    if kept_default:
        return "user-body-ignored:%s:routes=%s" % (route, "+".join(routes))
    if len(got) != len(want):
        return "line-count-changed:%s" % route
    kinds = set()
    for w, g in zip(want, got):
        if w == g:
            continue
        if "\t" in w and w.replace("\t", "") == g.replace("\t", ""):
            kinds.add("embedded-tab-removed")
        elif w.endswith("+") and w[:-1].rstrip() == g:
            kinds.add("trailing-plus-removed")
        elif w.endswith("-") and w[:-1].rstrip() == g:
            kinds.add("trailing-minus-removed")
        else:
            kinds.add("line-altered")
    # one mechanism per run and route: the most specific kind that explains a line
    order = ["line-altered", "embedded-tab-removed", "trailing-plus-removed", "trailing-minus-removed"]
    for k in order:
        if k in kinds:
            return "%s:%s" % (k, route)
    return "line-altered:%s" % route


def edit_blocks(text, lang, r, editable, tag):
    """A hand-edited copy of a generated file: some of the blocks whose body is the generated default get a
    new body (first line unique per block occurrence).  Returns (text, number of blocks edited)."""
    out = []
    cur = None
    n = 0
    for ln in text.split("\n"):
        if cur is None:
            out.append(ln)
            m = BEGIN_RE.search(ln)
            if m:
                cur = m.group(1)
                skip = False
                if cur in editable and r.random() < 0.4:
                    n += 1
                    body = gen_body(r, lang if lang in PLAUSIBLE else "c")[:3]
                    out.append("vf_edit_%s_%d = 1" % (tag, n))
                    out.extend(body)
                    skip = True
            continue
        m2 = END_RE.search(ln)
        if m2 and m2.group(1) == cur:
            out.append(ln)
            cur = None
            continue
        if not skip:
            out.append(ln)
    return "\n".join(out), n


def roundtrip_spec(dsc, rr, edit=None):
    """Feed every generated file back as a splicer file of its language (edit: rng -> the files are hand-edited
    inside some blocks first)."""
    name, d, argv, links_, yrel = dsc
    dd = copy.deepcopy(d)
    files = {}
    spl = {}
    outputs = dict(rr["outputs"])
    nedit = 0
    if edit is not None:
        mon = observed_blocks(rr)
        for k_, rel in enumerate(sorted(outputs)):
            text = outputs[rel]
            if rel.endswith((".json", ".log", ".yaml", ".txt")) or "splicer begin" not in text:
                continue
            lang = lang_of_file(rel)
            editable = {n for n, evs in mon.get(lang, {}).items() if evs and all(e["source"] in ("default", "none") for e in evs)}
            outputs[rel], k = edit_blocks(text, lang, edit, editable, "f%d" % k_)
            nedit += k
    for rel, text in outputs.items():
        if rel.endswith((".json", ".log", ".yaml", ".txt")) or "splicer begin" not in text:
            continue
        lang = lang_of_file(rel)
        fn = "rt_" + os.path.basename(rel)
        files["work/" + fn] = text
        spl.setdefault(lang, []).append(fn)
    old = dd.get("splicer") or {}
    new = {}
    for lang in set(old) | set(spl):
        if lang == "__line__":
            continue
        # generated files first: upstream's own splicer files define the same names
        new[lang] = sorted(spl.get(lang, []))
    dd["splicer"] = new
    dd.pop("splicer_code", None) if False else None
    sp = plain_spec(dsc, files, dd)
    base_argv = list(argv)
    if "--path" in base_argv:
        i = base_argv.index("--path")
        base_argv[i + 1] = "work:" + base_argv[i + 1]
    else:
        base_argv = ["--path", "work"] + base_argv
    sp["argv"] = base_argv + [yrel]
    sp["roundtrip"] = True
    from .c16 import decl_entries
    sp["template_classes"] = sorted({m.group(1) for e in decl_entries(d)
                                     for m in [re.search(r"template\s*<[^>]*>\s*class\s+(\w+)", e["decl"])] if m})
    sp["before"] = {rel: extract_blocks(text) for rel, text in outputs.items()
                    if not rel.endswith((".json", ".log", ".yaml", ".txt"))}
    sp["edited"] = nedit
    if edit is not None:
        sp["name"] = sp.get("name", name) + "+edited"
    return sp


def judge_roundtrip(rec, sp, rr):
    if rr.get("exc") or rr.get("exit") not in (0,):
        e = rr.get("exc") or {}
        if e or rr.get("exit_msg"):
            rec.violation("roundtrip-fails:%s:%s" % (e.get("type"), (e.get("msg") or rr.get("exit_msg") or "")[:40]),
                          "%s: feeding generated files back as splicer files fails: %s %s %s" % (
                              sp["name"], e.get("type"), e.get("msg", "")[:300], rr.get("exit_msg", "")), sp)
        else:
            workloads.bad_run(rec, sp, rr)
        return
    after = {rel: extract_blocks(text) for rel, text in rr["outputs"].items()}
    n = 0
    mult = {}
    for rel, blocks in sp["before"].items():
        for name, bodies in blocks.items():
            k = (lang_of_file(rel), name)
            mult[k] = mult.get(k, 0) + len(bodies)
    for rel, blocks in sp["before"].items():
        for name, bodies in blocks.items():
            nb = after.get(rel, {}).get(name)
            n += 1
            if nb is None:
                rec.violation("roundtrip-block-missing", "%s: %s %s" % (sp["name"], rel, name), sp)
                continue
            if [norm(b) for b in nb] != [norm(b) for b in bodies]:
                w, g = [norm(b) for b in bodies], [norm(b) for b in nb]
                if mult[(lang_of_file(rel), name)] > 1:
                    # the same splicer name is emitted for several blocks: the reader can keep only one body
                    tc = [t for t in sp.get("template_classes", []) if ("class.%s." % t) in name]
                    mech = ("roundtrip:duplicate-name:class-template-instantiation" if tc
                            else "roundtrip:duplicate-name:other:" + name)
                    rec.violation(mech, "%s: splicer name %s is emitted %d times (%s); bodies\n before %r\n after  %r" % (
                        sp["name"], name, mult[(lang_of_file(rel), name)], rel, w, g), sp)
                    continue
                rec.violation("roundtrip:" + classify("file", w[0], g[0], False, ("file",)) if len(w) == len(g) == 1 else "roundtrip:bodies-differ",
                              "%s: %s block %s changes when the generated file is fed back\n before %r\n after  %r" % (
                                  sp["name"], rel, name, w, g), sp)
    rec.count("roundtrip_blocks_checked", n)
    rec.count("roundtrip_hand_edited_blocks", sp.get("edited", 0))
    rec.count("user_bodies_checked", n)
    rec.case(key="rt|%s" % sp["name"] if n else None, sample={"roundtrip": sp["name"], "blocks": n, "hand_edited": sp.get("edited", 0)})


def replay(bundle):
    sp = bundle["case"]
    rr = pool.run_cases("vf.shroudrun", [sp])[0]
    rec = common.Recorder("C12")
    if sp.get("roundtrip"):
        judge_roundtrip(rec, sp, rr)
    else:
        judge_supplied(rec, sp, rr)
    for mech, detail, _ in rec.violations + [(k, v[2], None) for k, v in rec.known.items()]:
        print(mech, "\n", detail)
    if rec.violations:
        print("VIOLATION property=C12 replay=replayed")
        return 1
    return 0
