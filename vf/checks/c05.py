"""C05 — every accepted input yields wrapper sources that compile and link.

Deciding method: real Shroud runs over generated libraries (pairwise-covering option combinations)
and the upstream corpus; every emitted file is then handed to the real compilers: headers on their own
as C and as C++, C/C++ sources, Fortran modules in dependency order, Python extension sources against
Python.h, Lua sources against the minilua headers; everything is linked with the subject library with
-Wl,--no-undefined.  Warnings are not events; a missing environment header (numpy, mpi) makes a case
unreachable.
"""
from __future__ import annotations

import itertools
import os
import shutil
import re
import sysconfig

from .. import buildfarm, common, corpus, engine, pool, workloads
from ..libgen import ir, libs

LEVEL = "exploration"
PYINC = sysconfig.get_paths()["include"]
MINILUA = os.path.join(common.VERIF, "native", "minilua")
ENV_HEADERS = re.compile(r"(numpy/arrayobject\.h|mpi\.h): No such file")


def compile_all(name, lang, out, incs, res, subject_objs, have_subject=True, wraps=("c", "fortran")):
    """Compile every generated file in 'out'. incs: extra include dirs. Appends violations to res."""
    files = sorted(os.listdir(out))
    I = ["-I", "."] + [x for d in incs for x in ("-I", d)]
    st = res["stats"]

    def viol(kind, f, se):
        m = ENV_HEADERS.search(se)
        if m:
            res.setdefault("unreachable", []).append("%s needs %s" % (f, m.group(1)))
            return
        where, msg = engine.first_error(se)
        res["violations"].append({"mech": "%s:%s" % (kind, msg), "detail": "%s: %s\n%s" % (name, f, se[:2500])})

    # headers on their own
    for f in files:
        if not f.endswith((".h", ".hpp")) or f in res.get("subject_headers", ()):
            continue
        is_py = f.startswith("py")
        is_lua = f.startswith("lua")
        extra = (["-I", PYINC] if is_py else []) + (["-I", MINILUA] if is_lua else [])
        modes = []
        if f.endswith(".hpp") or is_py and lang == "c++" or is_lua:
            modes = [("c++", ["g++", "-x", "c++", "-std=c++11"])]
        elif is_py:
            modes = [("c", ["gcc", "-x", "c", "-std=c99"])]
        else:
            modes = [("c", ["gcc", "-x", "c", "-std=c99"]), ("c++", ["g++", "-x", "c++", "-std=c++11"])]
            if lang == "c++" and not have_subject:
                pass
        for mode, cc in modes:
            rc, so, se = engine.sh(cc + ["-fsyntax-only", "-w"] + I + extra + [f], out)
            st["headers_checked"] = st.get("headers_checked", 0) + 1
            if rc != 0:
                if not have_subject:
                    res.setdefault("unreachable", []).append("%s needs declarations of a library that has no sources upstream" % f)
                    continue
                viol("header-not-self-contained:as-%s:%s" % (mode, "python" if is_py else "lua" if is_lua else "c"), f, se)
    objs = list(subject_objs)
    ok = True
    # C-family sources
    for f in files:
        if not f.endswith((".c", ".cpp", ".cc")) or f.endswith("_impl.c") or f.endswith("_impl.cpp") or f in ("driver.c",):
            continue
        is_py = f.startswith("py")
        is_lua = f.startswith("lua")
        if not have_subject:
            continue
        extra = (["-I", PYINC] if is_py else []) + (["-I", MINILUA] if is_lua else [])
        cc = ["gcc", "-std=c99"] if f.endswith(".c") else ["g++", "-std=c++11"]
        rc, so, se = engine.sh(cc + ["-g", "-O0", "-w", "-fPIC", "-c", f, "-o", f + ".o"] + I + extra, out)
        st["sources_compiled"] = st.get("sources_compiled", 0) + 1
        if rc != 0:
            viol("source-does-not-compile:%s" % ("python" if is_py else "lua" if is_lua else "c"), f, se)
            ok = False
        else:
            objs.append(f + ".o")
    # Fortran
    ff = engine.fortran_files(out) if have_subject else []
    for f in ff:
        rc, so, se = engine.sh(["gfortran", "-g", "-O0", "-cpp", "-ffree-form", "-w", "-fPIC", "-c", f, "-o", f + ".o"] + I, out)
        st["fortran_compiled"] = st.get("fortran_compiled", 0) + 1
        if rc != 0:
            viol("fortran-module-does-not-compile", f, se)
            ok = False
            break
        objs.append(f + ".o")
    # link everything (python objects may reference libpython: resolved by the interpreter at import time)
    if ok and have_subject and len(objs) > len(subject_objs):
        link = ["gfortran", "-shared", "-o", "all.so"] + objs + ["-lstdc++", "-Wl,--no-undefined"]
        if any(o.startswith("py") for o in objs):
            link = ["gfortran", "-shared", "-o", "all.so"] + objs + ["-lstdc++", "-Wl,--unresolved-symbols=ignore-all"]
            # duplicate definitions are still reported; undefined symbols are checked without the python objects
            link2 = ["gfortran", "-shared", "-o", "nopy.so"] + [o for o in objs if not o.startswith("py")] + ["-lstdc++", "-Wl,--no-undefined"]
        else:
            link2 = None
        if any(o.startswith("lua") for o in objs):
            rc, so, se = engine.sh(["gcc", "-std=c99", "-w", "-fPIC", "-c", os.path.join(MINILUA, "minilua.c"), "-o", "minilua.o"], out)
            link.insert(4, "minilua.o")
            if link2:
                link2.insert(4, "minilua.o")
        for cmd in [link] + ([link2] if link2 else []):
            rc, so, se = engine.sh(cmd, out)
            st["links"] = st.get("links", 0) + 1
            if rc != 0:
                kind = "duplicate-symbol" if "multiple definition" in se else "undefined-symbol" if "undefined reference" in se else "link-fails"
                sym = re.search(r"(?:multiple definition of|undefined reference to) `([^']*)'", se)
                res["violations"].append({"mech": "link:%s:%s" % (kind, re.sub(r"f\d+[a-z0-9]*", "F", sym.group(1)) if sym else "?"),
                                          "detail": "%s\n%s" % (name, se[:2500])})
                break
    return ok


def run_generated(case):
    lib = case["lib"]
    res = {"violations": [], "stats": {}, "name": lib["name"]}
    rr = engine.generate(lib, before=case.get("before"))
    cwd = rr.get("cwd")
    try:
        if rr.get("exc") or rr.get("exit") != 0:
            e = rr.get("exc") or {}
            if e:
                res["violations"].append({"mech": "shroud-fails-on-admitted-library:%s:%s:%s" % (e.get("type"), e.get("where"), engine.re.sub(r"\d+", "N", (e.get("msg") or "").split("\n")[-1])[:40]),
                                          "detail": "%s: %s %s\noptions %r" % (lib["name"], e.get("type"), (e.get("msg") or "")[:800], lib["options"])})
            else:
                _k, _t = engine.reject_mech(rr)
                res["violations"].append({"mech": "shroud-fails-on-admitted-library:" + _k, "detail": "%s: %s\noptions %r" % (lib["name"], _t, lib["options"])})
            return res
        out = os.path.join(cwd, "out")
        res["subject_headers"] = [lib["name"] + (".hpp" if lib["language"] == "c++" else ".h")]
        # subject library only (generated wrappers are compiled by compile_all)
        h, c = ir.library_sources(lib)
        open(os.path.join(out, res["subject_headers"][0]), "w").write(h)
        src = lib["name"] + "_impl" + (".cpp" if lib["language"] == "c++" else ".c")
        open(os.path.join(out, src), "w").write(c)
        cc = ["g++", "-std=c++11"] if src.endswith(".cpp") else ["gcc", "-std=c99"]
        rc, so, se = engine.sh(cc + ["-g", "-O0", "-w", "-fPIC", "-I", engine.NATIVE, "-I", ".", "-c", src, "-o", src + ".o"], out)
        if rc != 0:
            res["harness_error"] = "subject library does not compile: " + se[:1500]
            return res
        compile_all(lib["name"], lib["language"], out, [engine.NATIVE], res, [src + ".o"], wraps=lib["wraps"])
        res["files"] = len(os.listdir(out))
        return res
    finally:
        if cwd:
            common.rmtree(cwd)


def run_corpus(case):
    from .. import shroudrun
    name = case["name"]
    cfg = {c["name"]: c for c in corpus.configs()}[name]
    res = {"violations": [], "stats": {}, "name": name}
    sp = corpus.spec(cfg)
    sp["keep"] = True
    rr = shroudrun.run(sp)
    cwd = rr.get("cwd")
    try:
        if rr.get("exc") or rr.get("exit") != 0:
            e = rr.get("exc") or {}
            res["violations"].append({"mech": "shroud-fails-on-corpus:%s" % e.get("type"), "detail": "%s %s" % (name, e.get("msg"))})
            return res
        out = os.path.join(cwd, "out")
        stem = os.path.splitext(cfg["yaml"])[0]
        srcdir = os.path.join(common.REPO, "regression", "run", stem)
        lang = "c"
        ytext = corpus.yaml_text(cfg)
        if "--language" in cfg["cmdline"]:
            lang = cfg["cmdline"][cfg["cmdline"].index("--language") + 1]
        elif re.search(r"^language:\s*c\s*$", ytext, re.M):
            lang = "c"
        else:
            lang = "c++"
        have = os.path.isdir(srcdir) and any(f.endswith((".h", ".hpp")) for f in os.listdir(srcdir))
        subject_objs = []
        if have:
            for f in sorted(os.listdir(srcdir)):
                if f.endswith((".c", ".cpp")) and not f.startswith(("main", "test")) and f not in ("helper.c",):
                    if (f.endswith(".c") and lang == "c++" and os.path.exists(os.path.join(srcdir, f[:-2] + ".cpp"))):
                        continue
                    if f.endswith(".cpp") and lang == "c" and os.path.exists(os.path.join(srcdir, f[:-4] + ".c")):
                        continue
                    cc = ["gcc", "-std=c99"] if (f.endswith(".c") and lang == "c") else ["g++", "-std=c++11", "-x", "c++"]
                    rc, so, se = engine.sh(cc + ["-g", "-O0", "-w", "-fPIC", "-I", srcdir, "-I", ".", "-c", os.path.join(srcdir, f), "-o", f + ".subj.o"], out)
                    if rc == 0:
                        subject_objs.append(f + ".subj.o")
            if stem == "generic":
                rc, so, se = engine.sh(["gcc", "-std=c99", "-w", "-fPIC", "-I", srcdir, "-I", ".", "-c", os.path.join(srcdir, "helper.c"), "-o", "helper.subj.o"], out)
                if rc == 0:
                    subject_objs.append("helper.subj.o")
        else:
            res.setdefault("unreachable", []).append("no library sources upstream for %s" % stem)
        if stem == "forward" and have:
            # forward.yaml uses types of two other libraries whose modules upstream keeps next to the driver
            for f in ("tutorial_mod.f", "struct_mod.f"):
                engine.sh(["gfortran", "-cpp", "-ffree-form", "-w", "-fPIC", "-c", os.path.join(srcdir, f), "-o", f + ".subj.o"], out)
                subject_objs.append(f + ".subj.o")
        compile_all(name, lang, out, [srcdir] if have else [], res, subject_objs, have_subject=have)
        # upstream test-library quirk: ownership.hpp has no include guard, so any second inclusion is a redefinition
        res["violations"] = [v for v in res["violations"] if not (name == "ownership" and "redefinition of" in v["mech"] and "lua" in v["mech"])]
        return res
    finally:
        if cwd:
            common.rmtree(cwd)


STRUCT_FORMS = {
    # docs/struct.rst, struct.yaml (Cstruct_ptr, Cstruct_list, Arrays1): member kinds, each struct alone in its library so
    # that nothing else brings the module's USE names in
    "ptr_members": ("struct S1 { int n; double *vals; const char *label; };", ["int n", "double *vals", "const char *label"]),
    "ptr_only": ("struct S1 { const int *first; };", ["const int *first"]),
    "ptr_after_array": ("struct S1 { double box[2][3]; long *tags; };", ["double box[2][3]", "long *tags"]),
    "natives": ("struct S1 { int i; long l; float f; double d; size_t z; int64_t w; short h; };",
                ["int i", "long l", "float f", "double d", "size_t z", "int64_t w", "short h"]),
    "char_members": ("struct S1 { char name[20]; char *text; int n; };", ["char name[20]", "char *text", "int n"]),
}


def run_struct_members(case):
    """A struct declared in one line or member by member, alone or next to one scalar function: every generated file compiles."""
    from .. import shroudrun
    lang, form, style, fn = case["lang"], case["form"], case["style"], case["fn"]
    res = {"violations": [], "stats": {}, "name": "sm-%s-%s-%s%s" % (lang, form, style, "-fn" if fn else "")}
    text, members = STRUCT_FORMS[form]
    decls = [{"decl": text}] if style == "inline" else [{"decl": "struct S1", "declarations": [{"decl": m} for m in members]}]
    if fn:
        decls.append({"decl": "int sm_count(int k)"})
    y = {"library": "sm", "cxx_header": "sm.h", "language": lang,
         "options": {"wrap_c": True, "wrap_fortran": True, "wrap_python": False, "wrap_lua": False}, "declarations": decls}
    sp = {"name": res["name"], "files": {"work/sm.yaml": workloads.dump_yaml(y)}, "dirs": ["out"],
          "argv": ["--outdir", "out", "--logdir", "out", "work/sm.yaml"], "monitors": [], "keep": True}
    rr = shroudrun.run(sp)
    cwd = rr.get("cwd")
    try:
        if rr.get("exc") or rr.get("exit") != 0:
            res["violations"].append({"mech": "shroud-fails-on-admitted-library:struct-members:%s" % form, "detail": "%s: %s" % (res["name"], engine.reject_mech(rr)[1][:600])})
            return res
        out = os.path.join(cwd, "out")
        open(os.path.join(out, "sm.h"), "w").write("#include <stddef.h>\n#include <stdint.h>\n%s\ntypedef struct S1 S1;\n%s\n" % (
            text, "#ifdef __cplusplus\nextern \"C\" {\n#endif\nint sm_count(int k);\n#ifdef __cplusplus\n}\n#endif" if fn else ""))
        open(os.path.join(out, "sm_impl.c"), "w").write('#include "sm.h"\n%s' % ("int sm_count(int k) { return k + 1; }\n" if fn else "int sm_unused;\n"))
        rc, so, se = engine.sh(["gcc", "-std=c99", "-w", "-fPIC", "-c", "sm_impl.c", "-o", "sm_impl.o"], out)
        if rc != 0:
            res["harness_error"] = "struct-members subject does not compile: " + se[:300]
            return res
        res["subject_headers"] = ["sm.h"]
        compile_all(res["name"], lang, out, [], res, ["sm_impl.o"], wraps=("c", "fortran"))
        return res
    finally:
        if cwd:
            common.rmtree(cwd)


def covering_configs(r, thorough):
    """Pairwise-covering array over the option axes (greedy)."""
    axes = {
        "wraps": [("c", "fortran"), ("c", "fortran", "python"), ("c", "fortran", "python", "lua"), ("python",), ("lua",), ("c",),
                  ("c", "fortran", "lua")],
        "F_CFI": [False, True],
        "debug": [False, True],
        "doxygen": [True, False],
        "literalinclude": [False, True],
        "show_splicer_comments": [True, False],
        "C_line_length": [72, 40, 100, 132],
        "F_line_length": [72, 40, 100, 132],
    }
    names = list(axes)
    need = set()
    for a, b in itertools.combinations(names, 2):
        for va in axes[a]:
            for vb in axes[b]:
                need.add((a, repr(va), b, repr(vb)))
    rows = []
    while need and len(rows) < 200:
        best, gain = None, -1
        for _ in range(40):
            cand = {n: r.choice(axes[n]) for n in names}
            g = sum(1 for a, b in itertools.combinations(names, 2) if (a, repr(cand[a]), b, repr(cand[b])) in need)
            if g > gain:
                best, gain = cand, g
        rows.append(best)
        for a, b in itertools.combinations(names, 2):
            need.discard((a, repr(best[a]), b, repr(best[b])))
    if thorough:
        rows += [{n: r.choice(axes[n]) for n in names} for _ in range(300)]
    return rows


def main(rec):
    thorough = common.tier() == "thorough"
    r = common.rng("c05")
    rec.max_replays = 60
    rec.rule = ("generated libraries (shape table) under a pairwise-covering array of {language} x {wrapper subsets} x {F_CFI} x "
                "{debug, doxygen, literalinclude, show_splicer_comments} x {C_line_length, F_line_length in 40,72,100,132} "
                "(+300 random higher-strength rows in the thorough tier) and every upstream corpus configuration; "
                "distinct_nontrivial = distinct (library, configuration) builds in which at least one generated file was compiled")
    rec.assumptions = ["gcc/g++/gfortran 12, CPython 3.12 headers, minilua headers for the Lua API (declarations from the Lua 5.3 manual)"]
    rows = covering_configs(r, thorough)
    cases = []
    for k, row in enumerate(rows):
        lang = "c++" if k % 3 else "c"
        wraps = row["wraps"]
        inst = libs.instances(lang, wraps)
        if not inst:
            lang = "c++"
            inst = libs.instances(lang, wraps)
        if not inst:
            continue
        # rotate through the shapes so that every shape meets many option rows
        n = 8
        items = [inst[(k * n + j) % len(inst)] for j in range(n)]
        opts = {x: row[x] for x in ("F_CFI", "debug", "doxygen", "literalinclude", "show_splicer_comments", "C_line_length", "F_line_length")}
        lib = libs.build("v%d" % k, lang, items, wraps, options=opts)
        cases.append({"lib": lib, "row": {k2: list(v) if isinstance(v, tuple) else v for k2, v in row.items()}})
    # small-first: every shape instance alone (a helper or header that only comes in through a *neighbour*
    # function hides a missing dependency), plain and F_CFI
    k = 0
    for lang in ("c", "c++"):
        for s_, T in libs.instances(lang):
            for cfi in ((False, True) if thorough else (k % 2 == 0,)):
                if cfi and "fortran" not in s_["wraps"]:
                    continue
                k += 1
                lib = libs.build("s%d" % k, lang, [(s_, T)], s_["wraps"], options={"F_CFI": cfi})
                cases.append({"lib": lib, "row": {"single_shape": s_["id"], "T": T, "F_CFI": cfi, "wraps": list(s_["wraps"])}})
            # ... and with the C wrapper alone (what Fortran would have pulled in is not there)
            if "c" in s_["wraps"] and len(s_["wraps"]) > 1:
                k += 1
                lib = libs.build("s%d" % k, lang, [(s_, T)], ("c",))
                cases.append({"lib": lib, "row": {"single_shape": s_["id"], "T": T, "F_CFI": False, "wraps": ["c"]}})
    # ownership / memory-management declarations (owner, deref, free_pattern, class-typed results), each alone
    from . import c06
    own = c06.single_declaration_libraries()
    if not thorough:
        own = [x for i, x in enumerate(own) if i % 2 == common.seed() % 2]
    for lib, row in own:
        cases.append({"lib": lib, "row": row})
    # a library wrapped after other libraries in the same Python process (shroud.create_wrapper is documented for use from
    # build scripts): its sources compile exactly as when it is wrapped alone
    from ..libgen import gen as rgen
    rows_ = {x["id"]: x for x in rgen.R.ROWS}
    def _prev(name, lang, ids):
        d_ = rgen.library(name, lang, [(rows_[i], (rows_[i]["types"] or [None])[0]) for i in ids if i in rows_ and lang in rows_[i]["langs"]], ("c", "fortran", "python"))
        return rgen.spec_for(d_, name)
    prevs = {"cstruct": [_prev("prevc", "c", ["struct_fn", "enum_fn", "typedef_fn", "scalar2"])],
             "cxxclass": [_prev("prevx", "c++", ["class_basic", "enum_fn", "struct_fn", "class_enum", "namespace_fn", "vec_in"])],
             "both": [_prev("prevc", "c", ["struct_fn", "enum_fn", "typedef_fn"]), _prev("prevx", "c++", ["class_basic", "class_enum", "str_cref"])]}
    hk = 0
    for pname, before in prevs.items():
        for lang in ("c++", "c"):
            inst = libs.instances(lang, ("c", "fortran", "python"))
            pick = [x for x in inst if x[0]["id"] in ("scalar2", "str_in" if lang == "c++" else "cstr_in", "arr_in", "class_basic", "ptr_out", "bool1")][:5]
            if not pick:
                continue
            hk += 1
            lib = libs.build("h%d" % hk, lang, pick, ("c", "fortran", "python"))
            cases.append({"lib": lib, "before": before, "row": {"after": pname, "wraps": ["c", "fortran", "python"], "F_CFI": False}})
    # overloads / defaulted functions whose fortran_generic entries add C entry points of their own (rank patterns)
    from . import c08 as c08_
    cases.append({"lib": c08_.build_lib("hrank", c08_.rank_generic_groups(), "c++", ("c", "fortran")), "row": {"rank_generic_overloads": True, "wraps": ["c", "fortran"], "F_CFI": False}})
    res = pool.run_cases("vf.checks.c05", cases, func="run_generated", timeout=1800)
    for c, rr in zip(cases, res):
        if "stats" not in rr:
            workloads.bad_run(rec, {"name": c["lib"]["name"]}, rr)
            continue
        if rr.get("harness_error"):
            rec.inconclusive = rr["harness_error"][:300]
            continue
        rec.merge_stats(rr["stats"])
        n = sum(rr["stats"].get(k, 0) for k in ("sources_compiled", "fortran_compiled", "headers_checked"))
        rec.case(key="%s|%r" % (c["lib"]["name"], sorted(c["row"].items())) if n else None,
                 sample={"library": c["lib"]["name"], "language": c["lib"]["language"], "row": c["row"], "stats": rr["stats"]})
        for u in rr.get("unreachable", []):
            rec.unreach(u[:60])
        for v in rr["violations"]:
            rec.violation(v["mech"], v["detail"] + "\noptions: %r" % (c["row"],), {"lib": c["lib"]["name"], "row": c["row"], "language": c["lib"]["language"]})
    scases = [{"lang": lang, "form": form, "style": style, "fn": fn} for lang in ("c", "c++") for form in STRUCT_FORMS
              for style in ("inline", "members") for fn in (False, True)]
    sres = pool.run_cases("vf.checks.c05", scases, func="run_struct_members", timeout=600)
    for c, rr in zip(scases, sres):
        if "stats" not in rr:
            workloads.bad_run(rec, {"name": "struct-members"}, rr)
            continue
        if rr.get("harness_error"):
            rec.inconclusive = rr["harness_error"][:300]
            continue
        rec.merge_stats(rr["stats"])
        rec.count("struct_member_libraries")
        rec.case(key="structmembers|%r" % sorted(c.items()))
        for v in rr["violations"]:
            rec.violation(v["mech"], v["detail"], dict(c, lib=rr["name"]))
    # declarations guarded by cpp_if (documented per-declaration preprocessor conditions): the Fortran module must be
    # accepted by the compiler under every setting of the macros the conditions name
    from . import c08
    pc = c08.cppif_cases()
    pres = pool.run_cases("vf.checks.c08", pc, func="run_cppif", timeout=600)
    for c, rr in zip(pc, pres):
        if "stats" not in rr:
            workloads.bad_run(rec, {"name": c["lib"]["name"]}, rr)
            continue
        rec.count("cpp_if_module_compiles", rr["stats"].get("cpp_if_module_compiles", 0))
        rec.case(key="cppif|" + c["lib"]["name"] if rr["stats"].get("cpp_if_module_compiles") else None)
        for v in rr["violations"]:
            if "does-not-compile" in v["mech"] or "does-not-preprocess" in v["mech"] or v["mech"].startswith("shroud-rejects"):
                rec.violation(v["mech"], v["detail"], {"lib": c["lib"]["name"], "conds": c.get("conds")})
    ccases = [{"name": c["name"]} for c in corpus.configs()]
    cres = pool.run_cases("vf.checks.c05", ccases, func="run_corpus", timeout=1800)
    for c, rr in zip(ccases, cres):
        if "stats" not in rr:
            workloads.bad_run(rec, c, rr)
            continue
        rec.merge_stats({"corpus_" + k: v for k, v in rr["stats"].items()})
        n = sum(rr["stats"].values())
        rec.case(key="corpus|" + c["name"] if n else None)
        for u in rr.get("unreachable", []):
            rec.unreach(re.sub(r"^\S+ ", "", u)[:60])
        for v in rr["violations"]:
            rec.violation("corpus:%s:%s" % (c["name"], v["mech"]), v["detail"], c)
    if rec.counters.get("sources_compiled", 0) == 0:
        rec.inconclusive = rec.inconclusive or "nothing was compiled"


def replay(bundle):
    print("re-run ./check C05 with seed %s" % bundle.get("seed"))
    return 2
