"""C01 — Fortran wrapper calls are equivalent to calling the library directly.

Deciding method: generated libraries (C and C++, F_CFI off/on, debug off/on) are run through Shroud; the
generated C and Fortran wrappers are compiled with ASan+UBSan, linked with the instrumented subject
library and driven by a synthesised Fortran program that uses only the generated modules.  The library's
RECV/SEND trace and the driver's OUT records are compared call by call with the reference model (documented
conversions applied).  The same plan is executed against the description declared as C and as C++ and with
F_CFI on and off (the user-facing API and behaviour must not change).  Upstream main.f drivers (FRUIT
assertions) run as a second workload.
"""
from __future__ import annotations

import copy
import os

from .. import buildfarm, common, engine, pool, workloads
from ..drivers import fortran as fdrv
from ..libgen import ir, libs
from . import c02

LEVEL = "exploration"
F_CONV = {"in": fdrv.conv_in, "out": fdrv.conv_out}


def fortran_plan(lib, r):
    plan = c02.plan_with_objects(lib, r)
    out = []
    for k, call in enumerate(plan):
        f = lib["functions"][call["f"]]
        multi = len(f["variants"]) > 1 or any(g is not f and g["name"] == f["name"] and g.get("cls") == f.get("cls") for g in lib["functions"])
        call["via"] = "generic" if (not multi or k % 2 == 0 or f.get("ctor")) else "specific"
        if f.get("template") and f["ret"].get("T") in (f.get("tparams") or ["ArgType"]):
            # generate.py template_function: "Generics cannot differentiate on return type" -- no generic is created when
            # the result type is a template parameter; only the specifics exist
            call["via"] = "specific"
        if f.get("generic"):
            for gi, g in enumerate(f["generic"]):
                c = copy.deepcopy(call)
                c["generic"] = g
                # values must be exactly representable in the generic's type
                for n, T in g["types"].items():
                    if c["args"][n] not in libs.battery(T):
                        c["args"][n] = libs.battery(T)[(k + gi) % len(libs.battery(T))]
                c["via"] = "generic" if (k + gi) % 2 == 0 else "specific"
                out.append(c)
            continue
        rt = f["ret"]
        if (not f.get("cls") and not f.get("template") and rt["kind"] == "val" and ir.TYPES[rt["T"]]["k"] in ("i", "r") and not ir.TYPES[rt["T"]].get("char")
                and f["params"] and all(p["kind"] == "val" for p in f["params"]) and call.get("op") is None):
            call["twice"] = True
        out.append(call)
    return fdrv.plan_lengths(out, lib, r)


def run_library(case):
    lib, plan = case["lib"], case["plan"]
    res = {"violations": [], "stats": {}, "name": lib["name"]}
    rr = engine.generate(lib)
    cwd = rr.get("cwd")
    try:
        if rr.get("exc") or rr.get("exit") != 0:
            e = rr.get("exc") or {}
            _k, _t = engine.reject_mech(rr)
            res["violations"].append({"mech": "shroud-rejects-admitted-library:" + _k, "detail": "%s: %s" % (lib["name"], _t)})
            return res
        out = os.path.join(cwd, "out")
        objs = engine.build_objects(lib, out, res)
        if objs is None:
            return res
        ff = engine.fortran_files(out)
        open(os.path.join(out, "driver.f90"), "w").write(fdrv.gen_driver(lib, plan))
        fflags = ["-g", "-O0", "-cpp", "-ffree-form", "-ffree-line-length-none", "-w"] + engine.SANF
        fobjs = []
        for f in [os.path.join(engine.NATIVE, "vf_out.f90")] + ff + ["driver.f90"]:
            o = os.path.basename(f) + ".o"
            # the caller's code is optimised (what the interfaces promise the compiler, e.g. PURE, then matters)
            fl_ = [x if x != "-O0" else "-O2" for x in fflags] if f == "driver.f90" else fflags
            rc, so, se = engine.sh(["gfortran"] + fl_ + ["-c", f, "-o", o], out)
            if rc != 0:
                where, msg = engine.first_error(se)
                kind = "driver-does-not-compile-against-generated-module" if f == "driver.f90" else "generated-fortran-does-not-compile"
                res["violations"].append({"mech": "%s:%s" % (kind, msg), "detail": "%s: %s\n%s" % (lib["name"], f, se[:3000])})
                return res
            fobjs.append(o)
        rc, so, se = engine.sh(["gfortran"] + engine.SANF + fobjs + objs + ["-lstdc++", "-o", "driver"], out)
        if rc != 0:
            where, msg = engine.first_error(se)
            res["violations"].append({"mech": "link-fails:%s" % msg, "detail": "%s\n%s" % (lib["name"], se[:2500])})
            return res
        env = dict(os.environ)
        env.update(buildfarm.ASAN_ENV)
        env["VF_TRACE"] = os.path.join(out, "trace.log")
        rc, so, se = engine.sh([os.path.join(out, "driver")], out, env=env, timeout=300)
        if rc == -999:
            res["watchdog"] = True
            return res
        trace, marks = engine.parse_trace(open(env["VF_TRACE"]).read() if os.path.exists(env["VF_TRACE"]) else "")
        outs = engine.parse_out(so)
        res["stats"]["calls"] = len(plan)
        res["stats"]["recv_records"] = sum(1 for v in trace.values() for t in v if t[0] == "RECV")
        res["out_log"] = so if case.get("want_log") else None
        gen_files = set(os.listdir(out))
        for rp in buildfarm.sanitizer_reports(se):
            if rp["kind"].startswith("lsan"):
                for lb in buildfarm.leak_blocks(se):
                    fu = next(((fn, loc) for fn, loc in lb["frames"][1:] if not fn.startswith(("__interceptor", "operator"))), ("?", ""))
                    res["violations"].append({"mech": "sanitizer:lsan:leak-after-driver-released-everything:%s" % c02._norm_fn(fu[0]),
                                              "detail": "%s\n%s" % (lib["name"], lb["text"])})
                continue
            gen, libf = buildfarm.classify_frames(rp["frames"], gen_files)
            res["violations"].append({"mech": "sanitizer:%s:%s" % (rp["kind"], c02._norm_fn(gen or libf or "-")),
                                      "detail": "%s\n%s" % (lib["name"], rp["text"])})
        serials = {}
        serial_counter = 0
        live = 0
        for k, call in enumerate(plan):
            f = lib["functions"][call["f"]]
            if call.get("op") == "new":
                serial_counter += 1
                serials[call["obj"]] = serial_counter
                live += 1
                g, exp = engine.expected_call(lib, call, serials)
                recs = [t for t in trace.get(k, []) if t[0] == "RECV"]
                if len(recs) != 1 or recs[0][1] != g["fid"]:
                    res["violations"].append({"mech": "constructor:wrong-entry-point", "detail": "%s call %d: %r expected %s" % (lib["name"], k, recs, g["fid"])})
                else:
                    for n, want in exp["recv"].items():
                        if recs[0][2].get(n) != want:
                            res["violations"].append({"mech": "library-received-wrong-value:ctor", "detail": "%s %s: %s=%s expected %s" % (lib["name"], g["fid"], n, recs[0][2].get(n), want)})
                if outs.get(k, {}).get("ctor_returns_capsule") != "b:1":
                    res["violations"].append({"mech": "constructor:object-not-associated", "detail": "%s %s: %r" % (lib["name"], g["fid"], outs.get(k))})
            elif call.get("op") == "delete":
                d = [t for t in trace.get(k, []) if t[0] == "DTOR"]
                want = "i:%d" % serials.get(call["obj"], -1)
                if len(d) != 1 or d[0][2].get("this") != want:
                    res["violations"].append({"mech": "destructor:wrong-object-or-count", "detail": "%s call %d: destructor records %r, expected one for this=%s" % (lib["name"], k, d, want)})
                live -= 1
            else:
                for mech, detail in engine.compare_call(lib, k, call, trace, outs.get(k), serials, F_CONV):
                    res["violations"].append({"mech": mech, "detail": "%s: %s" % (lib["name"], detail)})
            res["stats"]["calls_compared"] = res["stats"].get("calls_compared", 0) + 1
            nxt = marks.get(k + 1)
            if nxt is not None and nxt != live:
                res["violations"].append({"mech": "live-object-count-differs", "detail": "%s after call %d: library has %d live objects, model %d" % (lib["name"], k, nxt, live)})
        if plan:
            call = plan[0]
            f = lib["functions"][call["f"]]
            res["sample"] = {"library": lib["name"], "language": lib["language"], "options": lib["options"],
                             "call": f["variants"][call["variant"]]["f_generic"], "args": call["args"],
                             "trace": [" ".join([t[0], t[1]] + ["%s=%s" % kv for kv in t[2].items()]) for t in trace.get(0, [])],
                             "out": outs.get(0)}
        res["shapes"] = sorted({f.get("shape", "?") for f in lib["functions"]})
        res["outs"] = {str(k): v for k, v in outs.items()} if case.get("want_outs") else None
        return res
    finally:
        if cwd:
            common.rmtree(cwd)


def make_cases(r, thorough):
    cases = []
    for lang in ("c++", "c"):
        inst = libs.instances(lang, ("c", "fortran"))
        per = 10
        batches = [inst[i:i + per] for i in range(0, len(inst), per)]
        for bi, items in enumerate(batches):
            for cfi in (False, True):
                if not thorough and cfi and bi % 2 != common.seed() % 2:
                    continue
                for dbg in ((False, True) if thorough else (bi % 2 == 1,)):
                    opts = {"F_CFI": cfi, "debug": dbg}
                    lib = libs.build("b%s%d%s%s" % ("x" if lang == "c++" else "c", bi, "f" if cfi else "", "d" if dbg else ""), lang, items, ("c", "fortran"), options=opts)
                    cases.append({"lib": lib, "plan": fortran_plan(lib, common.rng("c01plan", lang, bi)), "group": (lang, bi), "want_outs": True})
    n = 40 if thorough else 4
    for k in range(n):
        lang = r.choice(["c++", "c++", "c"])
        inst = libs.instances(lang, ("c", "fortran"))
        items = [r.choice(inst) for _ in range(r.randint(3, 10))]
        opts = {"F_CFI": r.random() < 0.4, "debug": r.random() < 0.3}
        fmt = {"C_prefix": r.choice(["ZZ_", "my"])} if r.random() < 0.4 else {}
        ns = r.choice([None, "outer", "outer inner"]) if lang == "c++" else None
        lib = libs.build("m%d" % k, lang, items, ("c", "fortran"), options=opts, fmt=fmt, namespace=ns)
        cases.append({"lib": lib, "plan": fortran_plan(lib, r)})
    return cases


def main(rec):
    thorough = common.tier() == "thorough"
    r = common.rng("c01")
    rec.rule = ("generated libraries (every Fortran-capable shape batched small-first for language c and c++, F_CFI off/on, "
                "debug off/on; random combinations with namespaces / C_prefix); each function called at a base point and with "
                "every battery value one parameter at a time, through the generic name and through the specific; declared "
                "lengths of character / vector outputs varied. distinct_nontrivial = calls whose RECV record and OUT record "
                "were compared with the model")
    rec.assumptions = ["reference model vf/libgen/ir.py + documented Fortran API mapping in vf/drivers/fortran.py",
                       "gfortran/gcc 12 with ASan+UBSan"]
    cases = make_cases(r, thorough)
    res = pool.run_cases("vf.checks.c01", cases, func="run_library", timeout=1800)
    shapes = set()
    groups = {}
    for c, rr in zip(cases, res):
        if "stats" not in rr:
            workloads.bad_run(rec, {"name": c["lib"]["name"]}, rr)
            continue
        if rr.get("harness_error"):
            rec.inconclusive = rr["harness_error"][:300]
        rec.merge_stats(rr["stats"])
        rec.evaluations += rr["stats"].get("calls", 0)
        shapes.update(rr.get("shapes", []))
        if rr.get("sample") and len(rec.samples) < 3:
            rec.samples.append(rr["sample"])
        for v in rr["violations"]:
            if v["mech"].startswith("HARNESS"):
                rec.inconclusive = "harness self-check failed: %s" % v["detail"][:300]
                continue
            rec.violation(v["mech"], v["detail"], {"lib": c["lib"]["name"], "options": c["lib"]["options"], "language": c["lib"]["language"]})
        if c.get("group") and rr.get("outs") is not None:
            groups.setdefault(tuple(c["group"]), []).append((c["lib"], rr["outs"]))
    # metamorphic: same driver plan, F_CFI / debug on or off -> identical caller-visible observations
    for g, lst in groups.items():
        ref_lib, ref = lst[0]
        for lib, outs in lst[1:]:
            rec.count("configuration_pairs_compared")
            if outs != ref:
                ks = [k for k in set(ref) | set(outs) if ref.get(k) != outs.get(k)]
                rec.violation("behaviour-depends-on-configuration:%s" % ("F_CFI" if lib["options"].get("F_CFI") != ref_lib["options"].get("F_CFI") else "debug"),
                              "%s vs %s: call %s: %r vs %r" % (ref_lib["name"], lib["name"], ks[:3], [ref.get(k) for k in ks[:3]], [outs.get(k) for k in ks[:3]]),
                              {"libs": [ref_lib["name"], lib["name"]]})
    rec.add_to_set("shapes_covered", shapes)
    rec.distinct_override = rec.counters.get("calls_compared", 0)
    # upstream Fortran drivers
    # all upstream drivers in both tiers: they exercise declaration forms the generated shapes do not have (structs,
    # enums, callbacks, class arguments, char**, multi-dimensional arrays ...)
    targets = buildfarm.FORTRAN_TARGETS
    ccases = [{"name": n, "targets": ["fortran"]} for n in targets]
    cres = pool.run_cases("vf.buildfarm", ccases, func="corpus_job", timeout=1500)
    for c, rr in zip(ccases, cres):
        if "builds" not in rr:
            workloads.bad_run(rec, c, rr)
            continue
        rec.count("upstream_fortran_drivers_run", sum(1 for b in rr["builds"] if b.get("run_rc") is not None))
        rec.count("upstream_fruit_asserts", rr["stats"].get("fruit_asserts", 0))
        for v in rr["violations"]:
            rec.violation("corpus:%s:%s" % (c["name"], v["mech"]), v["detail"], c)
    if rec.counters.get("recv_records", 0) == 0:
        rec.inconclusive = rec.inconclusive or "no library call was observed"


def replay(bundle):
    print("re-run ./check C01 with seed %s" % bundle.get("seed"))
    return 2
