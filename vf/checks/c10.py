"""C10 — character data crosses the language boundary by the documented rules.

Level 1 (this file): the C and C++ texts of the string helpers are extracted at
run time from whelpers.CHelpers of the working tree, compiled unchanged with
AddressSanitizer + UBSan and called for ALL (source length, destination length,
trimmed length, content over {'a',' '}) combinations up to a bound, on
exact-size heap blocks; results are compared with an executable specification.
Level 2 (end to end through generated Fortran/C wrappers) lives in the
execution engine shared with C01/C02 and is reported there and here.
"""
from __future__ import annotations

import io
import os
import re
import subprocess

from .. import common, pool, workloads

LEVEL = "exploration"
HELPERS = ["ShroudLenTrim", "ShroudStrCopy", "ShroudStrBlankFill", "ShroudStrAlloc", "ShroudStrFree",
           "ShroudStrArrayAlloc", "ShroudStrArrayFree"]
CXX_ONLY = ["ShroudStrToArray", "copy_string"]

SAN = ["-g", "-O0", "-fno-omit-frame-pointer", "-fsanitize=address,undefined", "-fno-sanitize=nonnull-attribute",
       "-fno-sanitize-recover=all"]


def extract(lang):
    """Helper text for language 'c' or 'cxx' from the working tree. Returns (text, have_copy_string, missing)."""
    from shroud import whelpers, ast, typemap, util
    typemap.initialize()
    lib = ast.LibraryNode(library="hlp", language="c" if lang == "c" else "c++")
    whelpers.set_library(lib)
    whelpers.add_all_helpers()
    whelpers.add_capsule_helper()
    CH = whelpers.CHelpers

    class W(util.WrapperMixin):
        pass
    w = W()
    w.linelen, w.cont, w.indent = 1000, "", 0
    out = io.StringIO()
    done = set()
    includes = []
    missing = []

    def emit(name):
        if name in done:
            return
        done.add(name)
        h = CH.get(name)
        if h is None:
            missing.append(name)
            return
        for dep in h.get("dependent_helpers", []):
            emit(dep)
        for key in ((lang + "_include"), "include"):
            for inc in h.get(key, []):
                if inc not in includes:
                    includes.append(inc)
        src = h.get(lang + "_source", h.get("source"))
        if src is None:
            missing.append(name + ":no-source-for-" + lang)
            return
        w.indent = 0
        w.write_lines(out, [src])
    names = list(HELPERS)
    have_copy = False
    if lang == "cxx":
        # types first, then the stub of the library-wide destructor the copy helper calls
        emit("array_context")
        fmt = lib.fmtdict
        prefix = fmt.C_prefix
        out.write("\nstatic void %sSHROUD_memory_destructor(%sSHROUD_capsule_data *cap) { (void) cap; vf_destructor_calls++; }\n" % (prefix, prefix))
        names += CXX_ONLY
        have_copy = True
    for n in names:
        emit(n)
    pre = "".join("#include %s\n" % i if i.startswith("<") else '#include "%s"\n' % i for i in includes)
    text = pre + out.getvalue()
    defs = ""
    if have_copy and not any(m.startswith(("copy_string", "ShroudStrToArray")) for m in missing):
        m = re.search(r"void\s+(\w*ShroudCopyStringAndFree)\s*\(\s*(\w+)\s*\*", text)
        if m:
            defs = "#define VF_HAVE_COPY_STRING 1\n#define VF_COPY_STRING %s\n#define VF_ARRAY_TYPE %s\n" % (m.group(1), m.group(2))
        else:
            missing.append("copy_string:function-name-not-found")
    return defs + text, bool(defs), missing


def run_variant(case):
    lang, N = case["lang"], case["N"]
    res = {"violations": [], "stats": {}, "lang": lang}
    text, have_copy, missing = extract(lang)
    if missing:
        res["missing"] = missing
    d = common.mkscratch("c10-")
    try:
        with open(os.path.join(d, "helpers.inc"), "w") as f:
            f.write(text)
        src = os.path.join(common.VERIF, "native", "c10_driver.c")
        if lang == "c":
            cmd = ["gcc", "-std=c99", "-x", "c", src]
        else:
            cmd = ["g++", "-std=c++11", "-x", "c++", src]
        cmd += SAN + ["-I", d, "-DVF_N=%d" % N, "-o", os.path.join(d, "drv")]
        p = subprocess.run(cmd, capture_output=True, text=True, timeout=600)
        if p.returncode != 0:
            res["violations"].append({"mech": "helper-text-does-not-compile:%s:%s" % (lang, _first_error(p.stderr)),
                                      "detail": p.stderr[:2500]})
            return res
        env = dict(os.environ, ASAN_OPTIONS="halt_on_error=1:detect_leaks=1:abort_on_error=0:alloc_dealloc_mismatch=1",
                   UBSAN_OPTIONS="print_stacktrace=1:halt_on_error=1")
        p = subprocess.run([os.path.join(d, "drv")], capture_output=True, text=True, timeout=3000, env=env)
        m = re.search(r"DONE calls=(\d+) mismatches=(\d+)", p.stdout)
        if m:
            res["stats"]["helper_calls_%s" % lang] = int(m.group(1))
        for ln in p.stdout.split("\n"):
            if ln.startswith("MISMATCH"):
                hm = re.search(r"helper=(\w+)", ln)
                res["violations"].append({"mech": "helper-result-differs-from-spec:%s:%s" % (lang, hm.group(1) if hm else "?"),
                                          "detail": ln})
        if "ERROR: AddressSanitizer" in p.stderr or "runtime error:" in p.stderr or "LeakSanitizer" in p.stderr:
            kind = re.search(r"(AddressSanitizer|LeakSanitizer): ([\w-]+)", p.stderr)
            fn = re.findall(r"#\d+ 0x[0-9a-f]+ in (\w+)", p.stderr)
            helper = next((x for x in fn if x.startswith("Shroud") or "Shroud" in x), fn[0] if fn else "?")
            res["violations"].append({"mech": "sanitizer:%s:%s:%s" % (lang, kind.group(2) if kind else "ubsan", helper),
                                      "detail": p.stderr[:3000]})
        elif not m:
            res["violations"].append({"mech": "driver-did-not-finish:%s" % lang, "detail": (p.stdout[-500:] + p.stderr[-1500:])})
        res["sample"] = {"lang": lang, "N": N, "stdout_tail": p.stdout.strip().split("\n")[-1]}
        return res
    finally:
        common.rmtree(d)


def _first_error(se):
    for ln in se.split("\n"):
        if "error" in ln:
            ln = re.sub(r"^[^:]*:\d+(:\d+)?:?\s*", "", ln)
            return re.sub(r"\d+", "N", ln).strip()[:60]
    return "?"


# ------------------------------------------------------------------ level 2: end to end through generated wrappers

def level2_library(name, lang, cfi, debug=False):
    from ..libgen import libs
    from ..libgen.libs import F, P
    n_ = lambda: P("n", "val", "int", role="outlen")
    fs = [F("ci", "int", [P("s", "cstr_in")]),
          F("so", "void", [n_(), P("s", "cstr_out", charlen=12)]),
          F("sio", "void", [n_(), P("s", "cstr_inout")]),
          F("sgrow", "void", [n_(), P("cap", "val", "int", role="cap"), P("s", "cstr_inout")]),
          F("sres", "cstr", [n_()]),
          F("sresl", {"kind": "cstr_len", "N": 8}, [n_()]),
          # the declared length written as an expression (statement.yaml: +len(...) takes any Fortran expression)
          F("sreslx", {"kind": "cstr_len", "N": 6, "lenexpr": "2*3"}, [n_()])]
    # the same through fortran_generic variants (one more hop between the Fortran wrapper and the buffer-aware C wrapper)
    gen_ = [{"decl": "(float x)", "function_suffix": "_float", "types": {"x": "float"}},
            {"decl": "(double x)", "function_suffix": "_double", "types": {"x": "double"}}]
    fs += [F("gci", "int", [P("s", "cstr_in"), P("x", "val", "double")], generic=[dict(g, decl="(const char *s, %s x)" % g["types"]["x"]) for g in gen_]),
           F("gcio", "void", [n_(), P("cap", "val", "int", role="cap"), P("s", "cstr_inout"), P("x", "val", "double")],
             generic=[dict(g, decl="(int n, int cap, char *s +intent(inout), %s x)" % g["types"]["x"]) for g in gen_])]
    if lang == "c++":
        fs += [F("gxi", "int", [P("s", "str_cref"), P("x", "val", "double")], generic=[dict(g, decl="(const std::string &s, %s x)" % g["types"]["x"]) for g in gen_]),
               F("gxo", "void", [n_(), P("s", "str_ref_out"), P("x", "val", "double")], generic=[dict(g, decl="(int n, std::string &s +intent(out), %s x)" % g["types"]["x"]) for g in gen_])]
    # a by-value char after the string argument (strings.yaml passChar next to the string functions): the string rules
    # still apply to the string
    fs += [F("cic", "int", [P("s", "cstr_in"), P("c", "val", "char")]),
           F("cioc", "void", [n_(), P("cap", "val", "int", role="cap"), P("s", "cstr_inout"), P("c", "val", "char")]),
           F("coc", "void", [n_(), P("s", "cstr_out", charlen=12), P("c", "val", "char")])]
    # a function pointer argument after / before the string argument (callbacks.rst): the string rules still apply
    fs += [F("cifn", "int", [P("s", "cstr_in"), P("fn", "fnptr")]),
           F("fnci", "int", [P("fn", "fnptr"), P("s", "cstr_in")]),
           F("ciofn", "void", [n_(), P("cap", "val", "int", role="cap"), P("s", "cstr_inout"), P("fn", "fnptr")])]
    if lang == "c++":
        fs += [F("xifn", "int", [P("s", "str_cref"), P("fn", "fnptr")])]
    # intent values written in upper case
    fs += [F("uci", "int", [P("s", "cstr_in", upper=True)]),
           F("uso", "void", [n_(), P("s", "cstr_out", charlen=12, upper=True)]),
           F("usio", "void", [n_(), P("cap", "val", "int", role="cap"), P("s", "cstr_inout", upper=True)])]
    if lang == "c++":
        fs += [F("uxi", "int", [P("s", "str_cref", upper=True)]),
               F("uxo", "void", [n_(), P("s", "str_ref_out", upper=True)]),
               F("uxio", "void", [n_(), P("s", "str_ref_inout", explicit=True, upper=True)])]
    if lang == "c++":
        fs += [F("xic", "int", [P("s", "str_cref"), P("c", "val", "char")]),
               F("xoc", "void", [n_(), P("s", "str_ref_out"), P("c", "val", "char")]),
               F("xioc", "void", [n_(), P("s", "str_ref_inout"), P("c", "val", "char")])]
    if lang == "c++":
        fs += [F("xi", "int", [P("s", "str_cref")]), F("xv", "int", [P("s", "str_val")]), F("xp", "int", [P("s", "str_cptr")]),
               F("xo", "void", [n_(), P("s", "str_ref_out")]), F("xio", "void", [n_(), P("s", "str_ref_inout")]),
               F("xpo", "void", [n_(), P("s", "str_ptr_out")]), F("xpio", "void", [n_(), P("s", "str_ptr_inout")]),
               F("xres", "str_cref", [n_()]), F("xval", "str_val", [n_()]),
               F("xresl", {"kind": "str_cref_len", "N": 8}, [n_()]), F("xown", {"kind": "str_ptr_own"}, [n_()]),
               F("xreslx", {"kind": "str_cref_len", "N": 9, "lenexpr": "3+6"}, [n_()])]
    for f in fs:
        f["shape"] = "c10"
        f.setdefault("fid", f["name"])
    lib = {"name": name, "language": lang, "functions": fs, "format": {}, "namespace": None, "wraps": ["c", "fortran"],
           "options": {"wrap_c": True, "wrap_fortran": True, "wrap_python": False, "wrap_lua": False, "F_CFI": cfi, "debug": debug}}
    libs.assign_names(lib)
    return lib


def level2_plan(lib, N):
    """Exhaustive over declared Fortran length x C string length (or trimmed length)."""
    from ..libgen import ir
    PAT, plan = ir.PAT, []
    for fi, f in enumerate(lib["functions"]):
        kinds = [p["kind"] for p in f["params"]]
        sp = next((p for p in f["params"] if p["kind"] in ir.STR_KINDS), None)
        def add(args, flen=None):
            if any(p["name"] == "c" and p.get("T") == "char" for p in f["params"]):
                args = dict(args, c=[65, 122, 48][len(plan) % 3])
            if f.get("generic"):
                for gi, g in enumerate(f["generic"]):
                    if (len(plan) + gi) % 2 and len(args) > 1:
                        continue                 # alternate between the variants to keep the plan small
                    plan.append({"f": fi, "variant": 0, "args": dict(args, x=1.5), "flen": flen or {}, "generic": g,
                                 "via": "generic" if len(plan) % 2 else "specific"})
                return
            plan.append({"f": fi, "variant": 0, "args": args, "flen": flen or {}, "via": "generic"})
        if sp is None:                                   # results
            hi = N + 2 + (f["ret"].get("N", 0) if f["ret"]["kind"].endswith("_len") else 0)
            lo = -1 if f["ret"]["kind"] in ("cstr", "cstr_len") else 0
            for n in range(lo, hi + 1):
                add({"n": n})
        elif sp["kind"] in ("cstr_in", "str_cref", "str_val", "str_cptr"):
            for L in range(0, N + 1):
                for t in range(0, L + 1):
                    add({sp["name"]: PAT[:t] + " " * (L - t)})
        elif sp["kind"] == "cstr_out":
            # char* intent(out): the Fortran variable itself is the buffer the library writes to (docs/input.rst,
            # charlen: "the buffer argument is supplied by the user"), so it is at least charlen long
            K = sp["charlen"]
            for L in range(K, K + N + 1):
                for n in range(0, K + 2):
                    add({"n": n}, {sp["name"]: L})
        elif sp["kind"] in ("str_ref_out", "str_ptr_out"):
            for L in range(0, N + 3):
                for n in range(0, N + 3):
                    add({"n": n}, {sp["name"]: L})
        else:                                            # inout
            has_cap = any(p.get("role") == "cap" for p in f["params"])
            for L in range(0, N + 1):
                for t in range(0, L + 1):
                    for n in sorted({0, t, max(t - 1, 0), L, L + 2}):
                        a = {"n": n, sp["name"]: PAT[3:3 + t]}
                        if has_cap:
                            a["cap"] = L        # documented: the Fortran variable's length is the capacity handed to C
                        add(a, {sp["name"]: L})
    return plan


def main(rec):
    thorough = common.tier() == "thorough"
    N = 14 if thorough else 10
    rec.rule = ("level 1: every helper called for all source lengths 0..N x destination lengths 0..N x trimmed lengths x "
                "(nsrc=-1, src=NULL) x all contents over {'a',' '} up to length 6 (patterns above), N=%d, for the C and the "
                "C++ text; distinct_nontrivial = number of distinct helper calls made (each call has distinct parameters)" % N)
    rec.assumptions = ["ASan/UBSan (gcc 12) on exact-size heap blocks; nonnull-attribute check disabled (zero-length copies from NULL read nothing)",
                       "caller contract for ShroudStrBlankFill: the callee wrote fewer than ndest characters plus a NUL"]
    cases = [{"lang": "c", "N": N}, {"lang": "cxx", "N": N}]
    res = pool.run_cases("vf.checks.c10", cases, func="run_variant", timeout=3600)
    total = 0
    for c, rr in zip(cases, res):
        if "stats" not in rr:
            workloads.bad_run(rec, {"name": c["lang"]}, rr)
            continue
        rec.merge_stats(rr["stats"])
        n = sum(rr["stats"].values())
        total += n
        rec.evaluations += n
        if rr.get("missing"):
            rec.inconclusive = "helpers not found in whelpers.CHelpers: %s" % rr["missing"]
        if rr.get("sample"):
            rec.samples.append(rr["sample"])
        for v in rr["violations"]:
            rec.violation(v["mech"], v["detail"], c)
    # ---- level 2
    from . import c01
    N2 = 10 if thorough else 7
    cases2 = []
    for lang in ("c", "c++"):
        for cfi in (False, True):
            for dbg in ((False, True) if thorough else (False,)):
                lib = level2_library("s%s%s%s" % ("x" if lang == "c++" else "c", "f" if cfi else "", "d" if dbg else ""), lang, cfi, dbg)
                cases2.append({"lib": lib, "plan": level2_plan(lib, N2)})
    res2 = pool.run_cases("vf.checks.c01", cases2, func="run_library", timeout=3600)
    for c, rr in zip(cases2, res2):
        if "stats" not in rr:
            workloads.bad_run(rec, {"name": c["lib"]["name"]}, rr)
            continue
        if rr.get("harness_error"):
            rec.inconclusive = rr["harness_error"][:300]
        n = rr["stats"].get("calls_compared", 0)
        rec.count("level2_calls_compared", n)
        rec.count("level2_recv_records", rr["stats"].get("recv_records", 0))
        rec.evaluations += n
        total += n
        if rr.get("sample") and len(rec.samples) < 4:
            rec.samples.append(rr["sample"])
        for v in rr["violations"]:
            if v["mech"].startswith("HARNESS"):
                rec.inconclusive = "harness self-check failed: %s" % v["detail"][:300]
                continue
            cfg = "%s%s" % (c["lib"]["language"], "+cfi" if c["lib"]["options"]["F_CFI"] else "")
            rec.violation("level2:%s:%s" % (re.sub(r":?\b[A-Z]+_\w+", "", v["mech"]), cfg), v["detail"],
                          {"lib": c["lib"]["name"], "language": c["lib"]["language"], "options": c["lib"]["options"]})
    # distinct calls: the driver enumerates parameter tuples without repetition
    rec.distinct_override = total
    rec.extra["distinct_calls_enumerated"] = total
    rec.extra["exhaustive"] = True
    if total == 0 or rec.counters.get("level2_recv_records", 0) == 0:
        rec.inconclusive = rec.inconclusive or "no helper call was made / no end-to-end call was observed"


def replay(bundle):
    rr = run_variant(bundle["case"])
    for v in rr["violations"]:
        print(v["mech"], "\n", v["detail"][:1500])
    if rr["violations"]:
        print("VIOLATION property=C10 replay=replayed")
        return 1
    return 0
