"""C11 — enumeration constants keep their C++ values in C and Fortran.

Deciding method: run Shroud on generated enum declarations, then *execute*
three compiled programs -- C++ with the original enums, C with the generated
headers, Fortran with the generated modules -- and compare the printed values
member by member.
"""
from __future__ import annotations

import os
import re
import subprocess

from .. import common, pool, workloads
from ..libgen import gen

LEVEL = "exploration"


# ---------------------------------------------------------------- generation

def cdiv(a, b):
    q = abs(a) // abs(b)
    return q if (a >= 0) == (b >= 0) else -q


# shapes that the random generator reaches only rarely: a signed operand after a binary operator followed by a further
# term, nested products / quotients on the right of / and *, parenthesised sums
PATTERNS = ["{A} * -{B} + 1", "{A} - -{B} + 10", "100 / -{K} - {A}", "{A} * -3 + 20", "-{A} + {B}", "- {A} * {B} + 2",
            "{A} / ({K} * 2)", "{A} / (4 / 2)", "{A} - ({B} - 1)", "{A} * ({B} + 1)", "({A} + {B}) * -2 - 1",
            "{A} - {B} * -{K} - 3", "64 / ({K} * 2) / 2", "{A} + -{B} * 2 + 1"]


def c_eval(text, env):
    """Value of an integer expression with C semantics (division truncates toward zero)."""
    import ast as pyast

    def ev(n):
        if isinstance(n, pyast.Expression):
            return ev(n.body)
        if isinstance(n, pyast.Constant):
            return n.value
        if isinstance(n, pyast.Name):
            return env[n.id]
        if isinstance(n, pyast.UnaryOp):
            v = ev(n.operand)
            return -v if isinstance(n.op, pyast.USub) else v
        a, b = ev(n.left), ev(n.right)
        if isinstance(n.op, pyast.Add):
            return a + b
        if isinstance(n.op, pyast.Sub):
            return a - b
        if isinstance(n.op, pyast.Mult):
            return a * b
        if b == 0:
            raise ZeroDivisionError
        q = abs(a) // abs(b) * (1 if (a >= 0) == (b >= 0) else -1)
        return q if isinstance(n.op, pyast.Div) else a - q * b
    return ev(pyast.parse(text.strip(), mode="eval"))


def gen_pattern(r, earlier):
    def atom():
        if earlier and r.random() < 0.6:
            return r.choice(earlier)[0]
        return str(r.choice([1, 2, 3, 5, 7, 12]))
    text = r.choice(PATTERNS).replace("{A}", atom()).replace("{B}", atom()).replace("{K}", str(r.choice([2, 3, 5])))
    try:
        return text, c_eval(text, dict(earlier))
    except ZeroDivisionError:
        return "1", 1


def gen_expr(r, earlier, depth, hostile):
    """Return (text, value) with C semantics; value None if out of the domain."""
    c = r.random()
    if depth <= 0 or c < 0.35:
        if earlier and r.random() < 0.45:
            n, v = r.choice(earlier)
            return n, v
        v = r.choice([0, 1, 2, 3, 4, 5, 7, 8, 10, 16, 20, 100, 255, 1000])
        if hostile and r.random() < 0.15 and v > 0:
            return "0%o" % v, v                    # leading zero: octal literal in C++
        return str(v), v
    if c < 0.45:
        t, v = gen_expr(r, earlier, depth - 1, hostile)
        return "(%s)" % t, v
    if c < 0.58:
        t, v = gen_expr(r, earlier, depth - 1, hostile)
        op = r.choice("-+-")
        if t[0] in "+-":
            t = "(%s)" % t if not hostile or r.random() < 0.5 else " " + t
        t = t if not t.startswith(" ") else t
        return op + t, (-v if op == "-" else v) if v is not None else None
    lt, lv = gen_expr(r, earlier, depth - 1, hostile)
    rt, rv = gen_expr(r, earlier, depth - 1, hostile)
    op = r.choice("+-*/")
    # precedence-correct text: parenthesise lower-precedence operands of * and /
    def wrap(t, right):
        if op in "*/" and re.search(r"[+\-]", t.lstrip("+-(") if t.startswith("(") and t.endswith(")") else t) and not (t.startswith("(") and t.endswith(")")):
            return "(%s)" % t
        if right and op in "-/" and not (t.startswith("(") and t.endswith(")")) and re.search(r"[+\-*/]", t[1:]):
            return "(%s)" % t
        return t
    lt2, rt2 = wrap(lt, False), wrap(rt, True)
    sp = r.choice(["", " "])
    # adjacent signs always keep a blank in the *input* ('1 - -1' is C++, '1--1' is not)
    text = "%s%s%s%s%s" % (lt2, sp, op, sp if not rt2.startswith(("-", "+")) else " ", rt2)
    if rt2.startswith(("-", "+")) and not hostile:
        text = "%s %s (%s)" % (lt2, op, rt2)
    if lv is None or rv is None:
        return text, None
    if op == "+":
        v = lv + rv
    elif op == "-":
        v = lv - rv
    elif op == "*":
        v = lv * rv
    else:
        if rv == 0:
            return text, None
        v = cdiv(lv, rv)
    return text, v


def gen_enum(r, idx, hostile):
    n = r.randint(1, 6)
    mask = r.getrandbits(n)
    scoped = r.choice([None, None, "class", "struct"])
    members = []
    earlier = []
    cur = -1
    # enumerators of a scoped enumeration live in the enumeration: several of them may use the same names
    # (enum class Shade { RED = 20, DARK = RED + 5 } next to enum class Tint { RED = 1 }); a reference inside an
    # enumeration means its own enumerator
    pool = r.sample(range(8), n) if scoped and r.random() < 0.5 else None
    # ordinary long identifiers: the Fortran parameter statement of such an enumerator does not fit the line length
    longn = pool is None and r.random() < 0.2
    for i in range(n):
        name = ("M%d_%d" % (idx, i) + ("_reset_to_the_lowest_allowed_setpoint_offset"[: r.randint(20, 44)] if longn else "")) if pool is None else "S%d" % pool[i]
        if mask >> i & 1 and r.random() < 0.3:
            text, v = gen_pattern(r, earlier)
            cur = v
            members.append((name, text))
        elif mask >> i & 1:
            for _ in range(20):
                text, v = gen_expr(r, earlier, r.randint(0, 3), hostile)
                if v is not None and -10 ** 6 < v < 10 ** 6 and "--" not in text.replace(" ", "") or (hostile and v is not None and -10 ** 6 < v < 10 ** 6):
                    break
            else:
                text, v = "1", 1
            cur = v
            members.append((name, text))
        else:
            cur += 1
            members.append((name, None))
        earlier.append((name, cur))
    return {"name": "E%d" % idx, "scoped": scoped, "members": members}


def enum_cxx(e):
    body = ", ".join(n if t is None else "%s = %s" % (n, t) for n, t in e["members"])
    return "enum %s%s { %s }" % ((e["scoped"] + " ") if e["scoped"] else "", e["name"], body)


def make_library(r, libname, nenum, hostile):
    enums = [gen_enum(r, i, hostile) for i in range(nenum)]
    places = []
    decls = []
    ns_decls, cls_decls = [], []
    for e in enums:
        where = r.choice(["lib", "lib", "ns", "class"])
        e["where"] = where
        ent = {"decl": enum_cxx(e)}
        {"lib": decls, "ns": ns_decls, "class": cls_decls}[where].append(ent)
    if ns_decls:
        decls.append({"decl": "namespace ens", "declarations": ns_decls})
    if cls_decls:
        decls.append({"decl": "class EK", "declarations": cls_decls})
    d = {"library": libname, "cxx_header": libname + ".hpp", "language": "c++",
         "options": {"wrap_c": True, "wrap_fortran": True, "wrap_python": False, "wrap_lua": False},
         "declarations": decls}
    return d, enums


# ---------------------------------------------------------------- one library (child)

def sh(cmd, cwd, timeout=300):
    p = subprocess.run(cmd, cwd=cwd, capture_output=True, text=True, timeout=timeout)
    return p.returncode, p.stdout, p.stderr


def harvest_c(texts):
    """{enum tag: [member identifiers in order]} from generated headers."""
    out = {}
    for t in texts:
        for m in re.finditer(r"enum\s+(\w+)\s*\{(.*?)\}", t, re.S):
            body = re.sub(r"//[^\n]*", "", m.group(2))
            mem = []
            depth = 0
            cur = ""
            for ch in body:
                if ch == "(":
                    depth += 1
                elif ch == ")":
                    depth -= 1
                if ch == "," and depth == 0:
                    mem.append(cur)
                    cur = ""
                else:
                    cur += ch
            if cur.strip():
                mem.append(cur)
            out[m.group(1)] = [x.split("=")[0].strip() for x in mem if x.strip()]
    return out


def harvest_f(texts):
    """{qualified C++ enum name: (module, [parameter names])} from generated modules."""
    out = {}
    for t in texts:
        mod = None
        cur = None
        t = re.sub(r"&[ \t]*\n[ \t]*&?[ \t]*", " ", t)         # continued statements
        for ln in t.split("\n"):
            m = re.match(r"\s*module\s+(\w+)\s*$", ln)
            if m:
                mod = m.group(1)
            m = re.match(r"\s*!\s+enum\s+(?:class\s+|struct\s+)?([\w:]+)\s*$", ln)
            if m:
                cur = m.group(1)
                out[cur] = (mod, [])
                continue
            m = re.match(r"\s*integer\(C_INT\),\s*parameter\s*::\s*(\w+)\s*=", ln)
            if m and cur:
                out[cur][1].append(m.group(1))
            elif cur and ln.strip() == "":
                cur = None
    return out


def run_library(case):
    from .. import shroudrun
    d, enums = case["yaml"], case["enums"]
    lib = d["library"]
    sp = gen.spec_for(d, lib)
    sp["keep"] = True
    rr = shroudrun.run(sp)
    res = {"violations": [], "stats": {"enums": len(enums), "members": sum(len(e["members"]) for e in enums)},
           "samples": []}
    cwd = rr.get("cwd")
    try:
        if rr.get("exc") or rr.get("exit") != 0:
            e = rr.get("exc") or {}
            res["violations"].append({"mech": "shroud-rejects-enum:%s" % (e.get("msg", "").split("\n")[-1][:50]),
                                      "detail": "%s %s" % (e.get("type"), e.get("msg", "")[:600])})
            return res
        out = os.path.join(cwd, "out")
        # original C++
        hpp = ["#ifndef H_%s\n#define H_%s" % (lib, lib)]
        scope_of = {}
        for e in enums:
            if e["where"] == "lib":
                hpp.append(enum_cxx(e) + ";")
                scope_of[e["name"]] = ""
        hpp.append("namespace ens {")
        for e in enums:
            if e["where"] == "ns":
                hpp.append(enum_cxx(e) + ";")
                scope_of[e["name"]] = "ens::"
        hpp.append("}\nclass EK { public:")
        for e in enums:
            if e["where"] == "class":
                hpp.append(enum_cxx(e) + ";")
                scope_of[e["name"]] = "EK::"
        hpp.append("};\n#endif")
        open(os.path.join(out, lib + ".hpp"), "w").write("\n".join(hpp) + "\n")
        cxx = ['#include <cstdio>', '#include "%s.hpp"' % lib, "int main(){"]
        for e in enums:
            for n, t in e["members"]:
                q = scope_of[e["name"]] + ((e["name"] + "::") if e["scoped"] else "") + n
                cxx.append('  std::printf("%s.%s %%d\\n", (int)%s);' % (e["name"], n, q))
        cxx.append("return 0;}")
        open(os.path.join(out, "orig.cpp"), "w").write("\n".join(cxx) + "\n")
        rc, so, se = sh(["g++", "-std=c++11", "-w", "orig.cpp", "-o", "orig"], out)
        if rc != 0:
            res["harness_note"] = "generated C++ does not compile (generator outside the domain): " + se[:400]
            res["stats"]["unreachable_cxx_reject"] = 1
            return res
        rc, so, se = sh(["./orig"], out)
        truth = dict(ln.split() for ln in so.strip().split("\n") if ln.strip())
        # generated C
        hdrs = sorted(f for f in os.listdir(out) if f.endswith(".h"))
        hc = harvest_c([open(os.path.join(out, f)).read() for f in hdrs])
        cprog = ["#include <stdio.h>"] + ['#include "%s"' % f for f in hdrs] + ["int main(void){"]
        prefix = lib.upper()[:3] + "_"
        cmap = {}
        for e in enums:
            scope = {"lib": "", "ns": "ens_", "class": "EK_"}[e["where"]]
            tag = prefix + scope + e["name"]
            mem = hc.get(tag)
            if mem is None or len(mem) != len(e["members"]):
                res["violations"].append({"mech": "c-enum-missing-or-member-count", "detail": "%s: expected tag %s with %d members, header has %r" % (
                    enum_cxx(e), tag, len(e["members"]), mem)})
                continue
            for (n, t), g in zip(e["members"], mem):
                cmap[e["name"] + "." + n] = g
                cprog.append('  printf("%s.%s %%d\\n", (int)%s);' % (e["name"], n, g))
        cprog.append("return 0;}")
        open(os.path.join(out, "cprog.c"), "w").write("\n".join(cprog) + "\n")
        rc, so, se = sh(["gcc", "-std=c99", "-w", "cprog.c", "-o", "cprog"], out)
        cvals = {}
        if rc != 0:
            res["violations"].append({"mech": "generated-c-header-does-not-compile:" + _first_error(se),
                                      "detail": se[:1200] + "\n" + "\n".join(enum_cxx(e) for e in enums)[:1500]})
        else:
            rc, so, se = sh(["./cprog"], out)
            cvals = dict(ln.split() for ln in so.strip().split("\n") if ln.strip())
        # generated Fortran
        ffiles = sorted(f for f in os.listdir(out) if f.endswith(".f"))
        hf = harvest_f([open(os.path.join(out, f)).read() for f in ffiles])
        fprog = []
        uses = set()
        fmap = {}
        for e in enums:
            q = {"lib": "", "ns": "ens::", "class": "EK::"}[e["where"]] + e["name"]
            ent = hf.get(q)
            if ent is None or len(ent[1]) != len(e["members"]):
                res["violations"].append({"mech": "fortran-enum-missing-or-member-count", "detail": "%s: expected '!  enum %s' with %d parameters, module has %r" % (
                    enum_cxx(e), q, len(e["members"]), ent)})
                continue
            uses.add(ent[0])
            for (n, t), g in zip(e["members"], ent[1]):
                fmap[e["name"] + "." + n] = g
                fprog.append("  print '(A,1X,I0)', '%s.%s', %s" % (e["name"], n, g))
        src = ["program fprog"] + ["  use %s" % u for u in sorted(uses)] + ["  implicit none"] + fprog + ["end program fprog"]
        open(os.path.join(out, "fprog.f90"), "w").write("\n".join(src) + "\n")
        # order modules: namespace modules first (library module may use them)
        order = sorted(ffiles, key=lambda f: (0 if "_" in f[len("wrapf"):] else 1, f))
        # the generated modules are compiled as Shroud's users compile them (132 columns); only the harness program is exempt
        rc, so, se = sh(["gfortran", "-cpp", "-ffree-form", "-w", "-c"] + order, out)
        if rc == 0:
            rc, so, se = sh(["gfortran", "-ffree-form", "-ffree-line-length-none", "-w", "-c", "fprog.f90"], out)
        fvals = {}
        if rc != 0:
            res["violations"].append({"mech": "generated-fortran-module-does-not-compile:" + _first_error(se),
                                      "detail": se[:1200] + "\n" + "\n".join(enum_cxx(e) for e in enums)[:1500]})
        else:
            objs = [f for f in os.listdir(out) if f.endswith(".cpp") and f.startswith("wrap")]
            rc1, so1, se1 = sh(["g++", "-std=c++11", "-w", "-c"] + objs, out)
            rc2, so2, se2 = sh(["gfortran", "-o", "fprog"] + [o[:-4] + ".o" for o in objs] + [f[:-2] + ".o" for f in order] + ["fprog.o", "-lstdc++"], out)
            if rc1 != 0 or rc2 != 0:
                res["violations"].append({"mech": "generated-wrappers-do-not-link:" + _first_error(se1 + se2),
                                          "detail": (se1 + se2)[:1500]})
            else:
                rc, so, se = sh(["./fprog"], out)
                fvals = dict(ln.split() for ln in so.strip().split("\n") if ln.strip())
        # compare
        for e in enums:
            for lang, vals, names in (("c", cvals, cmap), ("fortran", fvals, fmap)):
                wrong = set()
                for n, t in e["members"]:
                    key = e["name"] + "." + n
                    want = truth.get(key)
                    if key in vals:
                        res["stats"]["values_compared"] = res["stats"].get("values_compared", 0) + 1
                        if n.startswith("S"):
                            res["stats"]["shared_name_values_compared"] = res["stats"].get("shared_name_values_compared", 0) + 1
                        if vals[key] != want:
                            # a member that only inherits a wrong value (implicit successor of, or expression
                            # over, an already wrong member) is the same defect, not a new one
                            refs = set(re.findall(r"\b(?:M\d+_\d+\w*|S\d+)\b", t or ""))
                            prev_wrong = (t is None and wrong) or (refs & wrong)
                            wrong.add(n)
                            if prev_wrong:
                                res["stats"]["dependent_wrong_values"] = res["stats"].get("dependent_wrong_values", 0) + 1
                                continue
                            res["violations"].append({
                                "mech": "value-differs:%s:%s" % (lang, classify(e, n)),
                                "detail": "%s\n member %s: C++ %s, %s (%s) %s" % (enum_cxx(e), n, want, lang, names.get(key), vals[key])})
        if len(res["samples"]) < 2:
            e = enums[0]
            res["samples"].append({"enum": enum_cxx(e), "cxx": {n: truth.get(e["name"] + "." + n) for n, _ in e["members"]},
                                   "c": {n: cvals.get(e["name"] + "." + n) for n, _ in e["members"]},
                                   "fortran": {n: fvals.get(e["name"] + "." + n) for n, _ in e["members"]}})
        res["shapes"] = sorted({shape(e) for e in enums})
        return res
    finally:
        if cwd:
            common.rmtree(cwd)


def _first_error(se):
    for ln in se.split("\n"):
        if "rror" in ln:
            ln = re.sub(r"^[^:]*:\d+(:\d+)?:?\s*", "", ln)
            ln = re.sub(r"‘[^’]*’|'[^']*'", "'X'", ln)
            ln = re.sub(r"\d+", "N", ln)
            return ln.strip()[:60]
    return "?"


def classify(e, member):
    """Mechanism of a value difference: which feature the first deviating member's own
    expression (or the nearest explicit expression before it) uses."""
    last = None
    for n, t in e["members"]:
        if t is not None:
            last = t
        if n == member:
            break
    t = last or ""
    feats = []
    if re.search(r"(?<![\w.])0\d+", t):
        feats.append("leading-zero-literal")
    if re.search(r"[-+]\s*[-+]", t):
        feats.append("adjacent-signs")
    if not feats:
        if "/" in t:
            feats.append("division")
        elif re.search(r"[A-Za-z_]", t):
            feats.append("member-reference")
        elif t:
            feats.append("expression")
        else:
            feats.append("implicit")
    return "+".join(feats)


def shape(e):
    return "%s%s%s/%d/%s" % (e["scoped"] or "plain", "+shared" if any(n.startswith("S") for n, _ in e["members"]) else "",
                             "+long" if any(len(n) > 25 for n, _ in e["members"]) else "", len(e["members"]),
                         "".join("x" if t is not None else "." for _, t in e["members"])) + "/" + e.get("where", "")


def main(rec):
    thorough = common.tier() == "thorough"
    r = common.rng("c11")
    rec.rule = ("enums generated over the accepted expression grammar (+ - * / parentheses, unary sign, decimal literals, "
                "references to earlier members; low-weight hostile literals with leading zeros and adjacent signs), "
                "1..6 members, random explicit/implicit masks, plain / enum class / enum struct, at library, namespace and "
                "class scope; values kept inside int, divisors non-zero. distinct_nontrivial = distinct (scoping, size, "
                "mask, placement) shapes among enums whose three programs all ran")
    rec.assumptions = ["g++/gcc/gfortran 12 evaluate the constants", "enumerators matched by position inside each emitted enum"]
    nlib = 400 if thorough else 40
    per = 50
    cases = []
    for k in range(nlib):
        rr = common.rng("c11", k)
        d, enums = make_library(rr, "enu%d" % k, per, hostile=(k % 3 == 0))
        cases.append({"yaml": d, "enums": enums})
    res = pool.run_cases("vf.checks.c11", cases, func="run_library", timeout=900)
    for c, rr in zip(cases, res):
        if "stats" not in rr:
            workloads.bad_run(rec, {"name": c["yaml"]["library"]}, rr)
            continue
        rec.merge_stats(rr["stats"])
        rec.evaluations += rr["stats"]["enums"]
        for s in rr.get("shapes", []):
            rec.keys.add(s)
        for s in rr["samples"]:
            if len(rec.samples) < 4:
                rec.samples.append(s)
        if rr.get("harness_note"):
            rec.unreach(rr["harness_note"][:80])
        for v in rr["violations"]:
            rec.violation(v["mech"], v["detail"], {"library": c["yaml"]["library"], "yaml": c["yaml"], "enums": c["enums"]})
    if rec.counters.get("values_compared", 0) == 0:
        rec.inconclusive = "no enumerator value was compared"


def replay(bundle):
    rr = pool.run_cases("vf.checks.c11", [{"yaml": bundle["case"]["yaml"], "enums": bundle["case"]["enums"]}], func="run_library")[0]
    for v in rr.get("violations", []):
        print(v["mech"], "\n", v["detail"])
    if rr.get("violations"):
        print("VIOLATION property=C11 replay=replayed")
        return 1
    return 0
