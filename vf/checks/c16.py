"""C16 — documentation / debug options change comments only.

Deciding method: pairs of real Shroud runs differing only in debug, doxygen,
show_splicer_comments, version stamping or per-declaration literalinclude;
the files written are compared as sets and, after language-aware comment
stripping, token for token.
"""
from __future__ import annotations

import copy
import itertools
import os

from .. import common, corpus, pool, workloads
from ..libgen import gen
from ..oracles import strip

LEVEL = "exploration"
OPTS = ["debug", "doxygen", "show_splicer_comments", "write_version", "literalinclude"]


def decl_entries(d):
    """All declaration entries (dicts with 'decl'), recursively."""
    out = []

    def walk(lst):
        for e in lst or []:
            if isinstance(e, dict):
                if "decl" in e:
                    out.append(e)
                walk(e.get("declarations"))
    walk(d.get("declarations"))
    return out


def variant(base_yaml, combo, per_decl_pick=None):
    """combo: dict option -> bool. literalinclude is applied to individual
    declarations only (every declaration when per_decl_pick is None)."""
    d = copy.deepcopy(base_yaml)
    o = d.setdefault("options", {}) or {}
    d["options"] = o
    for k in ("debug", "doxygen", "show_splicer_comments"):
        if per_decl_pick is None or k == "show_splicer_comments":
            o[k] = bool(combo[k])
        else:
            o[k] = False
    ents = decl_entries(d)
    for i, e in enumerate(ents):
        if per_decl_pick is not None and i not in per_decl_pick:
            # still pin the value so both runs agree on everything else
            continue
        eo = e.setdefault("options", {}) or {}
        e["options"] = eo
        eo["literalinclude"] = bool(combo["literalinclude"])
        if per_decl_pick is not None:
            eo["debug"] = bool(combo["debug"])
            eo["doxygen"] = bool(combo["doxygen"])
    return d


def normalise_base(d):
    """Remove the five options wherever the upstream file sets them, so that the
    variants are the only source of differences (library-level literalinclude /
    literalinclude2 are kept as they are: excluded by the property)."""
    d = copy.deepcopy(d)
    if isinstance(d.get("options"), dict):
        for k in ("debug", "doxygen", "show_splicer_comments"):
            d["options"].pop(k, None)
    for e in decl_entries(d):
        if isinstance(e.get("options"), dict):
            for k in ("debug", "doxygen", "literalinclude"):
                e["options"].pop(k, None)
    return d


def compare(rec, name, ca, cb, ra, rb, case):
    fa, fb = set(ra["outputs"]), set(rb["outputs"])
    skip = lambda n: n.endswith((".json", ".log"))
    if {n for n in fa if not skip(n)} != {n for n in fb if not skip(n)}:
        rec.violation("file-set-differs:" + _diffopts(ca, cb),
                      "%s: %s vs %s: only-first %s only-second %s" % (name, ca, cb, sorted(fa - fb), sorted(fb - fa)), case)
    for n in sorted(fa & fb):
        if skip(n):
            continue
        lang, ta = strip.tokens_for(n, ra["outputs"][n])
        if lang is None:
            continue
        _, tb = strip.tokens_for(n, rb["outputs"][n])
        rec.count("files_token_compared")
        rec.count("tokens_compared", len(ta))
        if ta != tb:
            i = 0
            while i < min(len(ta), len(tb)) and ta[i] == tb[i]:
                i += 1
            rec.violation("tokens-differ:%s:%s" % (lang, _diffopts(ca, cb)),
                          "%s: %s: %s vs %s\n first difference at token %d:\n  A: %s\n  B: %s" % (
                              name, n, ca, cb, i, " ".join(ta[max(0, i - 12):i + 12]), " ".join(tb[max(0, i - 12):i + 12])),
                          case)


def _diffopts(ca, cb):
    return "+".join(k for k in OPTS if ca[k] != cb[k])


def main(rec):
    thorough = common.tier() == "thorough"
    r = common.rng("c16")
    rec.rule = ("pairs (all five options off, some combination on) for the same description; options set at library "
                "level or on a random subset of individual declarations; distinct_nontrivial = distinct (description, "
                "combination, placement) pairs in which the two runs' raw bytes differ (the options did something) ")
    rec.assumptions = ["tokenisers in vf/oracles/strip.py (string/char-literal aware); validated by C05-style "
                       "compilation of stripped files in the thorough tier"]
    descs = []
    for c in corpus.configs():
        d = workloads.load_yaml(corpus.yaml_text(c)) or {}
        argv = ["--path", "input", "--logdir", "out", "--outdir", "out"] + [
            a for a in c["cmdline"] if a not in ("--write-version",)]
        # drop command-line settings of the five options
        clean = []
        i = 0
        while i < len(argv):
            if argv[i] == "--option" and argv[i + 1].split("=")[0] in ("debug", "doxygen", "show_splicer_comments", "literalinclude"):
                i += 2
                continue
            clean.append(argv[i])
            i += 1
        descs.append((c["name"], normalise_base(d), clean, {"input": os.path.join(common.REPO, "regression", "input")},
                      "work/" + c["yaml"]))
    libs = gen.libraries(thorough, count=(60 if thorough else 12), salt="c16")
    light = set()
    if not thorough:
        # every single-row library takes part; outside the rotation only with the pairs (off, debug) and (off, all on)
        light = {x[0] for i, x in enumerate(libs) if not (x[0].startswith("gmix") or i % 8 == common.seed() % 8)}
    # user code in the structural splicer blocks of every emitter (file tops, module parts, declarations / definitions):
    # it is code, so none of the five options may add, drop or move it
    # ... including lines whose first / last character is one the layout step gives a meaning to in Shroud's own templates
    def UFUN(nm):
        return ["static int %s(int n)" % nm, "{", "++n;", "--n;", "@n = n + 0;" if False else "n = n +", "1;", "-n;", "+n;",
                "\tn = n ? n : -n;", "return n +", "n;", "}"]
    USER_CODE = {
        "f": {"file_top": ["#define VF_USER_FTOP 1"], "module_use": ["use iso_c_binding, only : C_SHORT"],
              "module_top": ["integer, parameter :: vf_user_module_top = 1", "integer, parameter :: vf_user_p2 = 3 &", "- 1 +&", "+ 2"],
              "additional_functions": ["subroutine vf_user_sub()", "end subroutine vf_user_sub"]},
        "c": {"C_declarations": ["#define VF_USER_CDECL 1"], "CXX_declarations": ["#define VF_USER_CXXDECL 1"],
              "C_definitions": ["int vf_user_cdef = 1;"] + UFUN("vf_user_cbump"), "CXX_definitions": ["int vf_user_cxxdef = 1;"] + UFUN("vf_user_cxxbump")},
        "py": {"include": ["#define VF_USER_PYINC 1"], "C_definition": ["static int vf_user_pydef = 1;"],
               "additional_functions": ["static int vf_user_pyfun(void) { return 1; }"] + UFUN("vf_user_pybump")},
        "lua": {"include": ["#define VF_USER_LUAINC 1"], "C_definition": ["static int vf_user_luadef = 1;"] + UFUN("vf_user_luabump")},
    }
    for li, (name, d, meta) in enumerate(libs):
        d = normalise_base(d)
        if name.startswith("gmix") and li % 2 == 0:
            d["splicer_code"] = copy.deepcopy(USER_CODE)
            name = name + "+usercode"
        descs.append((name, d, ["--logdir", "out", "--outdir", "out"], None, "work/%s.yaml" % name.replace("+usercode", "")))

    all_combos = [dict(zip(OPTS, bits)) for bits in itertools.product([False, True], repeat=5)]
    off = all_combos[0]
    jobs = []
    for name, d, argv, links, yrel in descs:
        if thorough:
            combos = all_combos[1:]
        else:
            singles = [dict(off, **{k: True}) for k in OPTS]
            combos = singles + [all_combos[-1]] + r.sample(all_combos[1:-1], 2)
        nd = len(decl_entries(d))
        placements = [("library", None)]
        if name in light and "callback" not in name:
            combos = [dict(off, debug=True), all_combos[-1]]
            nd = 0
        if nd and "callback" in name:
            # declarations that share generated entities (abstract interfaces of callbacks): each one toggled alone
            for i_ in range(nd):
                placements.append(("decl%d" % i_, [i_]))
        elif nd:
            pick = sorted(r.sample(range(nd), max(1, nd // 2)))
            placements.append(("decl", pick))
        for place, pick in placements:
            runs = [off] + combos if place == "library" else [off] + (combos if thorough else combos[:3] + [all_combos[-1]])
            for combo in runs:
                if place.startswith("decl") and not (combo["debug"] or combo["doxygen"] or combo["literalinclude"]) and combo is not off:
                    continue
                y = workloads.dump_yaml(variant(d, combo, pick))
                a = list(argv) + (["--write-version"] if combo["write_version"] else ["--nowrite-version"]) + [yrel]
                sp = {"name": name, "files": {yrel: y}, "dirs": ["out"], "argv": a, "monitors": [],
                      "combo": combo, "place": place}
                if links:
                    sp["links"] = links
                jobs.append(sp)
    res = pool.run_cases("vf.shroudrun", jobs, timeout=300)
    base = {}
    for sp, rr in zip(jobs, res):
        if sp["combo"] == off:
            base[(sp["name"], sp["place"])] = (sp, rr)
    for sp, rr in zip(jobs, res):
        if sp["combo"] == off:
            continue
        bsp, brr = base[(sp["name"], sp["place"])]
        if workloads.bad_run(rec, bsp, brr):
            continue
        if rr.get("exc") or rr.get("exit") != 0:
            if not workloads.bad_run(rec, sp, rr):
                pass
            e = rr.get("exc") or {}
            rec.violation("option-makes-shroud-fail:" + _diffopts(off, sp["combo"]),
                          "%s: fails only with %s: %s %s" % (sp["name"], sp["combo"], e.get("type"), e.get("msg", "")[:300]), sp)
            continue
        rec.count("pairs")
        raw_differs = any(brr["outputs"].get(k) != v for k, v in rr["outputs"].items() if not k.endswith((".json", ".log")))
        rec.case(key="%s|%s|%s" % (sp["name"], sorted(k for k, v in sp["combo"].items() if v), sp["place"]) if raw_differs else None,
                 sample={"description": sp["name"], "on": [k for k, v in sp["combo"].items() if v], "placement": sp["place"],
                         "raw_bytes_differ": raw_differs})
        compare(rec, sp["name"], off, sp["combo"], brr, rr, sp)
    if rec.counters.get("tokens_compared", 0) == 0:
        rec.inconclusive = "nothing compared"


def replay(bundle):
    print("re-run: ./check C16 with the bundle's seed/tier; case:", bundle["case"].get("name"), bundle["case"].get("combo"))
    return 2
