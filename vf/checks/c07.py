"""C07 — output is a pure function of inputs and command line.

Deciding method: byte comparison of complete output directories between a
reference execution (fresh process, PYTHONHASHSEED=0) and perturbed executions
(hash seed, environment, cwd with absolute paths, pre-populated output
directory, earlier libraries processed in the same interpreter), plus an
impurity monitor on clock/host/pid/random APIs.
"""
from __future__ import annotations

import difflib
import os
import re

from .. import common, corpus, pool, workloads
from ..libgen import gen

LEVEL = "exploration"

ENVS = [
    {"TZ": "Pacific/Kiritimati", "LANG": "tr_TR.UTF-8", "LC_ALL": "C", "HOME": "/nonexistent", "USER": "someone",
     "HOSTNAME": "otherhost", "COLUMNS": "40", "SOURCE_DATE_EPOCH": "1", "VF_JUNK": "x" * 200},
    {"TZ": "UTC", "LANG": "C.UTF-8", "LC_ALL": "C.UTF-8", "HOME": "/tmp", "USER": "root", "LINES": "3",
     "PYTHONIOENCODING": "utf-8"},
]


def diff_outputs(a, b, only=None):
    """Return list of (relpath, what) differences between two output maps."""
    d = []
    names = set(a) | set(b)
    if only is not None:
        names &= set(only)
    for n in sorted(names):
        if n not in a:
            d.append((n, "only in second"))
        elif n not in b:
            d.append((n, "only in first"))
        elif a[n] != b[n]:
            ud = list(difflib.unified_diff(a[n].split("\n"), b[n].split("\n"), "ref/" + n, "got/" + n, lineterm="", n=1))
            d.append((n, "\n".join(ud[:40])))
    return d


def file_role(name):
    base = os.path.basename(name)
    ext = os.path.splitext(base)[1]
    if base.startswith("py") or base == "setup.py":
        return "python:" + ext
    if base.startswith("lua"):
        return "lua:" + ext
    if base.startswith("util") or base.startswith("types"):
        return "cutil:" + ext
    return {".f": "fortran", ".c": "c", ".cpp": "cxx", ".h": "cheader", ".hpp": "cheader", ".json": "json",
            ".log": "log", ".yaml": "yaml"}.get(ext, ext)


def run_abs_pair(sp):
    """Run the same command line twice with identical ABSOLUTE path arguments,
    once from the scratch directory and once from another directory; return both
    output maps.  (Pool entry point; runs in a forked child.)"""
    import shutil
    import subprocess
    import sys
    from .. import shroudrun
    repo = os.environ.get("VERIF_REPO", "/repo")
    cwd = shroudrun._scratch()
    try:
        shroudrun._prepare(sp, cwd)
        argv = [os.path.join(cwd, a) if a.startswith(("input", "work/", "out")) else a for a in sp["argv"]]
        if sp.get("split_dirs"):
            # every kind of output in its own (absolute) directory
            extra = []
            for opt, sub in (("--outdir-c-fortran", "out/cf"), ("--outdir-python", "out/py"), ("--outdir-lua", "out/lua"), ("--outdir-yaml", "out/yaml")):
                os.makedirs(os.path.join(cwd, sub), exist_ok=True)
                extra += [opt, os.path.join(cwd, sub)]
            argv = extra + argv
        env = {"PATH": os.environ.get("PATH", "/usr/bin:/bin"), "PYTHONHASHSEED": "0", "PYTHONPATH": repo,
               "PYTHONDONTWRITEBYTECODE": "1"}
        outs = []
        other = os.path.join(cwd, "elsewhere")
        os.makedirs(other)
        # the other directory is not empty: it holds stale files named like every input the run can reach (description,
        # splicer files, headers), with other contents -- with absolute arguments none of them may be looked at
        decoys = {}
        for rel, text in (sp.get("files") or {}).items():
            decoys[os.path.basename(rel)] = text
        for ldir in (sp.get("links") or {}).values():
            if os.path.isdir(ldir):
                for fn in os.listdir(ldir):
                    fp = os.path.join(ldir, fn)
                    if os.path.isfile(fp) and os.path.getsize(fp) < 400000:
                        try:
                            decoys.setdefault(fn, open(fp, errors="replace").read())
                        except OSError:
                            pass
        for fn, text in decoys.items():
            if "splicer begin" in text:
                text = "\n".join(ln + ("\nvf_decoy_line_from_the_current_directory" if "splicer begin" in ln else "") for ln in text.split("\n"))
            else:
                text = "vf decoy: stale file in the current directory\n" + text[: len(text) // 2]
            for sub in ("", "work", "input"):
                os.makedirs(os.path.join(other, sub), exist_ok=True)
                open(os.path.join(other, sub, fn), "w").write(text)
        for runcwd in (cwd, other):
            p = subprocess.run([sys.executable, "-c", "import shroud.main as m; m.main()"] + argv, cwd=runcwd,
                               env=env, capture_output=True, text=True, timeout=120)
            snap = shroudrun._snapshot(cwd, dict(sp.get("files") or {}))
            outs.append({"exit": p.returncode, "outputs": snap, "stderr": p.stderr[-1500:]})
            shutil.rmtree(os.path.join(cwd, "out"))
            os.makedirs(os.path.join(cwd, "out"))
            if sp.get("split_dirs"):
                for sub in ("out/cf", "out/py", "out/lua", "out/yaml"):
                    os.makedirs(os.path.join(cwd, sub), exist_ok=True)
        return {"first": outs[0], "second": outs[1]}
    except subprocess.TimeoutExpired:
        return {"timeout": True}
    finally:
        shutil.rmtree(cwd, ignore_errors=True)


def main(rec):
    thorough = common.tier() == "thorough"
    r = common.rng("c07")
    rec.rule = ("pairs (reference run, perturbed run) of the same description+arguments; perturbations: PYTHONHASHSEED "
                "in {1,4242,random}, environment sets, different cwd, pre-populated output directory, and in-process "
                "histories L1..Lk (k<=4) vs Lk alone. distinct_nontrivial = distinct (description, perturbation) "
                "pairs whose reference run wrote at least one wrapper file")
    rec.assumptions = ["CPython 3.12 only", "both runs receive identical relative path arguments"]
    cfgs = corpus.configs()
    base = [corpus.spec(c, testsuite=False, version=True) for c in cfgs]
    gl = gen.libraries(thorough, count=(60 if thorough else 12))
    gspecs = [gen.spec_for(d, name) for name, d, meta in gl]
    if not thorough:
        # quick: every corpus configuration, a slice of generated single-row libraries
        # (libraries built to put several elements into one ordered collection are always kept)
        gspecs = [s for i, s in enumerate(gspecs) if i % 6 == common.seed() % 6 or s["name"].startswith("gmix") or "typedefheaders" in s["name"]]
    allspecs = base + gspecs

    # ---- (a) fresh-process perturbations
    jobs = []
    for sp in allspecs:
        ref = dict(sp, hashseed="0")
        jobs.append(("ref", sp["name"], ref))
        perts = [("hashseed=1", dict(sp, hashseed="1")),
                 ("hashseed=4242", dict(sp, hashseed="4242")),
                 ("hashseed=random", dict(sp, hashseed="random")),
                 ("env0", dict(sp, hashseed="0", env=ENVS[0])),
                 ("env1+hashseed=7", dict(sp, hashseed="7", env=ENVS[1])),
                 ("stale-outdir", dict(sp, hashseed="0", prepop=True))]
        if not sp.get("links"):
            pass
        if not thorough:
            keep = [perts[0], perts[r.randrange(1, 3)], perts[3 + r.randrange(0, 2)], perts[5]]
            perts = keep
        for pname, ps in perts:
            jobs.append((pname, sp["name"], ps))
    # stale output needs the reference's file names: two-phase
    cases = [j[2] for j in jobs if not j[2].get("prepop")]
    res = pool.run_cases("vf.shroudrun", cases, func="run_subprocess", timeout=300)
    byjob = {}
    it = iter(res)
    for j in jobs:
        if not j[2].get("prepop"):
            byjob[(j[0], j[1])] = next(it)
    pre_jobs = []
    for j in jobs:
        if j[2].get("prepop"):
            ref = byjob.get(("ref", j[1]))
            if not ref or ref.get("exit") != 0:
                continue
            pre = {}
            for k, name in enumerate(sorted(ref["outputs"])):
                if k % 2 == 0:
                    pre[name] = "STALE CONTENT\n" + ref["outputs"][name][::-1]
                else:
                    pre[name] = ref["outputs"][name] + "\n/* stale trailing text */\n"
            pre["out/unrelated_file.txt"] = "keep me\n"
            sp = dict(j[2])
            sp.pop("prepop")
            sp["pre_files"] = pre
            pre_jobs.append((j[0], j[1], sp))
    pres = pool.run_cases("vf.shroudrun", [j[2] for j in pre_jobs], func="run_subprocess", timeout=300)
    for j, rr in zip(pre_jobs, pres):
        byjob[(j[0], j[1])] = rr

    for (pname, name), rr in sorted(byjob.items()):
        if pname == "ref":
            continue
        ref = byjob.get(("ref", name))
        spn = {"name": name}
        if workloads.bad_run(rec, spn, ref) or workloads.bad_run(rec, spn, rr):
            # a run that fails under one perturbation only is a difference too
            if ref and rr and (ref.get("exit") == 0) != (rr.get("exit") == 0):
                rec.violation("exit-status-differs:" + pname, "%s: ref exit %r, perturbed exit %r\n%s" % (
                    name, ref.get("exit"), rr.get("exit"), rr.get("stderr", "")[-800:]), {"name": name, "pert": pname})
            continue
        rec.count("fresh_process_pairs")
        rec.count("files_compared", len(ref["outputs"]))
        got = dict(rr["outputs"])
        if pname == "stale-outdir":
            if got.pop("out/unrelated_file.txt", None) != "keep me\n":
                rec.violation("stale-outdir:unrelated-file-touched", name, {"name": name, "pert": pname})
        d = diff_outputs(ref["outputs"], got)
        nontriv = len(ref["outputs"]) > 2
        rec.case(key="%s|%s" % (name, pname) if nontriv else None,
                 sample={"description": name, "perturbation": pname, "files": len(ref["outputs"]), "differences": len(d)})
        for fn, what in d:
            rec.violation("fresh:%s:%s" % (pname.split("=")[0], file_role(fn)),
                          "%s under %s: %s\n%s" % (name, pname, fn, what), {"name": name, "pert": pname})

    # ---- (a2) same absolute paths, different current directory
    def _has_splicer_files(s_):
        # descriptions whose 'splicer:' section names files that are searched along --path always take part
        try:
            if "--path" not in s_["argv"]:
                return False
            y_ = next((a for a in s_["argv"] if a.endswith(".yaml")), None)
            text = (s_.get("files") or {}).get(y_)
            if text is None and y_ and s_.get("links"):
                top, _, rest_ = y_.partition("/")
                text = open(os.path.join(s_["links"].get(top, ""), rest_), errors="replace").read()
            return bool(text) and bool(re.search(r"^splicer:", text, re.M))
        except (OSError, KeyError):
            return False
    cw = allspecs if thorough else [s for i, s in enumerate(allspecs) if i % 3 == common.seed() % 3 or _has_splicer_files(s)]
    cw = cw + [dict(s_, split_dirs=True, name=s_["name"] + "+split-dirs") for i, s_ in enumerate(cw) if thorough or i % 2 == 0]
    cres = pool.run_cases("vf.checks.c07", cw, func="run_abs_pair", timeout=300)
    for sp, rr in zip(cw, cres):
        if "first" not in rr:
            workloads.bad_run(rec, sp, rr if rr.get("timeout") else {"harness_error": str(rr)})
            continue
        a, b = rr["first"], rr["second"]
        if a["exit"] != 0 or b["exit"] != 0:
            if a["exit"] != b["exit"]:
                rec.violation("exit-status-differs:other-cwd", "%s: %r vs %r\n%s" % (sp["name"], a["exit"], b["exit"], b["stderr"]), sp)
            continue
        rec.count("cwd_pairs")
        d = diff_outputs(a["outputs"], b["outputs"])
        rec.case(key="%s|other-cwd" % sp["name"] if len(a["outputs"]) > 2 else None)
        for fn, what in d:
            rec.violation("fresh:other-cwd:%s" % file_role(fn), "%s: %s\n%s" % (sp["name"], fn, what), sp)

    # ---- (b) in-process histories
    mon = ["impure", "files"]
    polluters = [s for s in base if s["name"] in ("classes", "struct-c", "vectors", "strings", "tutorial", "templates",
                                                   "ownership", "struct-class-c", "pointers-list-cxx", "cxxlibrary",
                                                   "example", "namespace", "enum-c", "generic-cfi")]
    victims = list(base) + gspecs
    hist = []
    n_hist = 400 if thorough else 40
    # all ordered pairs over a small mixed pool first
    small = [s for s in base if s["name"] in ("classes", "struct-c", "vectors", "strings-cfi", "tutorial", "clibrary")]
    for a in small:
        for b in small:
            hist.append([a, b])
    while len(hist) < n_hist + len(small) ** 2:
        k = r.choice([2, 2, 3, 4])
        seq = [r.choice(polluters + gspecs) for _ in range(k - 1)] + [r.choice(victims)]
        hist.append(seq)
    if not thorough:
        r.shuffle(hist)
        hist = hist[:n_hist]
    # every library processed twice in a row: anything one run caches on a shared object (predefined typemaps,
    # statement tables, class-level counters) is seen by the second run of the very same input
    for s_ in victims:
        hist.append([s_, s_])
    # the same library under other settings that change helper text and layout (C++ standard, helper markers, where
    # Python helpers are written): each order of the pair, compared with the member alone
    twins = []
    def _uses_helpers(s_):
        t_ = "".join(v_ for k_, v_ in (s_.get("files") or {}).items() if k_.endswith(".yaml"))
        return "std::vector" in t_ or "allocatable" in t_ or "dimension(" in t_ or "std::string" in t_
    tw_src = [s_ for s_ in gspecs if _uses_helpers(s_)]
    for s_ in tw_src[: (len(tw_src) if thorough else 10)]:
        yk = next((k_ for k_ in (s_.get("files") or {}) if k_.endswith(".yaml")), None)
        if not yk:
            continue
        d_ = workloads.load_yaml(s_["files"][yk])
        if not isinstance(d_, dict) or d_.get("language", "c++") != "c++":
            continue
        d_["options"] = dict(d_.get("options") or {}, CXX_standard=2003, literalinclude2=True, PY_write_helper_in_util=True)
        t_ = dict(s_, name=s_["name"] + "~std2003", files=dict(s_["files"], **{yk: workloads.dump_yaml(d_)}))
        twins.append(t_)
        hist.append([s_, t_])
        hist.append([t_, s_])
    allspecs = list(allspecs) + twins
    alone = {}
    names = sorted({h[-1]["name"] for h in hist})
    byname = {s["name"]: s for s in allspecs}
    alone_specs = [dict(byname[n], monitors=mon) for n in names]
    ares = pool.run_cases("vf.shroudrun", alone_specs, timeout=300)
    for sp, rr in zip(alone_specs, ares):
        alone[sp["name"]] = rr
        if not workloads.bad_run(rec, sp, rr):
            ev = rr["events"]
            rec.count("impure_monitor_runs")
            rec.count("files_opened_for_write", len(ev["files"]))
            if ev["dirlist"]:
                rec.count("directory_listings", ev["dirlist"])
            for api in ev["impure"]:
                if api in ("os.getcwd",):
                    continue
                rec.violation("impure-api:" + api, "%s called %s while generating" % (sp["name"], api), sp)
    hspecs = [{"seq": [dict(s) for s in h], "monitors": [], "name": ">".join(s["name"] for s in h)} for h in hist]
    hres = pool.run_cases("vf.shroudrun", hspecs, timeout=600)
    for h, sp, rr in zip(hist, hspecs, hres):
        last = h[-1]["name"]
        ref = alone.get(last)
        if workloads.bad_run(rec, sp, rr) or not ref or ref.get("exit") != 0:
            if rr and ref and ref.get("exit") == 0 and (rr.get("exc") or rr.get("exit") not in (0, None)):
                e = rr.get("exc") or {}
                rec.violation("history:failure:%s:%s" % (e.get("type"), e.get("where")),
                              "history %s: last library fails only after predecessors: %s %s" % (
                                  sp["name"], e.get("type"), e.get("msg", "")[:300]), {"history": [s["name"] for s in h]})
            continue
        rec.count("histories")
        d = diff_outputs(ref["outputs"], rr["outputs"])
        rec.case(key="hist|" + sp["name"], sample={"history": sp["name"], "differences": len(d)})
        for fn, what in d:
            rec.violation("history:%s" % file_role(fn),
                          "history %s: %s of the last library differs from a run alone\n%s" % (sp["name"], fn, what),
                          {"history": [s["name"] for s in h]})
    if rec.counters.get("fresh_process_pairs", 0) == 0 or rec.counters.get("histories", 0) == 0:
        rec.inconclusive = "no comparable pair of executions"


def replay(bundle):
    print("replay: rerun ./check C07 with the same seed/tier; case:", bundle["case"])
    return 2
