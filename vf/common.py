"""Shared plumbing: paths, tiers, seeds, evidence, findings, replay bundles."""
from __future__ import annotations

import atexit
import hashlib
import json
import os
import random
import shutil
import sys
import tempfile
import time

VERIF = os.path.dirname(os.path.dirname(os.path.abspath(__file__)))
REPO = os.environ.get("VERIF_REPO", "/repo")
PY = "/venv/bin/python"
NPROC = int(os.environ.get("VERIF_NPROC", "16"))


def tier() -> str:
    t = os.environ.get("VERIF_TIER", "quick")
    return t if t in ("quick", "thorough") else "quick"


def seed() -> int:
    try:
        return int(os.environ.get("VERIF_SEED", "0"))
    except ValueError:
        return 0


def rng(*salt) -> random.Random:
    h = hashlib.sha256(repr((seed(),) + salt).encode()).digest()
    return random.Random(int.from_bytes(h[:8], "big"))


_scratch_root = None


def scratch_root() -> str:
    """Per-invocation scratch directory outside /repo and /verif; removed at exit."""
    global _scratch_root
    if _scratch_root is None:
        base = os.environ.get("VERIF_SCRATCH") or tempfile.gettempdir()
        os.makedirs(base, exist_ok=True)
        _scratch_root = tempfile.mkdtemp(prefix="vf-", dir=base)
        pid = os.getpid()

        def _rm(path=_scratch_root, pid=pid):
            if os.getpid() == pid:
                shutil.rmtree(path, ignore_errors=True)

        atexit.register(_rm)
    return _scratch_root


def mkscratch(prefix="c-") -> str:
    return tempfile.mkdtemp(prefix=prefix, dir=scratch_root())


def rmtree(path):
    shutil.rmtree(path, ignore_errors=True)


def repo_tree_hash() -> str:
    h = hashlib.sha256()
    d = os.path.join(REPO, "shroud")
    for name in sorted(os.listdir(d)):
        if name.endswith(".py"):
            with open(os.path.join(d, name), "rb") as f:
                h.update(name.encode())
                h.update(f.read())
    return h.hexdigest()[:16]


# ---------------------------------------------------------------- findings

def load_findings(prop):
    path = os.path.join(VERIF, "known_findings.json")
    try:
        with open(path) as f:
            data = json.load(f)
    except FileNotFoundError:
        return []
    return [e for e in data.get("findings", [])
            if e.get("property") == prop and e.get("status", "open") == "open"]


def match_finding(findings, mech):
    """A violation is 'known' only when its mechanism key equals a listed one
    (exact string match, or listed prefix ending in '*')."""
    for e in findings:
        k = e["mech"]
        if k == mech or (k.endswith("*") and mech.startswith(k[:-1])):
            return e
    return None


# ---------------------------------------------------------------- evidence

class Recorder:
    """Collects what one check run observed and turns it into verdict + evidence."""

    def __init__(self, prop, level="exploration"):
        self.prop = prop
        self.level = level
        self.t0 = time.time()
        self.evaluations = 0
        self.keys = set()          # distinct non-trivial case keys
        self.samples = []
        self.counters = {}
        self.sets = {}
        self.violations = []       # (mech, detail, case)
        self.known = {}            # mech -> (entry, count)
        self.unreachable = {}
        self.rule = ""
        self.assumptions = []
        self.extra = {}
        self.findings = load_findings(prop)
        self.inconclusive = None
        self.max_replays = 8
        self.distinct_override = None

    def count(self, name, n=1):
        self.counters[name] = self.counters.get(name, 0) + n

    def add_to_set(self, name, items):
        self.sets.setdefault(name, set()).update(items)

    def merge_stats(self, stats):
        for k, v in (stats or {}).items():
            if isinstance(v, (int, float)):
                self.count(k, v)
            elif isinstance(v, (list, tuple, set)):
                self.add_to_set(k, [json.dumps(x, sort_keys=True) if not isinstance(x, str) else x for x in v])

    def case(self, key=None, sample=None):
        self.evaluations += 1
        if key is not None:
            self.keys.add(key if isinstance(key, str) else json.dumps(key, sort_keys=True))
        if sample is not None and len(self.samples) < 6:
            self.samples.append(sample)

    def unreach(self, why):
        self.unreachable[why] = self.unreachable.get(why, 0) + 1

    def violation(self, mech, detail, case=None):
        e = match_finding(self.findings, mech)
        if e is not None:
            ent = self.known.setdefault(e["mech"], [e, 0, detail])
            ent[1] += 1
            return False
        self.violations.append((mech, detail, case))
        return True

    # -- finishing
    def finish(self):
        wall = time.time() - self.t0
        cov = {
            "evaluations": self.evaluations,
            "distinct_nontrivial": self.distinct_override if self.distinct_override is not None else len(self.keys),
            "rule": self.rule,
            "samples": self.samples,
            "counters": dict(sorted(self.counters.items())),
            "distinct": {k: len(v) for k, v in sorted(self.sets.items())},
            "unreachable": self.unreachable,
            "known_findings_seen": {k: v[1] for k, v in self.known.items()},
            "repo_tree": repo_tree_hash(),
        }
        for k, v in self.sets.items():
            if len(v) <= 400:
                cov.setdefault("distinct_values", {})[k] = sorted(v)
        cov.update(self.extra)
        ev = {
            "property_id": self.prop,
            "tier": tier(),
            "seed": seed(),
            "level": self.level,
            "coverage": cov,
            "assumptions": self.assumptions,
            "wall_s": round(wall, 2),
            "violations": len(self.violations),
        }
        evdir = os.environ.get("VERIF_EVIDENCE_DIR") or os.path.join(VERIF, "evidence")
        os.makedirs(evdir, exist_ok=True)
        with open(os.path.join(evdir, self.prop + ".json"), "w") as f:
            json.dump(ev, f, indent=1, sort_keys=True, default=str)
            f.write("\n")

        for mech, (e, n, detail) in sorted(self.known.items()):
            print("KNOWN-FINDING: property=%s %s [mech=%s seen=%d]" % (
                self.prop, e.get("what", ""), mech, n))
        print("%s: evaluations=%d distinct_nontrivial=%d wall=%.1fs %s" % (
            self.prop, self.evaluations, cov["distinct_nontrivial"], wall,
            " ".join("%s=%s" % kv for kv in sorted(self.counters.items()))))
        if self.unreachable:
            print("%s: unreachable: %s" % (self.prop, self.unreachable))
        if self.violations:
            seen = {}
            for mech, detail, case in self.violations:
                seen.setdefault(mech, []).append((detail, case))
            n = 0
            for mech, lst in sorted(seen.items()):
                detail, case = lst[0]
                path = write_replay(self.prop, mech, detail, case)
                print("VIOLATION property=%s replay=%s" % (self.prop, path))
                print("  mech=%s occurrences=%d" % (mech, len(lst)))
                print("  " + str(detail)[:2000].replace("\n", "\n  "))
                n += 1
                if n >= self.max_replays:
                    print("  ... %d further mechanisms not written" % (len(seen) - n))
                    break
            return 1
        if self.inconclusive or self.evaluations == 0 or (len(self.keys) < 2 and not self.distinct_override):
            print("INCONCLUSIVE property=%s reason=%s" % (
                self.prop, self.inconclusive or "deciding monitor observed too few events"))
            return 2
        return 0


def write_replay(prop, mech, detail, case):
    base = os.environ.get("VERIF_EVIDENCE_DIR")
    d = os.path.join(base, "replay", prop) if base else os.path.join(VERIF, "replay", prop)
    os.makedirs(d, exist_ok=True)
    name = hashlib.sha1((mech + json.dumps(case, sort_keys=True, default=str)).encode()).hexdigest()[:12]
    path = os.path.join(d, name + ".json")
    with open(path, "w") as f:
        json.dump({"property": prop, "mech": mech, "detail": detail, "case": case,
                   "seed": seed(), "tier": tier()}, f, indent=1, default=str)
    return path


def load_replay(path):
    with open(path) as f:
        return json.load(f)
