"""E5: the upstream regression inputs and their configuration list.

The list is read from /repo/regression/do-test.py with the ast module (the
TestDesc(...) calls), so it follows the working tree."""
from __future__ import annotations

import ast
import os

from . import common


def configs():
    path = os.path.join(common.REPO, "regression", "do-test.py")
    with open(path) as f:
        tree = ast.parse(f.read())
    out = []
    for node in ast.walk(tree):
        if isinstance(node, ast.Call) and getattr(node.func, "id", None) == "TestDesc":
            try:
                name = ast.literal_eval(node.args[0])
            except Exception:
                continue
            kw = {k.arg: ast.literal_eval(k.value) for k in node.keywords}
            yaml = (kw.get("yaml") or name) + ".yaml"
            if not os.path.isfile(os.path.join(common.REPO, "regression", "input", yaml)):
                continue
            out.append({"name": name, "yaml": yaml, "cmdline": kw.get("cmdline") or []})
    out.sort(key=lambda d: d["name"])
    return out


def spec(cfg, extra_argv=(), monitors=(), outdir="out", testsuite=True, version=False, yaml_override=None):
    """Shroud run spec for one corpus configuration (paths relative to scratch cwd)."""
    argv = ["--path", "input", "--logdir", outdir, "--outdir", outdir]
    if testsuite:
        argv += ["--option", "debug_testsuite=true"]
    if not version and "--write-version" not in cfg["cmdline"]:
        argv += ["--nowrite-version"]
    argv += list(cfg["cmdline"]) + list(extra_argv)
    sp = {
        "name": cfg["name"],
        "links": {"input": os.path.join(common.REPO, "regression", "input")},
        "dirs": [outdir],
        "argv": argv,
        "monitors": list(monitors),
    }
    if yaml_override is not None:
        sp["files"] = {"work/" + cfg["yaml"]: yaml_override}
        sp["argv"] = argv + ["work/" + cfg["yaml"]]
    else:
        sp["argv"] = argv + ["input/" + cfg["yaml"]]
    return sp


def yaml_text(cfg):
    with open(os.path.join(common.REPO, "regression", "input", cfg["yaml"])) as f:
        return f.read()
