"""vf — runtime-monitoring framework for Shroud (see /verif/DESIGN.md)."""
