"""E2: typed IR of a library -> YAML description, instrumented subject library, reference model.

A library is a list of function specs (dicts):

  {"name": str, "ret": RET, "params": [PARAM...], "cls": None | class name,
   "static": bool, "const": bool, "ctor": bool, "dtor": bool, "yaml": {extra YAML fields}}

PARAM = {"name", "kind", "T", ...}; kinds:
  val         T a                          in
  ptr_in      const T *a                   in
  ptr_inout   T *a                         inout (default intent)
  ptr_out     T *a +intent(out)            out
  ref_inout   T &a                         inout          (C++)
  ref_out     T &a +intent(out)            out            (C++)
  arr_in      const T *a +rank(1)  and a following  int n +implied(size(a))   (the 'n' param has kind 'implied')
  arr_inout   T *a +rank(1)+intent(inout)  with implied n
  arr_out     T *a +intent(out)+dimension(n)   with an explicit 'val' int n before it
  arr_out_fixed  T *a +intent(out)+dimension(K)
  cstr_in     const char *s
  cstr_out    char *s +intent(out)+charlen(N)
  cstr_inout  char *s +intent(inout)
  str_cref    const std::string &s ; str_val std::string s ; str_cptr const std::string *s
  str_ref_out std::string &s +intent(out) ; str_ref_inout std::string &s
  str_ptr_out std::string *s +intent(out) ; str_ptr_inout std::string *s
  vec_in      const std::vector<T> &v ; vec_out std::vector<T> &v +intent(out) ; vec_inout std::vector<T> &v
RET kinds: void, val(T), cstr, cstr_len(N), str_val, str_cref, str_cref_len(N)

Every entry point computes a 64-bit digest D of everything it received (in
declaration order) and derives every output from D, so a swapped, truncated or
defaulted argument changes all outputs; it also logs what it received (RECV)
and produced (SEND).  model_call() is the same computation in Python: the
independent statement of what the documentation says must arrive and come back.
"""
from __future__ import annotations

import struct

M64 = (1 << 64) - 1

TYPES = {
    # name: C type, bits, signed, kind, Fortran declaration type, Fortran literal kind suffix
    "int": dict(c="int", bits=32, signed=True, k="i", f="integer(C_INT)", fk="_C_INT", py="int"),
    "long": dict(c="long", bits=64, signed=True, k="i", f="integer(C_LONG)", fk="_C_LONG", py="int"),
    "short": dict(c="short", bits=16, signed=True, k="i", f="integer(C_SHORT)", fk="_C_SHORT", py="int"),
    "long long": dict(c="long long", bits=64, signed=True, k="i", f="integer(C_LONG_LONG)", fk="_C_LONG_LONG", py="int"),
    "unsigned int": dict(c="unsigned int", bits=32, signed=False, k="i", f="integer(C_INT)", fk="_C_INT", py="int"),
    "size_t": dict(c="size_t", bits=64, signed=False, k="i", f="integer(C_SIZE_T)", fk="_C_SIZE_T", py="int"),
    "int32_t": dict(c="int32_t", bits=32, signed=True, k="i", f="integer(C_INT32_T)", fk="_C_INT32_T", py="int"),
    "int64_t": dict(c="int64_t", bits=64, signed=True, k="i", f="integer(C_INT64_T)", fk="_C_INT64_T", py="int"),
    "int16_t": dict(c="int16_t", bits=16, signed=True, k="i", f="integer(C_INT16_T)", fk="_C_INT16_T", py="int"),
    "uint16_t": dict(c="uint16_t", bits=16, signed=False, k="i", f="integer(C_INT16_T)", fk="_C_INT16_T", py="int"),
    "uint32_t": dict(c="uint32_t", bits=32, signed=False, k="i", f="integer(C_INT32_T)", fk="_C_INT32_T", py="int"),
    "uint64_t": dict(c="uint64_t", bits=64, signed=False, k="i", f="integer(C_INT64_T)", fk="_C_INT64_T", py="int"),
    "float": dict(c="float", bits=32, k="r", f="real(C_FLOAT)", fk="_C_FLOAT", py="float"),
    "double": dict(c="double", bits=64, k="r", f="real(C_DOUBLE)", fk="_C_DOUBLE", py="float"),
    "bool": dict(c="bool", bits=8, k="b", f="logical", fk="", py="bool"),
    # a single character: an 8-bit integer in the trace, character(kind=C_CHAR) in Fortran; values stay printable
    "char": dict(c="char", bits=8, signed=True, k="i", f="character(kind=C_CHAR)", fk="", py="str", char=True),
}
KINDS_FOR_USE = {"int": "C_INT", "long": "C_LONG", "short": "C_SHORT", "long long": "C_LONG_LONG", "unsigned int": "C_INT",
                 "size_t": "C_SIZE_T", "int32_t": "C_INT32_T", "int64_t": "C_INT64_T", "int16_t": "C_INT16_T", "uint16_t": "C_INT16_T", "uint32_t": "C_INT32_T", "uint64_t": "C_INT64_T", "float": "C_FLOAT", "double": "C_DOUBLE", "char": "C_CHAR"}

IN_KINDS = {"cls_cptr", "cls_cref", "cls_ref", "val", "ptr_in", "ptr_inout", "ref_inout", "arr_in", "arr_inout", "implied", "cstr_in", "cstr_inout", "str_cref",
            "str_val", "str_cptr", "str_ref_inout", "str_ptr_inout", "vec_in", "vec_inout"}
OUT_KINDS = {"ptr_inout", "ptr_out", "ref_inout", "ref_out", "arr_inout", "arr_out", "arr_out_fixed", "cstr_out", "cstr_inout",
             "str_ref_out", "str_ref_inout", "str_ptr_out", "str_ptr_inout", "vec_out", "vec_inout"}
STR_KINDS = {"cstr_in", "cstr_out", "cstr_inout", "str_cref", "str_val", "str_cptr", "str_ref_out", "str_ref_inout",
             "str_ptr_out", "str_ptr_inout"}
CXX_ONLY_KINDS = {"ref_inout", "ref_out", "str_cref", "str_val", "str_cptr", "str_ref_out", "str_ref_inout", "str_ptr_out",
                  "str_ptr_inout", "vec_in", "vec_out", "vec_inout"}


# callback signatures: declaration, what the library calls it with, result type, the value the harness callbacks return for that call
# (vf_cb3: i -> 3*i+1 ; vf_cbd: x -> 2*x+0.25 ; vf_cbl: (i, x) -> 100*i + int(2*x))
FNPTR_SIGS = {"i": {"decl": "int (*%s)(int)", "call": "3", "T": "int", "value": 10, "cb": "vf_cb3"},
              "d": {"decl": "double (*%s)(double)", "call": "1.5", "T": "double", "value": 3.25, "cb": "vf_cbd"},
              "l2": {"decl": "long (*%s)(int, double)", "call": "3, 2.5", "T": "long", "value": 305, "cb": "vf_cbl"}}

# ------------------------------------------------------------------ value representation (shared by all logs)

def wrap_int(v, T):
    t = TYPES[T]
    v &= (1 << t["bits"]) - 1
    if t["signed"] and v >> (t["bits"] - 1):
        v -= 1 << t["bits"]
    return v


def fbits(v, T):
    if T == "float":
        return struct.unpack("<i", struct.pack("<f", v))[0]
    return struct.unpack("<q", struct.pack("<d", v))[0]


def repr_scalar(v, T):
    t = TYPES[T]
    if t["k"] == "i":
        return "i:%d" % v
    if t["k"] == "r":
        return "%s:%d" % ("r4" if T == "float" else "r8", fbits(v, T))
    return "b:%d" % (1 if v else 0)


def repr_str(s):
    b = s.encode("latin-1") if isinstance(s, str) else bytes(s)
    return "s:%d:%s" % (len(b), b.hex())


def repr_array(vals, T):
    t = TYPES[T]
    if t["k"] == "i":
        return "ai:%d:%s" % (len(vals), ",".join(str(v) for v in vals))
    if t["k"] == "r":
        return "a%s:%d:%s" % ("r4" if T == "float" else "r8", len(vals), ",".join(str(fbits(v, T)) for v in vals))
    return "ab:%d:%s" % (len(vals), ",".join("1" if v else "0" for v in vals))


# ------------------------------------------------------------------ digest (Python side; C side in vf_trace.h)

def h_scalar(v, T):
    t = TYPES[T]
    if t["k"] == "i":
        return v & M64          # sign-extended to 64 bits
    if t["k"] == "r":
        return fbits(v, T) & M64 if T == "double" else (fbits(v, T) & 0xFFFFFFFF)
    return 1 if v else 0


def fnv(data_hashes):
    h = 1469598103934665603
    for x in data_hashes:
        h = ((h ^ (x & M64)) * 1099511628211) & M64
    return h


def h_str(s):
    b = s.encode("latin-1") if isinstance(s, str) else bytes(s)
    return fnv([len(b)] + list(b))


def h_array(vals, T):
    return fnv([len(vals)] + [h_scalar(v, T) for v in vals])


def fid_hash(name):
    return fnv([ord(c) for c in name])


def dmix(d, h):
    return (d * 1000003 + h) & M64


def out_scalar(d, T):
    t = TYPES[T]
    if t.get("char"):
        return 33 + (d % 94)
    if t["k"] == "i":
        return wrap_int(d, T)
    if t["k"] == "r":
        return ((d >> 8) % (1 << 20)) / 4.0 - 1000.0
    return bool((d >> 5) & 1)


PAT = "ab c  de f   gh i jk  lmn o  pq r s t u v w x yz"


def out_string_n(n, maxlen):
    k = max(n, 0)
    if maxlen >= 0:
        k = min(k, maxlen)
    return PAT[:k]


def out_string(d, maxlen):
    """String derived from d, at most maxlen characters (maxlen < 0: unbounded)."""
    variants = ["r%08x" % (d & 0xFFFFFFFF), "a b%04x" % (d & 0xFFFF), "", "x", " lead%02x" % (d & 0xFF), "mid  dle%x" % (d & 0xF)]
    s = variants[(d >> 33) % len(variants)]
    if maxlen >= 0:
        s = s[:maxlen]
    return s


def arr_out_count(p, args):
    """Number of elements of an intent(out) array whose extents are a parameter name or expressions of the arguments."""
    if p.get("dims"):
        n = 1
        for x in p["dims"]:
            n *= int(eval(x, {}, dict(args)))
        return n
    return args[p["dim"]]


def default_value(p):
    """Python value of a parameter's C++ default argument."""
    d = p["default"]
    if p["kind"] in STR_KINDS:
        return d.strip('"')
    k = TYPES[p["T"]]["k"]
    return (d in ("true", "1")) if k == "b" else (float(d) if k == "r" else int(d))


def fin(z):
    z = ((z ^ (z >> 30)) * 0xBF58476D1CE4E5B9) & M64
    z = ((z ^ (z >> 27)) * 0x94D049BB133111EB) & M64
    return z ^ (z >> 31)


def sub(d, k):
    return fin((d * 31 + 7 * (k + 1)) & M64)


# ------------------------------------------------------------------ YAML

def param_decl(p):
    d = _param_decl(p)
    if p.get("upper"):
        # docs/input.rst writes intent values in either case (+intent(IN) / +intent(in))
        import re
        if "intent(" not in d and p["kind"] in ("cstr_in", "ptr_in", "str_cref", "arr_in"):
            d += " +intent(in)" if " +" not in d else "+intent(in)"
        d = re.sub(r"intent\((\w+)\)", lambda m: "intent(%s)" % m.group(1).upper(), d)
    return d


def _param_decl(p):
    k, T, n = p["kind"], p.get("T"), p["name"]
    if k == "val":
        return "%s %s" % (p.get("spell") or T, n)      # spell: typedef name written in the declaration
    if k == "implied":
        return "%s %s +implied(size(%s))" % (T, n, p["of"])
    if k == "ptr_in":
        return "const %s *%s" % (T, n)
    if k == "ptr_inout":
        # cptr: the pointer itself is const (T * const name); the pointee stays writable, the default intent stays inout
        star = "* const " if p.get("cptr") else "*"
        return "%s %s%s" % (T, star, n) if not p.get("explicit") else "%s %s%s +intent(inout)" % (T, star, n)
    if k == "ptr_out":
        return "%s *%s +intent(out)" % (T, n)
    if k == "ref_inout":
        return "%s &%s" % (T, n) if not p.get("explicit") else "%s &%s +intent(inout)" % (T, n)
    if k == "ref_out":
        return "%s &%s +intent(out)" % (T, n)
    if k == "arr_in":
        return "const %s *%s +rank(1)" % (T, n)
    if k == "arr_inout":
        return "%s *%s +rank(1)+intent(inout)" % (T, n)
    if k == "arr_out":
        return "%s *%s +intent(out)+dimension(%s)" % (T, n, ",".join(p["dims"]) if p.get("dims") else p["dim"])
    if k == "arr_out_fixed":
        return "%s *%s +intent(out)+dimension(%d)" % (T, n, p["K"])
    if k == "cstr_in":
        return ("char *%s +intent(in)" if p.get("nonconst") else "const char *%s") % n
    if k == "cstr_out":
        return "char *%s +intent(out)+charlen(%d)" % (n, p["charlen"])
    if k == "cstr_inout":
        return ("char * const %s" if p.get("cptr") else "char *%s +intent(inout)") % n
    if k == "str_cref":
        return "const std::string &%s" % n
    if k == "str_val":
        return "std::string %s" % n
    if k == "str_cptr":
        return "const std::string *%s" % n
    if k == "str_ref_out":
        return "std::string &%s +intent(out)" % n
    if k == "str_ref_inout":
        return "std::string &%s" % n
    if k == "str_ptr_out":
        return "std::string *%s +intent(out)" % n
    if k == "str_ptr_inout":
        return ("std::string * const %s" if p.get("cptr") else "std::string *%s") % n
    if k == "cls_cptr":
        return "const %s *%s" % (p["cls"], n)
    if k == "cls_cref":
        return "const %s &%s" % (p["cls"], n)
    if k == "cls_ref":
        return "%s &%s" % (p["cls"], n)
    if k == "len_hidden":
        return "int *%s +intent(out)+hidden" % n
    if k == "fnptr":
        # callbacks.rst: a function pointer argument (no +external: Shroud writes an abstract interface for it)
        return FNPTR_SIGS[p.get("sig", "i")]["decl"] % n
    if k == "vec_in":
        return "const std::vector<%s> &%s" % (T, n)
    if k == "vec_out":
        return "std::vector<%s> &%s +intent(out)%s" % (T, n, "+deref(allocatable)" if p.get("alloc") else "")
    if k == "vec_inout":
        # alloc: the Fortran argument is allocatable and is (re)allocated to the size the library left (vectors.yaml vector_iota_inout_alloc)
        return "std::vector<%s> &%s%s" % (T, n, " +intent(inout)+deref(allocatable)" if p.get("alloc") else "")
    raise ValueError(k)


def ret_decl(r):
    k = r["kind"]
    if k == "void":
        return "void", ""
    if k == "val":
        return r.get("spell") or r["T"], ""
    if k == "cstr":
        return "const char *", ""
    if k == "cstr_len":
        return "const char *", " +len(%s)" % (r.get("lenexpr") or r["N"])          # lenexpr: the same length written as an expression
    if k == "str_val":
        return "const std::string", ""
    if k == "str_cref":
        return "const std::string &", ""
    if k == "str_cref_len":
        return "const std::string &", " +len(%s)" % (r.get("lenexpr") or r["N"])
    if k == "ptr_scalar":
        # without an attribute the documented default applies: a Fortran POINTER to the scalar; the C API keeps the pointer
        return "%s *" % r["T"], (" +deref(scalar)" if r.get("deref", "scalar") == "scalar" else "")
    if k == "arr_ptr":
        return "%s *" % r["T"], " +dimension(%s)+deref(%s)%s%s" % (",".join(r["dims"]) if r.get("dims") else r["len"], r["deref"], "+owner(caller)" if r.get("owner") == "caller" else "",
                                                                  "+free_pattern(%s)" % r["free_pattern"] if r.get("free_pattern") else "")
    if k == "str_ptr_own":
        return "const std::string *", " +owner(caller)"
    if k == "vec_val":
        return "std::vector<%s>" % r["T"], ""
    if k == "cls_ptr":
        return "%s *" % r["cls"], (" +owner(caller)" if r.get("owner") == "caller" else "") + (
            "+free_pattern(%s)" % r["free_pattern"] if r.get("free_pattern") else "")
    if k == "cls_val":
        return r["cls"], ""
    raise ValueError(k)


def func_decl(f, cxx_only=False):
    """YAML decl text (cxx_only: plain C++ prototype without Shroud attributes)."""
    if f.get("ctor"):
        head = f["cls"]
    elif f.get("dtor"):
        return "~%s()" % f["cls"] + ("" if cxx_only else " +name(%s)" % f.get("dtor_name", "delete"))
    else:
        rt, rattr = ret_decl(f["ret"])
        head = "%s%s%s" % (rt, "" if rt.endswith(("*", "&")) else " ", f["name"])
    ps = []
    for p in f["params"]:
        d = param_decl(p)
        if cxx_only:
            d = d.split(" +")[0]
        if "default" in p:
            d += " = %s" % p["default"]
        ps.append(d)
    s = "%s(%s)" % (head, ", ".join(ps) if ps else ("void" if not f.get("ctor") else ""))
    if f.get("static"):
        s = "static " + s
    if f.get("const"):
        s += " const"
    if not cxx_only and not f.get("ctor") and not f.get("dtor"):
        s += ret_decl(f["ret"])[1]
    return s


def library_typedefs(lib):
    """[(namespace or None, name, underlying type)] declared by the functions of the library, global ones first."""
    seen = []
    for f in lib["functions"]:
        for t in f.get("typedefs") or []:
            if tuple(t) not in seen:
                seen.append(tuple(t))
    return sorted(seen, key=lambda t: t[0] is not None)


def library_yaml(lib):
    """lib = {"name","language","functions":[...],"classes":{name:[funcs]},"options":{},"format":{}, "namespace": str|None}"""
    decls = []
    done_cls = set()
    for ns_, nm_, T_ in library_typedefs(lib):
        e = {"decl": "typedef %s %s" % (T_, nm_)}
        if ns_:
            blk = next((b for b in decls if b["decl"] == "namespace %s" % ns_), None)
            if blk is None:
                blk = {"decl": "namespace %s" % ns_, "declarations": []}
                decls.append(blk)
            blk["declarations"].append(e)
        else:
            decls.append(e)
    for f in lib["functions"]:
        if f.get("cls"):
            if f["cls"] in done_cls:
                continue
            done_cls.add(f["cls"])
            members = [g for g in lib["functions"] if g.get("cls") == f["cls"]]
            decls.append({"decl": "class %s" % f["cls"],
                          "declarations": [dict({"decl": func_decl(g)}, **g.get("yaml", {})) for g in members]})
        else:
            e = dict({"decl": func_decl(f)}, **f.get("yaml", {}))
            if f.get("extern_c") and lib["language"] == "c++":
                e["options"] = dict(e.get("options") or {}, C_extern_C=True)
            if f.get("ns"):
                blk = next((b for b in decls if b["decl"] == "namespace %s" % f["ns"]), None)
                if blk is None:
                    blk = {"decl": "namespace %s" % f["ns"], "declarations": []}
                    decls.append(blk)
                blk["declarations"].append(e)
            else:
                decls.append(e)
    d = {"library": lib["name"], "cxx_header": lib["name"] + (".hpp" if lib["language"] == "c++" else ".h"),
         "language": lib["language"], "options": dict(lib.get("options") or {})}
    if lib.get("format"):
        d["format"] = dict(lib["format"])
    if lib.get("namespace"):
        d["namespace"] = lib["namespace"]
    d["declarations"] = decls
    if lib.get("patterns"):
        d["patterns"] = dict(lib["patterns"])
    return d


# ------------------------------------------------------------------ subject library (C / C++ source text)

def c_type(T, lang):
    if T == "bool" and lang == "c":
        return "bool"
    return TYPES[T]["c"]


def cxx_param(p, lang):
    d = param_decl(p).split(" +")[0]
    return d


def h_expr(T, expr):
    t = TYPES[T]
    if t["k"] == "i":
        return "vf_h_i((long long)(%s))" % expr if t["signed"] else "vf_h_u((unsigned long long)(%s))" % expr
    if t["k"] == "r":
        return ("vf_h_f(%s)" if T == "float" else "vf_h_d(%s)") % expr
    return "vf_h_b(%s)" % expr


def log_scalar(T, name, expr):
    t = TYPES[T]
    if t["k"] == "i":
        return 'vf_log_i("%s", (long long)(%s), %d);' % (name, expr, 1 if t["signed"] else 0)
    if t["k"] == "r":
        return ('vf_log_r4("%s", %s);' if T == "float" else 'vf_log_r8("%s", %s);') % (name, expr)
    return 'vf_log_b("%s", %s);' % (name, expr)


def out_expr(T, dexpr):
    t = TYPES[T]
    if t.get("char"):
        return "(char)(33 + (%s) %% 94ULL)" % dexpr
    if t["k"] == "i":
        return "(%s)(%s)" % (t["c"], dexpr)
    if t["k"] == "r":
        return "(%s)vf_out_real(%s)" % (t["c"], dexpr)
    return "vf_out_bool(%s)" % dexpr


def arr_fns(T):
    """(hash fn, log fn, fill fn) for arrays of T"""
    key = T.replace(" ", "_")
    return "vf_h_arr_%s" % key, "vf_log_arr_%s" % key, "vf_fill_arr_%s" % key


def impl_function(f, lang, qual=""):
    """C/C++ definition of one entry point."""
    name = f["name"]
    fid = f.get("fid") or f["name"]
    lines = []
    cls = f.get("cls")
    if f.get("ctor"):
        sig = "%s::%s(%s)" % (cls, cls, ", ".join(cxx_param(p, lang) for p in f["params"]))
    elif f.get("dtor"):
        return ["%s::~%s() { vf_begin(\"DTOR\", \"%s\"); vf_log_i(\"this\", serial, 1); vf_end(); vf_live_%s--; }" % (cls, cls, fid, cls)]
    else:
        rt, _ = ret_decl(f["ret"])
        ps = ", ".join(cxx_param(p, lang) for p in f["params"]) or "void"
        sig = "%s%s%s%s(%s)%s" % (rt, "" if rt.endswith(("*", "&")) else " ", (cls + "::") if cls else qual, name, ps,
                                  " const" if f.get("const") else "")
    lines.append(sig)
    lines.append("{")
    lines.append('    unsigned long long vfD = %dULL;' % fid_hash(fid))
    if f.get("ctor"):
        lines.append("    serial = ++vf_serial_counter; vf_live_%s++;" % cls)
    lines.append('    vf_begin("RECV", "%s");' % fid)
    if cls and not f.get("static") :
        lines.append('    vf_log_i("this", serial, 1); vfD = vf_mix(vfD, (unsigned long long)serial);')
    for p in f["params"]:
        k, T, n = p["kind"], p.get("T"), p["name"]
        if k in ("val", "implied"):
            lines.append("    %s vfD = vf_mix(vfD, %s);" % (log_scalar(T, n, n), h_expr(T, n)))
        elif k == "fnptr":
            # the library calls the callback once with fixed arguments and records what it returned
            sg = FNPTR_SIGS[p.get("sig", "i")]
            lines.append('    { %s vf_cbr = %s(%s); %s vfD = vf_mix(vfD, %s); }' % (TYPES[sg["T"]]["c"], n, sg["call"], log_scalar(sg["T"], n, "vf_cbr"), h_expr(sg["T"], "vf_cbr")))
        elif k in ("ptr_in", "ptr_inout"):
            lines.append("    %s vfD = vf_mix(vfD, %s);" % (log_scalar(T, n, "*" + n), h_expr(T, "*" + n)))
        elif k == "ref_inout":
            lines.append("    %s vfD = vf_mix(vfD, %s);" % (log_scalar(T, n, n), h_expr(T, n)))
        elif k in ("arr_in", "arr_inout"):
            hf, lf, _ = arr_fns(T)
            lines.append('    %s("%s", %s, (long)%s); vfD = vf_mix(vfD, %s(%s, (long)%s));' % (lf, n, n, p["n"], hf, n, p["n"]))
        elif k in ("cstr_in", "cstr_inout"):
            lines.append('    vf_log_s("%s", %s, -1); vfD = vf_mix(vfD, vf_h_s(%s, -1));' % (n, n, n))
        elif k in ("str_cref", "str_val", "str_ref_inout"):
            lines.append('    vf_log_s("%s", %s.data(), (long)%s.size()); vfD = vf_mix(vfD, vf_h_s(%s.data(), (long)%s.size()));' % (n, n, n, n, n))
        elif k in ("str_cptr", "str_ptr_inout"):
            lines.append('    vf_log_s("%s", %s->data(), (long)%s->size()); vfD = vf_mix(vfD, vf_h_s(%s->data(), (long)%s->size()));' % (n, n, n, n, n))
        elif k in ("vec_in", "vec_inout"):
            hf, lf, _ = arr_fns(T)
            lines.append('    %s("%s", %s.data(), (long)%s.size()); vfD = vf_mix(vfD, %s(%s.data(), (long)%s.size()));' % (lf, n, n, n, hf, n, n))
        elif k == "cls_cptr":
            lines.append('    vf_log_i("%s", %s ? %s->serial : -1, 1); vfD = vf_mix(vfD, (unsigned long long)(%s ? %s->serial : -1));' % (n, n, n, n, n))
        elif k in ("cls_cref", "cls_ref"):
            lines.append('    vf_log_i("%s", %s.serial, 1); vfD = vf_mix(vfD, (unsigned long long)(%s.serial));' % (n, n, n))
        elif k in ("ptr_out", "ref_out", "arr_out", "arr_out_fixed", "cstr_out", "str_ref_out", "str_ptr_out", "vec_out", "len_hidden"):
            pass
        else:
            raise ValueError(k)
    lines.append("    vf_end();")
    if f.get("ctor"):
        lines.append("    digest = vfD;")
        lines.append("}")
        return lines
    # outputs
    lines.append('    vf_begin("SEND", "%s");' % fid)
    ko = 0
    for p in f["params"]:
        k, T, n = p["kind"], p.get("T"), p["name"]
        if k not in OUT_KINDS:
            continue
        d = "vf_sub(vfD, %d)" % ko
        ko += 1
        if k in ("ptr_inout", "ptr_out"):
            lines.append("    *%s = %s; %s" % (n, out_expr(T, d), log_scalar(T, n, "*" + n)))
        elif k in ("ref_inout", "ref_out"):
            lines.append("    %s = %s; %s" % (n, out_expr(T, d), log_scalar(T, n, n)))
        elif k in ("arr_inout", "arr_out"):
            _, lf, ff = arr_fns(T)
            cnt = p["n"] if k == "arr_inout" else (" * ".join("(long)(%s)" % x for x in p["dims"]) if p.get("dims") else p["dim"])
            lines.append('    %s(%s, (long)%s, %s); %s("%s", %s, (long)%s);' % (ff, n, cnt, d, lf, n, n, cnt))
        elif k == "arr_out_fixed":
            _, lf, ff = arr_fns(T)
            lines.append('    %s(%s, %d, %s); %s("%s", %s, %d);' % (ff, n, p["K"], d, lf, n, n, p["K"]))
        elif k == "cstr_out":
            lines.append('    vf_out_str(%s, %d, %s); vf_log_s("%s", %s, -1);' % (n, p["charlen"] - 1, d, n, n))
        elif k == "cstr_inout":
            capn = next((q["name"] for q in f["params"] if q.get("role") == "cap"), None)
            if capn:
                # the caller states the capacity of its buffer (excluding the NUL): the library may grow the string up to it
                lines.append('    vf_out_str(%s, (long)%s, %s); vf_log_s("%s", %s, -1);' % (n, capn, d, n, n))
            else:
                # same length as received (caller's buffer is only known to hold what it passed)
                lines.append('    vf_out_str(%s, (long)strlen(%s), %s); vf_log_s("%s", %s, -1);' % (n, n, d, n, n))
        elif k in ("str_ref_out", "str_ref_inout"):
            lines.append('    { char vfb[64]; vf_out_str(vfb, 40, %s); %s = vfb; } vf_log_s("%s", %s.data(), (long)%s.size());' % (d, n, n, n, n))
        elif k in ("str_ptr_out", "str_ptr_inout"):
            lines.append('    { char vfb[64]; vf_out_str(vfb, 40, %s); *%s = vfb; } vf_log_s("%s", %s->data(), (long)%s->size());' % (d, n, n, n, n))
        elif k in ("vec_out", "vec_inout"):
            _, lf, ff = arr_fns(T)
            lines.append('    %s.resize(vf_out_len(%s)); %s(%s.data(), (long)%s.size(), %s); %s("%s", %s.data(), (long)%s.size());' % (
                n, d, ff, n, n, d, lf, n, n, n))
    r = f["ret"]
    dr = "vf_sub(vfD, 99)"
    if r["kind"] == "val":
        lines.append("    %s vfR = %s; %s" % (c_type(r["T"], lang), out_expr(r["T"], dr), log_scalar(r["T"], "ret", "vfR")))
        lines.append("    vf_end();")
        lines.append("    return vfR;")
    elif r["kind"] in ("cstr", "cstr_len"):
        lines.append("    static char vfR[64]; vf_out_str(vfR, %d, %s); vf_log_s(\"ret\", vfR, -1);" % (40 if r["kind"] == "cstr" else min(40, r["N"] + 8), dr))
        lines.append("    vf_end();")
        lines.append("    return vfR;")
    elif r["kind"] == "str_val":
        lines.append("    char vfb[64]; vf_out_str(vfb, 40, %s); std::string vfR(vfb); vf_log_s(\"ret\", vfR.data(), (long)vfR.size());" % dr)
        lines.append("    vf_end();")
        lines.append("    return vfR;")
    elif r["kind"] == "ptr_scalar":
        lines.append("    static %s vfR; vfR = %s; %s" % (c_type(r["T"], lang), out_expr(r["T"], dr), log_scalar(r["T"], "ret", "vfR")))
        lines.append("    vf_end();")
        lines.append("    return &vfR;")
    elif r["kind"] == "arr_ptr":
        _, lf, ff = arr_fns(r["T"])
        ct = c_type(r["T"], lang)
        if r.get("dims"):
            lines.append("    long vfN = %s;   /* extents are expressions of the arguments */" % " * ".join("(long)(%s)" % x for x in r["dims"]))
        else:
            lines.append("    long vfN = 1 + vf_out_len(%s);" % dr)
        if r.get("owner") == "caller":
            lines.append("    %s *vfR = (%s *) malloc(vfN * sizeof(%s)); vf_own(vfR);   /* caller owns; released with free() */" % (ct, ct, ct))
        else:
            lines.append("    static %s *vfR = NULL;   /* library-owned buffer, allocated once, reused by every call */" % ct)
            lines.append("    if (vfR == NULL) vfR = (%s *) malloc(%d * sizeof(%s));" % (ct, 512 if r.get("dims") else 8, ct))
        lines.append('    %s(vfR, vfN, %s); %s("ret", vfR, vfN);' % (ff, dr, lf))
        if not r.get("dims"):
            lines.append("    *%s = (int) vfN;" % r["len"])
        lines.append("    vf_end();")
        lines.append("    return vfR;")
    elif r["kind"] == "str_ptr_own":
        lines.append("    char vfb[64]; vf_out_str(vfb, 40, %s); std::string *vfR = new std::string(vfb); vf_own(vfR); vf_log_s(\"ret\", vfR->data(), (long)vfR->size());" % dr)
        lines.append("    vf_end();")
        lines.append("    return vfR;")
    elif r["kind"] == "vec_val":
        _, lf, ff = arr_fns(r["T"])
        lines.append("    std::vector<%s> vfR(vf_out_len(%s));" % (c_type(r["T"], lang), dr))
        lines.append('    %s(vfR.data(), (long)vfR.size(), %s); %s("ret", vfR.data(), (long)vfR.size());' % (ff, dr, lf))
        lines.append("    vf_end();")
        lines.append("    return vfR;")
    elif r["kind"] == "cls_ptr" and r.get("owner") != "caller":
        lines.append("    static %s vfR((%s::vf_quiet()));   /* library-owned: created on first use, never released */" % (r["cls"], r["cls"]))
        lines.append('    vf_log_i("ret", vfR.serial, 1);')
        lines.append("    vf_end();")
        lines.append("    return &vfR;")
    elif r["kind"] == "cls_ptr" and r.get("free_pattern"):
        lines.append("    %s *vfR = new %s((%s::vf_quiet())); vf_pool_add(vfR, vfR->serial);   /* pool object: handed back with vf_pool_put, never deleted */" % (r["cls"], r["cls"], r["cls"]))
        lines.append('    vf_log_i("ret", vfR->serial, 1);')
        lines.append("    vf_end();")
        lines.append("    return vfR;")
    elif r["kind"] == "cls_ptr":
        lines.append("    %s *vfR = new %s((%s::vf_quiet()));   /* caller owns */" % (r["cls"], r["cls"], r["cls"]))
        lines.append('    vf_log_i("ret", vfR->serial, 1);')
        lines.append("    vf_end();")
        lines.append("    return vfR;")
    elif r["kind"] == "cls_val":
        lines.append("    %s vfR((%s::vf_quiet()));" % (r["cls"], r["cls"]))
        lines.append('    vf_log_i("ret", vfR.serial, 1);')
        lines.append("    vf_end();")
        lines.append("    return vfR;")
    elif r["kind"] in ("str_cref", "str_cref_len"):
        lines.append("    static std::string vfR; char vfb[64]; vf_out_str(vfb, %d, %s); vfR = vfb; vf_log_s(\"ret\", vfR.data(), (long)vfR.size());" % (
            40 if r["kind"] == "str_cref" else min(40, r["N"] + 8), dr))
        lines.append("    vf_end();")
        lines.append("    return vfR;")
    else:
        lines.append("    vf_end();")
    lines.append("}")
    ol = next((p["name"] for p in f["params"] if p.get("role") == "outlen"), None)
    if ol:
        lines = [ln.replace("vf_out_str(", "vf_out_strn((long)%s, " % ol) for ln in lines]
        if r["kind"] in ("cstr", "cstr_len"):
            i = next(i for i, ln in enumerate(lines) if ln.lstrip().startswith("static char vfR[64];"))
            lines.insert(i, '    if (%s < 0) { vf_log_s("ret", NULL, 0); vf_end(); return NULL; }   /* a NULL result */' % ol)
    return lines


def tsub(T, f, t):
    """Concrete type of T in the instantiation t of function template f (t: a type, or a list of types matching
    f['tparams'] in declaration order)."""
    if not t or T is None:
        return T
    names = f.get("tparams") or ["ArgType"]
    vals = list(t) if isinstance(t, (list, tuple)) else [t]
    return dict(zip(names, vals)).get(T, T)


def tlabel(t):
    return ",".join(t) if isinstance(t, (list, tuple)) else t


def instantiate(f, t):
    """Concrete entry point of a function template for template argument(s) t (or f itself)."""
    if not t:
        return f
    import copy
    g = copy.deepcopy(f)
    for p in g["params"]:
        p["T"] = tsub(p.get("T"), f, t) if "T" in p else p.get("T")
        if p["T"] is None:
            p.pop("T")
    if "T" in g["ret"]:
        g["ret"]["T"] = tsub(g["ret"]["T"], f, t)
    g["fid"] = "%s<%s>" % (f.get("fid") or f["name"], tlabel(t))
    g.pop("template", None)
    return g


def library_sources(lib):
    """(header text, implementation text) of the subject library."""
    lang = lib["language"]
    name = lib["name"]
    guard = "VF_" + name.upper() + "_H"
    h = ["#ifndef %s" % guard, "#define %s" % guard]
    if lang == "c++":
        h += ["#include <string>", "#include <vector>", "#include <cstddef>", "#include <cstdint>"]
    else:
        h += ["#include <stddef.h>", "#include <stdint.h>", "#include <stdbool.h>"]
    if lib.get("patterns"):
        h.append("#ifdef __cplusplus\nextern \"C\" {\n#endif")
        h.append("void vf_pool_put(void *ptr);   /* release routine named by a free_pattern */")
        h.append("void vf_arr_put(void *ptr);")
        h.append("#ifdef __cplusplus\n}\n#endif")
    ns = (lib.get("namespace") or "").split()
    for n in ns:
        h.append("namespace %s {" % n)
    classes = []
    for f in lib["functions"]:
        if f.get("cls") and f["cls"] not in classes:
            classes.append(f["cls"])
    for c in classes:
        h.append("class %s {\npublic:" % c)
        for f in lib["functions"]:
            if f.get("cls") == c:
                h.append("    " + func_decl(f, cxx_only=True) + ";")
        if not any(f.get("cls") == c and f.get("dtor") for f in lib["functions"]):
            pass
        h.append("    struct vf_quiet {};\n    explicit %s(vf_quiet);   /* library-internal construction: not logged */" % c)
        h.append("    %s(const %s &o);" % (c, c))
        if not any(f.get("cls") == c and f.get("dtor") for f in lib["functions"]):
            h.append("    ~%s();" % c)
        h.append("    long serial;\n    unsigned long long digest;\n};")
    for ns_, nm_, T_ in library_typedefs(lib):
        d_ = "typedef %s %s;" % (TYPES[T_]["c"], nm_)
        h.append("namespace %s { %s }" % (ns_, d_) if ns_ else d_)
    if lang == "c":
        h.append("#ifdef __cplusplus\nextern \"C\" {\n#endif")
    for f in lib["functions"]:
        if not f.get("cls"):
            if f.get("template"):
                h.append("template<%s> " % ", ".join("typename " + x for x in (f.get("tparams") or ["ArgType"])) + func_decl(f, cxx_only=True) + ";")
            else:
                d_ = ('extern "C" ' if f.get("extern_c") and lang == "c++" else "") + func_decl(f, cxx_only=True) + ";"
                h.append("namespace %s { %s }" % (f["ns"], d_) if f.get("ns") else d_)
    if lang == "c":
        h.append("#ifdef __cplusplus\n}\n#endif")
    if lib.get("raw_header"):
        h.append(lib["raw_header"])
    for n in reversed(ns):
        h.append("}")
    h.append("#endif")
    c = ['#include "%s"' % (name + (".hpp" if lang == "c++" else ".h")), '#include "vf_trace.h"', "#include <string.h>"]
    if classes:
        c.append("static long vf_serial_counter = 0;")
    if lib.get("patterns"):
        c.append("static void vf_pool_add(void *p, long serial);")
    for cl in classes:
        c.append("long vf_live_%s = 0;" % cl)
    for n in ns:
        c.append("namespace %s {" % n)
    for cl in classes:
        c.append("%s::%s(vf_quiet) { serial = ++vf_serial_counter; digest = 0; vf_live_%s++; }" % (cl, cl, cl))
        c.append("%s::%s(const %s &o) { serial = o.serial; digest = o.digest; vf_live_%s++; }   /* a copy keeps the identity */" % (cl, cl, cl, cl))
        if not any(f.get("cls") == cl and f.get("dtor") for f in lib["functions"]):
            c.append("%s::~%s() { vf_live_%s--; }" % (cl, cl, cl))
    for f in lib["functions"]:
        if f.get("template"):
            for t in f["template"]:
                body = impl_function(instantiate(f, t), lang)
                # explicit specialisation: 'R name(params)' -> 'template<> R name<t>(params)'
                body[0] = "template<> " + body[0].replace(" %s(" % f["name"], " %s<%s>(" % (f["name"], tlabel(t).replace(",", ", ")), 1)
                c.extend(body)
                c.append("")
            continue
        body = impl_function(f, lang)
        if f.get("extern_c") and lang == "c++":
            body[0] = 'extern "C" ' + body[0]
        if f.get("ns"):
            body = ["namespace %s {" % f["ns"]] + body + ["}"]
        c.extend(body)
        c.append("")
    if lib.get("raw_impl"):
        c.append(lib["raw_impl"])
    for n in reversed(ns):
        c.append("}")
    if lib.get("patterns"):
        c.append("static long vf_pool_serial[VF_MAX_OWNED]; static void *vf_pool_obj[VF_MAX_OWNED]; static int vf_pool_n = 0;")
        c.append("static void vf_pool_add(void *p, long serial) { if (vf_pool_n < VF_MAX_OWNED) { vf_pool_obj[vf_pool_n] = p; vf_pool_serial[vf_pool_n++] = serial; } }")
        pre = 'extern "C" ' if lang == "c++" else ""
        c.append(pre + "void vf_pool_put(void *ptr) { int i; long s = -1; for (i = 0; i < vf_pool_n; i++) if (vf_pool_obj[i] == ptr) s = vf_pool_serial[i];"
                 ' vf_begin("FREE", "pool_put"); vf_log_i("this", s, 1); vf_end(); }')
        c.append(pre + "void vf_arr_put(void *ptr) { int i; long s = -1; for (i = 0; i < vf_owned_n; i++) if (vf_owned_ptr[i] == ptr) s = i;"
                 ' vf_begin("FREE", "arr_put"); vf_log_i("blk", s, 1); vf_end(); free(ptr); }')
    # live-object counter visible to the trace marker
    if lang == "c++":
        c.append('extern "C" long vf_live_objects(void) { return 0%s; }' % "".join(" + vf_live_%s" % cl for cl in classes))
        c.append('extern "C" void vf_mark(int k) { vf_mark_impl(k); }')
    else:
        c.append("long vf_live_objects(void) { return 0; }")
        c.append("void vf_mark(int k) { vf_mark_impl(k); }")
    return "\n".join(h) + "\n", "\n".join(c) + "\n"


# ------------------------------------------------------------------ reference model of one call

def model_call(f, args, this_serial=None):
    """args: {param name: python value} for every IN kind (arrays as lists, strings as str).
    Returns {"recv": {name: repr}, "send": {name: repr}, "out": {name: python value}, "ret": value|None}."""
    fid = f.get("fid") or f["name"]
    d = fid_hash(fid)
    recv = {}
    if this_serial is not None:
        recv["this"] = "i:%d" % this_serial
        d = dmix(d, this_serial & M64)
    for p in f["params"]:
        k, T, n = p["kind"], p.get("T"), p["name"]
        if k == "implied":
            v = len(args[p["of"]])
            recv[n] = repr_scalar(v, T)
            d = dmix(d, h_scalar(v, T))
        elif k in ("cls_cptr", "cls_cref", "cls_ref"):
            v = args[n]                      # serial of the object passed
            recv[n] = "i:%d" % v
            d = dmix(d, v & M64)
        elif k == "fnptr":
            sg = FNPTR_SIGS[p.get("sig", "i")]
            recv[n] = repr_scalar(sg["value"], sg["T"])
            d = dmix(d, h_scalar(sg["value"], sg["T"]))
        elif k in ("val", "ptr_in", "ptr_inout", "ref_inout"):
            v = args[n]
            recv[n] = repr_scalar(v, T)
            d = dmix(d, h_scalar(v, T))
        elif k in ("arr_in", "arr_inout", "vec_in", "vec_inout"):
            v = args[n]
            recv[n] = repr_array(v, T)
            d = dmix(d, h_array(v, T))
        elif k in ("cstr_in", "cstr_inout", "str_cref", "str_val", "str_cptr", "str_ref_inout", "str_ptr_inout"):
            v = args[n]
            recv[n] = repr_str(v)
            d = dmix(d, h_str(v))
    send, out = {}, {}
    ko = 0
    oln = next((args[p["name"]] for p in f["params"] if p.get("role") == "outlen"), None)

    def ostr(dd, maxlen):
        return out_string(dd, maxlen) if oln is None else out_string_n(oln, maxlen)
    for p in f["params"]:
        k, T, n = p["kind"], p.get("T"), p["name"]
        if k not in OUT_KINDS:
            continue
        dk = sub(d, ko)
        ko += 1
        if k in ("ptr_inout", "ptr_out", "ref_inout", "ref_out"):
            v = out_scalar(dk, T)
            send[n] = repr_scalar(v, T)
            out[n] = v
        elif k in ("arr_inout", "arr_out", "arr_out_fixed"):
            if k == "arr_inout":
                cnt = len(args[n])
            elif k == "arr_out":
                cnt = arr_out_count(p, args)
            else:
                cnt = p["K"]
            v = [out_scalar(sub(dk, 1000 + i), T) for i in range(cnt)]
            send[n] = repr_array(v, T)
            out[n] = v
        elif k == "cstr_out":
            v = ostr(dk, p["charlen"] - 1)
            send[n] = repr_str(v)
            out[n] = v
        elif k == "cstr_inout":
            capv = next((args[q["name"]] for q in f["params"] if q.get("role") == "cap"), None)
            v = ostr(dk, capv if capv is not None else len(args[n].encode("latin-1")))
            send[n] = repr_str(v)
            out[n] = v
        elif k in ("str_ref_out", "str_ref_inout", "str_ptr_out", "str_ptr_inout"):
            v = ostr(dk, 40)
            send[n] = repr_str(v)
            out[n] = v
        elif k in ("vec_out", "vec_inout"):
            cnt = out_len(dk)
            v = [out_scalar(sub(dk, 1000 + i), T) for i in range(cnt)]
            send[n] = repr_array(v, T)
            out[n] = v
    r = f["ret"]
    ret = None
    dr = sub(d, 99)
    if r["kind"] in ("cstr", "cstr_len") and oln is not None and oln < 0:
        ret = None
        send["ret"] = "null"
    elif r["kind"] in ("val", "ptr_scalar"):
        ret = out_scalar(dr, r["T"])
        send["ret"] = repr_scalar(ret, r["T"])
    elif r["kind"] in ("cstr", "str_val", "str_cref"):
        ret = ostr(dr, 40)
        send["ret"] = repr_str(ret)
    elif r["kind"] in ("cstr_len", "str_cref_len"):
        ret = ostr(dr, min(40, r["N"] + 8))
        send["ret"] = repr_str(ret)
    elif r["kind"] == "str_ptr_own":
        ret = ostr(dr, 40)
        send["ret"] = repr_str(ret)
    elif r["kind"] == "arr_ptr" and r.get("dims"):
        cnt = 1
        for x in r["dims"]:
            cnt *= int(eval(x, {}, dict(args)))
        ret = [out_scalar(sub(dr, 1000 + i), r["T"]) for i in range(cnt)]
        send["ret"] = repr_array(ret, r["T"])
    elif r["kind"] in ("arr_ptr", "vec_val"):
        cnt = out_len(dr) + (1 if r["kind"] == "arr_ptr" else 0)
        ret = [out_scalar(sub(dr, 1000 + i), r["T"]) for i in range(cnt)]
        send["ret"] = repr_array(ret, r["T"])
    return {"recv": recv, "send": send, "out": out, "ret": ret, "digest": d}


def out_len(d):
    return (d >> 13) % 6
