"""E2: catalogue of function shapes (each traceable to a documented pattern), library builder,
documented naming model and call plans with the value battery."""
from __future__ import annotations

import copy

from .. import common
from . import ir

INT_T = ["int", "long", "short", "long long", "unsigned int", "size_t", "int32_t", "int64_t"]
REAL_T = ["float", "double"]
CORE_T = ["int", "double", "long", "float"]


def P(name, kind, T=None, **kw):
    d = {"name": name, "kind": kind}
    if T:
        d["T"] = T
    d.update(kw)
    return d


def F(name, ret, params, **kw):
    if isinstance(ret, str):
        ret = {"kind": "void"} if ret == "void" else ({"kind": ret} if ret in ("cstr", "str_val", "str_cref") else {"kind": "val", "T": ret})
    d = {"name": name, "ret": ret, "params": params}
    d.update(kw)
    return d


# ------------------------------------------------------------------ shapes: name -> (builder(stem, T) -> [funcs], types, langs, wraps, doc)

SHAPES = {}


def shape(id, types=None, langs=("c", "c++"), wraps=("c", "fortran", "python"), doc=""):
    def deco(fn):
        SHAPES[id] = dict(id=id, build=fn, types=types, langs=langs, wraps=wraps, doc=doc)
        return fn
    return deco


ALLW = ("c", "fortran", "python", "lua")


@shape("void0", wraps=ALLW, doc="tutorial.yaml NoReturnNoArguments")
def _(n, T):
    return [F(n, "void", [])]


@shape("scalar2", types=INT_T + REAL_T, wraps=ALLW, doc="tutorial.yaml PassByValue; docs/types.rst")
def _(n, T):
    return [F(n, T, [P("a", "val", T), P("b", "val", T)])]


@shape("mixed", wraps=ALLW, doc="tutorial.yaml PassByValue")
def _(n, T):
    return [F(n, "double", [P("a", "val", "double"), P("b", "val", "int")])]


@shape("bool1", wraps=ALLW, doc="clibrary.yaml checkBool; docs/types.rst bool")
def _(n, T):
    return [F(n, "bool", [P("a", "val", "bool")])]


@shape("ptr_in", types=CORE_T, doc="pointers.yaml intargs_in")
def _(n, T):
    return [F(n, T, [P("a", "ptr_in", T)])]


@shape("ptr_inout", types=CORE_T, doc="pointers.yaml intargs_inout")
def _(n, T):
    return [F(n, "void", [P("a", "ptr_inout", T)])]


@shape("ptr_out", types=CORE_T, doc="pointers.yaml intargs_out")
def _(n, T):
    return [F(n, "void", [P("a", "ptr_out", T)])]


@shape("ptr_mixed", doc="pointers.yaml intargs")
def _(n, T):
    return [F(n, "void", [P("a", "val", "int"), P("b", "ptr_inout", "int", explicit=True), P("c", "ptr_out", "int")])]


@shape("ref_out", types=CORE_T, langs=("c++",), doc="tutorial.yaml getMinMax")
def _(n, T):
    return [F(n, "void", [P("a", "ref_out", T), P("b", "ref_inout", T, explicit=True)])]


@shape("bool_ptr", doc="clibrary.yaml checkBool")
def _(n, T):
    return [F(n, "void", [P("a", "val", "bool"), P("b", "ptr_out", "bool"), P("c", "ptr_inout", "bool", explicit=True)])]


@shape("arr_in", types=CORE_T, doc="pointers.yaml Sum / accumulate")
def _(n, T):
    return [F(n, T, [P("a", "arr_in", T, n="n"), P("n", "implied", "int", of="a")])]


@shape("arr_in_sizet", doc="pointers.yaml accumulate")
def _(n, T):
    return [F(n, "int", [P("a", "arr_in", "int", n="n"), P("n", "implied", "size_t", of="a")])]


@shape("arr_out", types=CORE_T, doc="pointers.yaml iota_dimension")
def _(n, T):
    return [F(n, "void", [P("n", "val", "int", role="count"), P("a", "arr_out", T, dim="n")])]


@shape("arr_out_fixed", types=CORE_T, doc="pointers.yaml fillIntArray")
def _(n, T):
    return [F(n, "void", [P("a", "arr_out_fixed", T, K=3)])]


@shape("arr_inout", types=CORE_T, doc="pointers.yaml incrementIntArray")
def _(n, T):
    return [F(n, "void", [P("a", "arr_inout", T, n="n"), P("n", "implied", "int", of="a")])]


@shape("cstr_in", doc="strings.yaml; docs/types.rst char")
def _(n, T):
    return [F(n, "int", [P("s", "cstr_in")])]


@shape("cstr_in_nc", wraps=("c", "fortran"), doc="strings.yaml explicit1: char *name +intent(in)")
def _(n, T):
    return [F(n, "int", [P("s", "cstr_in", nonconst=True)])]


@shape("cstr_out", doc="strings.yaml passCharPtr")
def _(n, T):
    return [F(n, "void", [P("d", "cstr_out", charlen=40), P("s", "cstr_in")])]


@shape("const_ptr_inout", types=["int", "double", "bool"], wraps=("c", "fortran"), doc="docs/input.rst intent: a pointer that is itself const (T * const) still points to writable data; the default intent is inout")
def _(n, T):
    return [F(n, "void", [P("a", "ptr_inout", T, cptr=True)]),
            F(n + "b", "int", [P("k", "val", "int"), P("s", "cstr_inout", cptr=True)])]


@shape("const_ptr_inout_str", langs=("c++",), wraps=("c", "fortran"), doc="docs/input.rst intent: std::string * const")
def _(n, T):
    return [F(n, "void", [P("s", "str_ptr_inout", cptr=True)]),
            F(n + "b", "int", [P("a", "ptr_in", "int"), P("s", "str_ptr_inout", cptr=True)])]


@shape("fixed_width", types=["uint16_t", "int16_t", "uint32_t", "uint64_t"], wraps=("c", "fortran"), doc="docs/types.rst fixed-width integers (types.yaml): by value, through pointers in every intent and in arrays")
def _(n, T):
    return [F(n, T, [P("a", "val", T), P("b", "ptr_inout", T), P("c", "ptr_out", T)]),
            F(n + "s", T, [P("v", "arr_in", T, n="n"), P("n", "implied", "int", of="v")]),
            F(n + "o", "void", [P("n", "val", "int", role="count"), P("v", "arr_out", T, dim="n")])]


@shape("cstr_inout", wraps=("c", "fortran"), doc="strings.yaml passCharPtrInOut")
def _(n, T):
    return [F(n, "void", [P("s", "cstr_inout")])]


@shape("cstr_res", doc="strings.yaml getCharPtr1")
def _(n, T):
    return [F(n, "cstr", [P("a", "val", "int")])]


@shape("cstr_res_len", doc="strings.yaml getCharPtr2")
def _(n, T):
    return [F(n, {"kind": "cstr_len", "N": 30}, [P("a", "val", "int")]),
            F(n + "x", {"kind": "cstr_len", "N": 24, "lenexpr": "3*8"}, [P("a", "val", "int")])]


@shape("str_cref", langs=("c++",), wraps=ALLW, doc="strings.yaml acceptStringConstReference")
def _(n, T):
    return [F(n, "int", [P("s", "str_cref")])]


@shape("str_val", langs=("c++",), doc="strings.yaml acceptStringInstance")
def _(n, T):
    return [F(n, "int", [P("s", "str_val")])]


@shape("str_ref_out", langs=("c++",), doc="strings.yaml acceptStringReferenceOut")
def _(n, T):
    return [F(n, "void", [P("s", "str_ref_out"), P("a", "val", "int")])]


@shape("str_ref_inout", langs=("c++",), doc="strings.yaml acceptStringReference")
def _(n, T):
    return [F(n, "void", [P("s", "str_ref_inout")])]


@shape("str_cptr", langs=("c++",), doc="strings.yaml acceptStringPointerConst")
def _(n, T):
    return [F(n, "int", [P("s", "str_cptr")])]


@shape("str_ptr_out", langs=("c++",), doc="strings.yaml fetchStringPointer")
def _(n, T):
    return [F(n, "void", [P("s", "str_ptr_out"), P("a", "val", "int")])]


@shape("str_ptr_inout", langs=("c++",), doc="strings.yaml acceptStringPointer")
def _(n, T):
    return [F(n, "void", [P("s", "str_ptr_inout")])]


@shape("str_two_out", langs=("c++",), doc="strings.yaml returnStrings")
def _(n, T):
    return [F(n, "void", [P("a", "str_ref_out"), P("b", "str_ref_out"), P("k", "val", "int")])]


@shape("str_res_val", langs=("c++",), wraps=("c", "fortran", "python"), doc="strings.yaml getConstStringResult")
def _(n, T):
    return [F(n, "str_val", [P("a", "val", "int")])]


@shape("str_res_cref", langs=("c++",), wraps=ALLW, doc="strings.yaml getConstStringRefPure")
def _(n, T):
    return [F(n, "str_cref", [P("a", "val", "int")])]


@shape("str_res_cref_len", langs=("c++",), doc="strings.yaml getConstStringRefLen")
def _(n, T):
    return [F(n, {"kind": "str_cref_len", "N": 30}, [P("a", "val", "int")]),
            F(n + "x", {"kind": "str_cref_len", "N": 20, "lenexpr": "4*5"}, [P("a", "val", "int")])]


@shape("str_concat", langs=("c++",), doc="tutorial.yaml ConcatenateStrings")
def _(n, T):
    return [F(n, "str_val", [P("a", "str_cref"), P("b", "str_cref")])]


@shape("vec_in", types=["int", "double", "int64_t", "long"], langs=("c++",), wraps=("c", "fortran", "python"), doc="vectors.yaml vector_sum (Python: PY_array_arg list)")
def _(n, T):
    # result type int for the fixed-width element types: the element type must then come from the vector alone
    return [F(n, T if T in ("int", "double") else "int", [P("v", "vec_in", T)])]


@shape("vec_out", types=["int", "double", "int32_t", "size_t"], langs=("c++",), wraps=("c", "fortran"), doc="vectors.yaml vector_iota_out")
def _(n, T):
    return [F(n, "void", [P("v", "vec_out", T), P("k", "val", "int")])]


@shape("vec_alloc", types=["int", "double"], langs=("c++",), wraps=("c", "fortran"), doc="vectors.yaml vector_iota_out_alloc / vector_iota_inout_alloc (+deref(allocatable))")
def _(n, T):
    return [F(n + "o", "void", [P("v", "vec_out", T, alloc=True)]),
            F(n + "io", "void", [P("v", "vec_inout", T, alloc=True)]),
            F(n + "kio", "int", [P("k", "val", "int"), P("v", "vec_inout", T, alloc=True)])]


@shape("vec_inout", types=["int"], langs=("c++",), wraps=("c", "fortran"), doc="vectors.yaml vector_increment")
def _(n, T):
    return [F(n, "void", [P("v", "vec_inout", T)])]


@shape("overload2", langs=("c++",), wraps=ALLW, doc="tutorial.yaml OverloadedFunction / UseDefaultOverload")
def _(n, T):
    return [F(n, "int", [P("a", "val", "int")], fid=n + "#i"), F(n, "int", [P("a", "val", "double"), P("b", "val", "int")], fid=n + "#di")]


@shape("overload_default_mixed", langs=("c++",), wraps=("c", "fortran", "lua"), doc="tutorial.yaml UseDefaultOverload: an overload with a default argument next to one of the same minimal arity, different argument and result types")
def _(n, T):
    return [F(n, "double", [P("a", "val", "int"), P("x", "val", "double", default="1.5")], fid=n + "#id"),
            F(n, "int", [P("flag", "val", "bool")], fid=n + "#b")]


@shape("overload_mixed_sfx", langs=("c++",), wraps=("c", "fortran"), doc="tutorial.yaml OverloadedFunction: an explicitly suffixed member declared before automatically numbered ones (the number is the position in the set)")
def _(n, T):
    return [F(n, "int", [P("a", "val", "int")], fid=n + "#i", yaml={"format": {"function_suffix": "_first"}}),
            F(n, "int", [P("a", "val", "double"), P("b", "val", "int")], fid=n + "#di"),
            F(n, "int", [P("a", "val", "long"), P("b", "val", "int"), P("c", "val", "int")], fid=n + "#lii")]


@shape("overload_sfx", langs=("c++",), wraps=ALLW, doc="tutorial.yaml OverloadedFunction")
def _(n, T):
    return [F(n, "void", [P("name", "str_cref")], fid=n + "#s", yaml={"format": {"function_suffix": "_from_name"}}),
            F(n, "void", [P("indx", "val", "int")], fid=n + "#i", yaml={"format": {"function_suffix": "_from_index"}})]


@shape("default2", langs=("c++",), wraps=ALLW, doc="tutorial.yaml UseDefaultArguments")
def _(n, T):
    return [F(n, "double", [P("a", "val", "double", default="3.25"), P("b", "val", "bool", default="true")])]


@shape("default3", langs=("c++",), wraps=ALLW, doc="tutorial.yaml UseDefaultOverload")
def _(n, T):
    return [F(n, "int", [P("a", "val", "int"), P("b", "val", "int", default="5"), P("c", "val", "int", default="12")])]


@shape("default_zero", langs=("c++",), wraps=ALLW, doc="docs/tutorial.rst default arguments: every default value is a zero (0, 0.0, false)")
def _(n, T):
    c = n + "_Z"
    return [F(n, "int", [P("a", "val", "int", default="0")]),
            F(n + "b", "double", [P("a", "val", "int"), P("x", "val", "double", default="0.0"), P("k", "val", "int", default="0")],
              yaml={"default_arg_suffix": ["_a", "_ax", "_axk"]}),
            F(c, "void", [P("flag", "val", "int", default="0")], cls=c, ctor=True, fid=c + "#ctor"),
            F("~", "void", [], cls=c, dtor=True, fid=c + "#dtor", dtor_name="delete"),
            F("add", "int", [P("v", "val", "int", default="0"), P("b", "val", "bool", default="false")], cls=c, fid=c + "#add")]


@shape("default_sfx", langs=("c++",), wraps=ALLW, doc="tutorial.yaml UseDefaultOverload default_arg_suffix")
def _(n, T):
    return [F(n, "int", [P("a", "val", "int"), P("b", "val", "int", default="0"), P("c", "val", "int", default="1")],
              yaml={"default_arg_suffix": ["_a", "_a_b", "_a_b_c"]})]


@shape("default_many", langs=("c++",), wraps=ALLW, doc="tutorial.yaml UseDefaultOverload (several required arguments before the defaulted ones)")
def _(n, T):
    return [F(n, "int", [P("a", "val", "int"), P("b", "val", "int"), P("c", "val", "int"), P("d", "val", "int", default="7"), P("e", "val", "int", default="11")])]


@shape("default_str", langs=("c++",), wraps=("c", "fortran", "python"), doc="tutorial.yaml / cxxlibrary.yaml: a defaulted std::string argument after a defaulted native one")
def _(n, T):
    return [F(n, "int", [P("a", "val", "int", default="1"), P("s", "str_cref", default='"none"')]),
            F(n + "b", "int", [P("a", "val", "int"), P("f", "val", "bool", default="true"), P("s", "str_cref", default='"x y"')])]


@shape("default_out", langs=("c++",), wraps=("c", "fortran", "python"), doc="cxxlibrary.yaml defaultArgsInOut (intent(out) argument before defaulted ones)")
def _(n, T):
    return [F(n, "int", [P("a", "val", "int"), P("st", "ptr_out", "int"), P("b", "val", "int", default="2"), P("c", "val", "int", default="9")])]


@shape("template_arg", langs=("c++",), wraps=("c", "fortran", "python"), doc="tutorial.yaml TemplateArgument; docs/templates.rst")
def _(n, T):
    return [F(n, "int", [P("arg", "val", "ArgType")], template=["int", "double"])]


@shape("generic_real", wraps=("c", "fortran"), doc="generic.yaml GenericReal; docs/fortran.rst")
def _(n, T):
    return [F(n, "int", [P("arg", "val", "double")],
              generic=[{"decl": "(float arg)", "function_suffix": "_float", "types": {"arg": "float"}},
                       {"decl": "(double arg)", "function_suffix": "_double", "types": {"arg": "double"}}])]


@shape("class_basic", langs=("c++",), wraps=ALLW, doc="docs/classes.rst; classes.yaml Class1")
def _(n, T):
    c = n + "_C"
    return [F(c, "void", [], cls=c, ctor=True, fid=c + "#ctor0", yaml={"format": {"function_suffix": "_default"}}),
            F(c, "void", [P("flag", "val", "int")], cls=c, ctor=True, fid=c + "#ctor1", yaml={"format": {"function_suffix": "_flag"}}),
            F("~", "void", [], cls=c, dtor=True, fid=c + "#dtor", dtor_name="delete"),
            F("get", "int", [], cls=c, fid=c + "#get"),
            F("add", "int", [P("a", "val", "int"), P("b", "val", "int")], cls=c, const=True, fid=c + "#add"),
            F("count", "int", [P("k", "val", "int")], cls=c, static=True, fid=c + "#count")]


@shape("class_out", langs=("c++",), wraps=("c", "fortran", "python"), doc="docs/classes.rst + pointers.yaml: const member functions with out / inout arguments in every position")
def _(n, T):
    c = n + "_C"
    return [F(c, "void", [], cls=c, ctor=True, fid=c + "#ctor0"),
            F("~", "void", [], cls=c, dtor=True, fid=c + "#dtor", dtor_name="delete"),
            F("fetch", "int", [P("a", "val", "int"), P("o", "ptr_out", "int")], cls=c, const=True, fid=c + "#fetch"),
            F("probe", "int", [P("o", "ptr_out", "int"), P("a", "val", "int")], cls=c, const=True, fid=c + "#probe"),
            F("scale", "double", [P("io", "ref_inout", "double", explicit=True), P("a", "val", "double")], cls=c, const=True, fid=c + "#scale"),
            F("both", "int", [P("o", "ptr_out", "int"), P("a", "val", "int"), P("q", "ptr_out", "double")], cls=c, fid=c + "#both")]


@shape("ptr_res_scalar", types=["int", "double"], wraps=("c", "fortran"), doc="pointers.yaml returnIntScalar (+deref(scalar))")
def _(n, T):
    return [F(n, {"kind": "ptr_scalar", "T": T}, [P("a", "val", "int")])]


@shape("extern_c", langs=("c++",), wraps=("c", "fortran"), doc="docs/reference.rst option C_extern_C (library function already has C linkage)")
def _(n, T):
    return [F(n + "a", "int", [P("a", "val", "int"), P("b", "val", "double")], extern_c=True),
            F(n + "p", {"kind": "ptr_scalar", "T": "int"}, [P("a", "val", "int")], extern_c=True),
            F(n + "s", "int", [P("s", "cstr_in")], extern_c=True)]


@shape("vec_res", types=["int", "double"], langs=("c++",), wraps=("c", "fortran", "python"), doc="vectors.yaml ReturnVectorAlloc (std::vector<T> result -> allocatable array / list)")
def _(n, T):
    return [F(n, {"kind": "vec_val", "T": T}, [P("a", "val", "int")])]


@shape("arr_res_dim2", types=["int", "double"], wraps=("c", "fortran"), doc="pointers.rst / ownership.yaml: pointer result with +dimension(expr, expr) as allocatable or pointer array")
def _(n, T):
    return [F(n + "a", {"kind": "arr_ptr", "T": T, "deref": "allocatable", "owner": "library", "dims": ["n+1", "m"]},
              [P("n", "val", "int", role="count"), P("m", "val", "int", role="count")]),
            F(n + "p", {"kind": "arr_ptr", "T": T, "deref": "pointer", "owner": "library", "dims": ["n", "m+2"]},
              [P("n", "val", "int", role="count"), P("m", "val", "int", role="count")]),
            F(n + "v", {"kind": "arr_ptr", "T": T, "deref": "allocatable", "owner": "library", "dims": ["2*n+1"]},
              [P("n", "val", "int", role="count")])]


@shape("ns_block", langs=("c++",), wraps=("c", "fortran"), doc="namespace.yaml / docs/namespaces.rst: declarations inside a namespace block get their own Fortran module and a scoped C name")
def _(n, T):
    return [F(n + "s", "int", [P("a", "val", "int")], ns=n + "_inner"),
            F(n + "r", "str_val", [P("a", "val", "int")], ns=n + "_inner"),
            F(n + "v", "void", [P("v", "vec_out", "int")], ns=n + "_inner"),
            F(n + "c", "cstr", [P("a", "val", "int")], ns=n + "_inner")]


@shape("arr_out_dim2", types=["int", "double"], wraps=("c", "fortran", "python"), doc="pointers.yaml: intent(out) array with +dimension(expr, expr) (list mode in Python: the wrapper allocates the product of the extents)")
def _(n, T):
    return [F(n, "void", [P("n", "val", "int", role="count"), P("m", "val", "int", role="count"), P("a", "arr_out", T, dims=["n+1", "m"])]),
            F(n + "b", "int", [P("n", "val", "int", role="count"), P("m", "val", "int", role="count"), P("a", "arr_out", T, dims=["n", "m-1+2"])])]


@shape("arr_res_dim2_py", types=["int", "double"], wraps=("python",), doc="pointers.yaml / ownership.yaml: pointer result and out argument with +dimension(expr, expr), list mode: a flat list of the product of the extents")
def _(n, T):
    return [F(n + "p", {"kind": "arr_ptr", "T": T, "deref": "pointer", "owner": "library", "dims": ["n+1", "m"]},
              [P("n", "val", "int", role="count"), P("m", "val", "int", role="count")])]


@shape("ptr_res_default", types=["int", "double"], wraps=("c", "fortran"), doc="pointers.yaml returnIntPtrToScalar (native pointer result without attributes: Fortran POINTER)")
def _(n, T):
    return [F(n, {"kind": "ptr_scalar", "T": T, "deref": None}, [P("a", "val", "int")])]


@shape("template_lua", langs=("c++",), wraps=("lua",), doc="docs/templates.rst + docs/lua.rst: function template instantiated for types Lua can tell apart (number / boolean); defaults on a template-typed and on a plain parameter")
def _(n, T):
    return [F(n + "t", {"kind": "val", "T": "long"}, [P("a", "val", "ArgType"), P("b", "val", "ArgType", default="1"), P("k", "val", "int", default="10")],
              template=["int", "bool"]),
            F(n + "u", {"kind": "val", "T": "int"}, [P("a", "val", "ArgType"), P("k", "val", "int")], template=["int", "bool"])]


@shape("template_ptr_res", langs=("c++",), wraps=("c", "fortran"), doc="templates.yaml + pointers.yaml: function template returning a pointer to its argument type")
def _(n, T):
    return [F(n, {"kind": "ptr_scalar", "T": "ArgType", "deref": None}, [P("a", "val", "ArgType")], template=["int", "double"])]


@shape("template_two", langs=("c++",), wraps=("c", "fortran"), doc="templates.yaml: function template with two type parameters (declaration order Value, Index)")
def _(n, T):
    return [F(n, {"kind": "val", "T": "Value"}, [P("v", "val", "Value"), P("k", "val", "Index")], tparams=["Value", "Index"],
              template=[["double", "int"], ["int", "long"], ["float", "short"]])]


@shape("str_then_char", langs=("c", "c++"), wraps=("c", "fortran"), doc="strings.yaml: a by-value char after a string argument")
def _(n, T):
    return [F(n + "a", "int", [P("s", "cstr_in"), P("c", "val", "char")]),
            F(n + "b", "void", [P("s", "cstr_inout"), P("c", "val", "char"), P("k", "val", "int")])]


@shape("stdstr_then_char", langs=("c++",), wraps=("c", "fortran"), doc="strings.yaml: a by-value char after a std::string argument")
def _(n, T):
    return [F(n + "a", "int", [P("s", "str_cref"), P("c", "val", "char")]),
            F(n + "b", "void", [P("s", "str_ref_inout"), P("c", "val", "char")]),
            F(n + "c", "void", [P("s", "str_ref_out"), P("k", "val", "int"), P("c", "val", "char")])]


@shape("str_then_callback", langs=("c", "c++"), wraps=("c", "fortran"), doc="callbacks.rst + strings.yaml: a function pointer argument (without +external) after / before a string argument")
def _(n, T):
    return [F(n + "a", "int", [P("s", "cstr_in"), P("fn", "fnptr")]),
            F(n + "b", "int", [P("fn", "fnptr"), P("s", "cstr_in")]),
            F(n + "c", "int", [P("k", "val", "int"), P("fn", "fnptr")])]


# result types of the wrapped function and of the callback differ (callbacks.rst: the abstract interface describes the callback)
@shape("callback_result_types", langs=("c", "c++"), wraps=("c", "fortran"), doc="callbacks.rst: callbacks returning long / double / int in functions returning double / int")
def _(n, T):
    return [F(n + "e", "double", [P("x", "val", "double"), P("fn", "fnptr", sig="l2")])]


@shape("callback_two", langs=("c", "c++"), wraps=("c", "fortran"), doc="callbacks.rst: two callbacks with different result types in one function")
def _(n, T):
    return [F(n + "f", "int", [P("fn", "fnptr", sig="d"), P("gn", "fnptr", sig="i")])]


@shape("callback_void_fn", langs=("c", "c++"), wraps=("c", "fortran"), doc="callbacks.rst: a void function taking a callback that returns a value")
def _(n, T):
    return [F(n + "d", "void", [P("k", "val", "int"), P("fn", "fnptr", sig="d")]),
            F(n + "g", "void", [P("fn", "fnptr", sig="i")])]


@shape("char_scalar", langs=("c", "c++"), wraps=("c", "fortran"), doc="clibrary.yaml / strings.yaml passChar, returnChar")
def _(n, T):
    return [F(n + "r", "char", [P("a", "val", "int")]),
            F(n + "a", "int", [P("c", "val", "char")]),
            F(n + "b", "char", [P("c", "val", "char"), P("k", "val", "int")])]


@shape("ns_scalar", langs=("c++",), wraps=("c", "fortran", "lua"), doc="namespace.yaml: scalar functions inside a namespace block (every language that flattens or scopes the name)")
def _(n, T):
    return [F(n + "a", "int", [P("a", "val", "int")], ns=n + "_inner"),
            F(n + "b", "double", [P("a", "val", "double"), P("b", "val", "int")], ns=n + "_inner")]


@shape("typedef_scoped", langs=("c++",), wraps=("c", "fortran"), doc="docs/typemaps.rst typedef + namespace.yaml: a typedef at global scope and a typedef of the same name inside a namespace that names another type")
def _(n, T):
    td = n + "_Idx"
    tds = [(None, td, "int"), (n + "_inner", td, "long")]
    return [F(n + "g", {"kind": "val", "T": "int", "spell": td}, [P("a", "val", "int", spell=td)], typedefs=tds),
            F(n + "h", {"kind": "val", "T": "long", "spell": td}, [P("a", "val", "long", spell=td), P("b", "val", "int")], ns=n + "_inner", typedefs=tds)]


@shape("typedef_plain", types=["long", "double", "unsigned int"], wraps=ALLW, doc="typedefs.yaml: a typedef of a native type used for arguments and results")
def _(n, T):
    td = n + "_Alias"
    tds = [(None, td, T)]
    return [F(n, {"kind": "val", "T": T, "spell": td}, [P("a", "val", T, spell=td), P("b", "val", "int")], typedefs=tds)]


@shape("class_const", langs=("c++",), wraps=("c",), doc="docs/classes.rst: const and non-const member functions, an overload pair that differs only in const, a const method declared first")
def _(n, T):
    c = n + "_C"
    return [F("peek", "int", [], cls=c, const=True, fid=c + "#peek"),
            F("poke", "int", [P("a", "val", "int")], cls=c, fid=c + "#poke"),
            F("which", "int", [], cls=c, fid=c + "#which_nonconst"),
            F("which", "int", [], cls=c, const=True, fid=c + "#which_const"),
            F(c, "void", [], cls=c, ctor=True, fid=c + "#ctor0"),
            F("~", "void", [], cls=c, dtor=True, fid=c + "#dtor", dtor_name="delete")]


@shape("class_arg_const", langs=("c++",), wraps=("c",), doc="docs/classes.rst class arguments (classes.yaml passClassByValue / useclass): const and non-const reference / pointer to an object; an overload pair that differs only in the constness of the class argument")
def _(n, T):
    c = n + "_B"
    return [F(c, "void", [], cls=c, ctor=True, fid=c + "#ctor0"),
            F("~", "void", [], cls=c, dtor=True, fid=c + "#dtor", dtor_name="delete"),
            F("peek", "int", [], cls=c, const=True, fid=c + "#peek"),
            F(n + "ins", "int", [P("b", "cls_cref", cls=c)], fid=n + "ins#const"),
            F(n + "ins", "int", [P("b", "cls_ref", cls=c)], fid=n + "ins#mutable"),
            F(n + "mix", "int", [P("k", "val", "int"), P("b", "cls_ref", cls=c)], fid=n + "mix#mutable"),
            F(n + "mix", "int", [P("k", "val", "int"), P("b", "cls_cref", cls=c)], fid=n + "mix#const"),
            F(n + "one", "int", [P("b", "cls_cptr", cls=c), P("k", "val", "int")])]


def instances(lang, wraps=None, need=None):
    out = []
    for s in SHAPES.values():
        if lang not in s["langs"]:
            continue
        if wraps and not set(wraps) <= set(s["wraps"]):
            continue
        for T in (s["types"] or [None]):
            out.append((s, T))
    return out


# ------------------------------------------------------------------ library builder

def tkey(T):
    return (T or "").replace(" ", "").replace("unsigned", "u").replace("_", "")


def build(name, lang, items, wraps, options=None, fmt=None, namespace=None):
    funcs = []
    for i, (s, T) in enumerate(items):
        stem = "f%d%s%s" % (i, s["id"].replace("_", ""), tkey(T))
        for f in s["build"](stem, T):
            f = copy.deepcopy(f)
            f["shape"] = s["id"]
            f.setdefault("fid", f["name"])
            funcs.append(f)
    funcs = expand_templates(funcs)
    opts = {"wrap_c": "c" in wraps, "wrap_fortran": "fortran" in wraps, "wrap_python": "python" in wraps,
            "wrap_lua": "lua" in wraps}
    if "python" in wraps:
        opts["PY_array_arg"] = "list"
    opts.update(options or {})
    lib = {"name": name, "language": lang, "functions": funcs, "options": opts, "format": dict(fmt or {}),
           "namespace": namespace, "wraps": list(wraps)}
    assign_names(lib)
    return lib


def expand_templates(funcs):
    """A function template is one YAML entry but several entry points; the subject library implements the
    template generically (explicit instantiations); the model treats each instantiation as its own function."""
    return funcs


def yaml_of(lib):
    """YAML dict for Shroud (templates / generics expressed through their YAML fields)."""
    lib2 = copy.deepcopy(lib)
    for f in lib2["functions"]:
        y = dict(f.get("yaml") or {})
        if f.get("template"):
            y["_tparams"] = list(f.get("tparams") or ["ArgType"])
            y["cxx_template"] = [{"instantiation": "<%s>" % ir.tlabel(t).replace(",", ", ")} for t in f["template"]]
        if f.get("generic"):
            y["fortran_generic"] = [{k: v for k, v in g.items() if k in ("decl", "function_suffix")} for g in f["generic"]]
        f["yaml"] = y
    d = ir.library_yaml(lib2)
    # function templates: declaration text with template<> prefix
    def fix(decls):
        for e in decls:
            if "cxx_template" in e and e.get("_tparams"):
                e["decl"] = "template<%s> " % ", ".join("typename " + x for x in e.pop("_tparams")) + e["decl"]
            e.pop("_tparams", None)
            if "declarations" in e:
                fix(e["declarations"])
    fix(d["declarations"])
    if lib.get("raw_decls"):
        # declarations outside the model (their own names are not judged): placed first, before everything modelled
        d["declarations"] = copy.deepcopy(lib["raw_decls"]) + d["declarations"]
    return d


# ------------------------------------------------------------------ documented naming model (docs/reference.rst)

def un_camel(text):
    out = []
    for i, ch in enumerate(text):
        if ch.isupper():
            prev_lower = i - 1 > 0 and text[i - 1].islower()
            next_lower = i - 1 > 0 and i + 1 < len(text) and text[i + 1].islower()
            out.append(("_" if (prev_lower or next_lower) else "") + ch.lower())
        else:
            out.append(ch)
    return "".join(out)


def assign_names(lib):
    """Attach the user-facing names the documentation promises:
    f['c_names'] = list of (C name, number of leading params used, template type or None)
    f['f_generic'], f['f_specifics']"""
    prefix = (lib.get("format") or {}).get("C_prefix") or (lib["name"].upper()[:3] + "_")
    lib["c_prefix"] = prefix
    # group by scope + C++ name
    groups = {}
    for f in lib["functions"]:
        if f.get("dtor"):
            continue
        groups.setdefault((f.get("cls"), f["name"], f.get("ns")), []).append(f)
    for (cls, name, nsb), fs in groups.items():
        # expansion order of generate.py as documented: for each declaration, variants with fewer trailing defaults
        # come first, then the declaration itself; explicit suffixes win; otherwise _<sequence number> when overloaded
        variants = []
        for f in fs:
            nd = [i for i, p in enumerate(f["params"]) if "default" in p]
            das = (f.get("yaml") or {}).get("default_arg_suffix")
            local = []
            for j, i in enumerate(nd):
                local.append({"f": f, "nparams": i, "explicit": das[j] if das and j < len(das) else None})
            fsfx = ((f.get("yaml") or {}).get("format") or {}).get("function_suffix")
            local.append({"f": f, "nparams": len(f["params"]),
                          "explicit": (das[len(nd)] if das and len(nd) < len(das) else None) if nd else fsfx})
            variants.extend(local)
        # function templates do not take part in the overload numbering: their instantiations are told apart by
        # the template suffix (docs/reference.rst template_suffix); constructors are numbered among themselves
        numbered = [v for v in variants if not v["f"].get("template")]
        overloaded = len(numbered) > 1
        seq = 0
        for v in variants:
            if v["f"].get("template"):
                v["suffix"] = v["explicit"] or ""
                continue
            if v["explicit"] is not None:
                v["suffix"] = v["explicit"] or ""
            elif overloaded:
                v["suffix"] = "_%d" % seq
            else:
                v["suffix"] = ""
            seq += 1
        for f in fs:
            f["variants"] = []
        for v in variants:
            f = v["f"]
            # a namespace block is part of the C name scope and gets its own Fortran module (docs/reference.rst
            # C_name_scope, F_module_name_namespace_template)
            scope = ((nsb + "_") if nsb else "") + ((cls + "_") if cls else "")
            under = un_camel(f["name"]) if not f.get("ctor") else "ctor"
            if f.get("ctor"):
                under = "ctor"
            insts = f.get("template") or [None]
            for ti, t in enumerate(insts):
                # one template argument: suffix from the type; several: the sequence number (docs/reference.rst template_suffix)
                tsfx = ("_%d" % ti if isinstance(t, (list, tuple)) else "_" + t.replace(" ", "_")) if t else ""
                gens = f.get("generic") or [None]
                # option C_extern_C: a library function that already has C linkage and needs no conversion is its
                # own C API (no wrapper is generated; Fortran binds to it directly)
                direct = (f.get("extern_c") and lib["language"] == "c++" and f["ret"]["kind"] in ("val", "void")
                          and all(p["kind"] in ("val", "cstr_in") for p in f["params"]))
                f["variants"].append({
                    "nparams": v["nparams"], "template": t,
                    "c_name": f["name"] if direct else prefix + scope + under + v["suffix"] + tsfx,
                    "f_specific": (((cls + "_") if cls else "").lower() + under + v["suffix"] + tsfx).lower(),
                    "f_generic": (cls.lower() if f.get("ctor") else under) if True else None,
                    "suffix": v["suffix"] + tsfx,
                    "generic": [g for g in gens if g],
                })
    for f in lib["functions"]:
        if f.get("dtor"):
            f["variants"] = [{"nparams": 0, "template": None, "c_name": prefix + f["cls"] + "_" + f.get("dtor_name", "delete"),
                              "f_specific": (f["cls"] + "_" + f.get("dtor_name", "delete")).lower(), "f_generic": f.get("dtor_name", "delete"),
                              "suffix": "", "generic": []}]


# ------------------------------------------------------------------ value battery and call plans

def int_battery(T):
    t = ir.TYPES[T]
    if t.get("char"):
        return [65, 32, 122, 48, 126]
    bits = t["bits"]
    if t["signed"]:
        return [0, 1, -1, 7, (1 << (bits - 1)) - 1, -(1 << (bits - 1)), 100]
    return [0, 1, 7, (1 << bits) - 1, 100, 1 << (bits - 1)]


REAL_BATTERY = {"float": [0.0, 1.0, -1.5, 3.25, 3.4028234663852886e+38, 1.401298464324817e-45, -0.0, 1024.5],
                "double": [0.0, 1.0, -1.5, 3.25, 1.7976931348623157e+308, 5e-324, -0.0, 1e10, 0.1]}
STR_BATTERY = ["", " ", "a", "a b ", "  lead", "hello world", "trail   ", "x" * 39, "   "]


def battery(T):
    k = ir.TYPES[T]["k"]
    if k == "i":
        return int_battery(T)
    if k == "r":
        return REAL_BATTERY[T]
    return [True, False]


def base_value(p, r):
    k, T = p["kind"], p.get("T")
    if p.get("role") == "count":
        return r.choice([3, 1, 5])
    if k in ("val", "ptr_in", "ptr_inout", "ref_inout"):
        b = battery(T)
        return b[min(3, len(b) - 1)] if ir.TYPES[T]["k"] != "b" else True
    if k in ("arr_in", "arr_inout", "vec_in", "vec_inout"):
        b = battery(T)
        return [b[i % len(b)] for i in range(3)]
    if k in ir.STR_KINDS:
        return "hello world"
    return None


def call_plan(lib, r, per_func=6, hostile=True):
    """List of calls: {"f": index, "variant": j, "args": {...}} covering base point + one-at-a-time battery."""
    plan = []
    for fi, f in enumerate(lib["functions"]):
        if f.get("cls"):
            continue           # object histories are planned separately
        if any(p["kind"] in ("cls_cptr", "cls_cref", "cls_ref") for p in f["params"]):
            continue           # needs live objects: planned with the object histories
        for vj, v in enumerate(f["variants"]):
            T = v["template"]
            ins = [p for p in f["params"][:v["nparams"]] if p["kind"] in ir.IN_KINDS and p["kind"] != "implied"]
            def ptype(p):
                return ir.tsub(p.get("T"), f, T)
            base = {}
            for p in ins:
                pp = dict(p, T=ptype(p))
                base[p["name"]] = base_value(pp, r)
            calls = [dict(base)]
            for p in ins:
                pp = dict(p, T=ptype(p))
                k = p["kind"]
                if p.get("role") == "count":
                    opts = [0, 1, 4]
                elif k in ("val", "ptr_in", "ptr_inout", "ref_inout"):
                    opts = battery(pp["T"])
                elif k in ("arr_in", "arr_inout", "vec_in", "vec_inout"):
                    b = battery(pp["T"])
                    opts = [[], [b[1 % len(b)]], [b[i % len(b)] for i in range(len(b))]]
                else:
                    opts = STR_BATTERY
                    if k == "cstr_inout":
                        opts = [s for s in STR_BATTERY]
                picks = opts if len(opts) <= per_func else r.sample(opts, per_func)
                for o in picks:
                    c = dict(base)
                    c[p["name"]] = o
                    calls.append(c)
            # de-duplicate
            seen = set()
            for c in calls:
                key = repr(sorted(c.items()))
                if key in seen:
                    continue
                seen.add(key)
                plan.append({"f": fi, "variant": vj, "args": c})
    return plan
