"""E2 generator (YAML side): libraries built from rows of the admitted-grammar table."""
from __future__ import annotations

import copy
import json

from .. import common, workloads
from . import rows as R


def _subst(obj, n, T):
    if isinstance(obj, str):
        s = obj.replace("{{", "\x00").replace("}}", "\x01")
        s = s.replace("{n}", n).replace("{T}", T or "")
        return s.replace("\x00", "{").replace("\x01", "}")
    if isinstance(obj, list):
        return [_subst(x, n, T) for x in obj]
    if isinstance(obj, dict):
        return {k: _subst(v, n, T) for k, v in obj.items() if k != "c_only_decl"}
    return obj


def instantiate(row, stem, T=None):
    """List of YAML declaration entries for one row."""
    return _subst(copy.deepcopy(row["decl"]), stem, T)


def tname(T):
    return (T or "").replace(" ", "_").replace("unsigned", "u")


def instances(lang=None, wraps=None):
    """All (row, T) instances valid for a language / wrapper set."""
    out = []
    for r in R.ROWS:
        if lang and lang not in r["langs"]:
            continue
        if wraps and not set(wraps) <= set(r["wraps"]):
            continue
        for T in (r["types"] or [None]):
            out.append((r, T))
    return out


def library(name, lang, items, wraps, options=None, fmt=None, namespace=None):
    """items: list of (row, T). Returns the YAML dict of a library description."""
    decls = []
    for i, (r, T) in enumerate(items):
        stem = "f%d%s%s" % (i, r["id"].replace("_", ""), tname(T).replace("_", ""))
        decls.extend(instantiate(r, stem, T))
    opts = {"wrap_c": "c" in wraps, "wrap_fortran": "fortran" in wraps,
            "wrap_python": "python" in wraps, "wrap_lua": "lua" in wraps}
    if "python" in wraps:
        opts["PY_array_arg"] = "list"
    opts.update(options or {})
    d = {"library": name, "cxx_header": name + (".hpp" if lang == "c++" else ".h"), "language": lang,
         "options": opts}
    if fmt:
        d["format"] = fmt
    if namespace:
        d["namespace"] = namespace
    d["declarations"] = decls
    return d


def spec_for(d, name, monitors=(), extra_argv=(), outdir="out"):
    text = workloads.dump_yaml(d)
    return {"name": name, "files": {"work/%s.yaml" % d["library"]: text}, "dirs": [outdir],
            "argv": ["--logdir", outdir, "--outdir", outdir] + list(extra_argv) + ["work/%s.yaml" % d["library"]],
            "monitors": list(monitors), "gen": {"lang": d["language"]}}


WRAPSETS = [("c", "fortran"), ("c", "fortran", "python"), ("c", "fortran", "python", "lua"), ("python",), ("lua",),
            ("c",)]


def libraries(thorough=False, count=None, salt="A"):
    """Yield (name, yaml-dict, meta). Small-first: every row instance alone in
    both languages it admits (with all wrappers it supports), then random combinations."""
    r = common.rng("libgen", salt)
    out = []
    for lang in ("c", "c++"):
        for row, T in instances(lang):
            name = "g%s_%s%s" % ("c" if lang == "c" else "x", row["id"].replace("_", ""), tname(T).replace("_", ""))
            out.append((name, library(name, lang, [(row, T)], row["wraps"]), {"rows": [row["id"]], "lang": lang}))
    n = count if count is not None else (120 if thorough else 24)
    for k in range(n):
        lang = r.choice(["c", "c++", "c++"])
        wraps = r.choice(WRAPSETS)
        pool_ = instances(lang, wraps)
        if not pool_:
            continue
        items = [r.choice(pool_) for _ in range(r.randint(2, 10))]
        opts = {}
        if r.random() < 0.3:
            opts["F_CFI"] = True
        if r.random() < 0.3:
            opts["debug"] = True
        if r.random() < 0.2:
            opts["doxygen"] = False
        if r.random() < 0.2:
            opts["F_create_bufferify_function"] = False if r.random() < 0.3 else True
        fmt = {}
        if r.random() < 0.3:
            fmt["C_prefix"] = r.choice(["ZZ_", "my", "Lib_"])
        ns = r.choice([None, None, "outer", "outer inner"]) if lang == "c++" else None
        name = "gmix%d" % k
        out.append((name, library(name, lang, items, wraps, opts, fmt, ns),
                    {"rows": [x[0]["id"] for x in items], "lang": lang, "wraps": wraps}))
    return out


def level_a_specs(monitors=(), thorough=False, count=None):
    return [spec_for(d, name, monitors) for name, d, meta in libraries(thorough, count)]
