"""E2 generator (YAML side): libraries built from rows of the admitted-grammar table."""
from __future__ import annotations

import copy
import json

from .. import common, workloads
from . import rows as R


def _subst(obj, n, T):
    if isinstance(obj, str):
        s = obj.replace("{{", "\x00").replace("}}", "\x01")
        s = s.replace("{n}", n).replace("{T}", T or "")
        return s.replace("\x00", "{").replace("\x01", "}")
    if isinstance(obj, list):
        return [_subst(x, n, T) for x in obj]
    if isinstance(obj, dict):
        return {k: _subst(v, n, T) for k, v in obj.items() if k != "c_only_decl"}
    return obj


def instantiate(row, stem, T=None):
    """List of YAML declaration entries for one row."""
    return _subst(copy.deepcopy(row["decl"]), stem, T)


def tname(T):
    return (T or "").replace(" ", "_").replace("unsigned", "u")


def instances(lang=None, wraps=None):
    """All (row, T) instances valid for a language / wrapper set."""
    out = []
    for r in R.ROWS:
        if lang and lang not in r["langs"]:
            continue
        if wraps and not set(wraps) <= set(r["wraps"]):
            continue
        for T in (r["types"] or [None]):
            out.append((r, T))
    return out


def library(name, lang, items, wraps, options=None, fmt=None, namespace=None):
    """items: list of (row, T). Returns the YAML dict of a library description."""
    decls = []
    for i, (r, T) in enumerate(items):
        stem = "f%d%s%s" % (i, r["id"].replace("_", ""), tname(T).replace("_", ""))
        decls.extend(instantiate(r, stem, T))
    opts = {"wrap_c": "c" in wraps, "wrap_fortran": "fortran" in wraps,
            "wrap_python": "python" in wraps, "wrap_lua": "lua" in wraps}
    if "python" in wraps:
        opts["PY_array_arg"] = "list"
    opts.update(options or {})
    d = {"library": name, "cxx_header": name + (".hpp" if lang == "c++" else ".h"), "language": lang,
         "options": opts}
    if fmt:
        d["format"] = fmt
    if namespace:
        d["namespace"] = namespace
    d["declarations"] = decls
    return d


def spec_for(d, name, monitors=(), extra_argv=(), outdir="out"):
    text = workloads.dump_yaml(d)
    return {"name": name, "files": {"work/%s.yaml" % d["library"]: text}, "dirs": [outdir],
            "argv": ["--logdir", outdir, "--outdir", outdir] + list(extra_argv) + ["work/%s.yaml" % d["library"]],
            "monitors": list(monitors), "gen": {"lang": d["language"]}}


WRAPSETS = [("c", "fortran"), ("c", "fortran", "python"), ("c", "fortran", "python", "lua"), ("python",), ("lua",),
            ("c",)]


def libraries(thorough=False, count=None, salt="A"):
    """Yield (name, yaml-dict, meta). Small-first: every row instance alone in
    both languages it admits (with all wrappers it supports), then random combinations."""
    r = common.rng("libgen", salt)
    out = []
    for lang in ("c", "c++"):
        for row, T in instances(lang):
            name = "g%s_%s%s" % ("c" if lang == "c" else "x", row["id"].replace("_", ""), tname(T).replace("_", ""))
            out.append((name, library(name, lang, [(row, T)], row["wraps"]), {"rows": [row["id"]], "lang": lang}))
    n = count if count is not None else (120 if thorough else 24)
    for k in range(n):
        lang = r.choice(["c", "c++", "c++"])
        wraps = r.choice(WRAPSETS)
        pool_ = instances(lang, wraps)
        if not pool_:
            continue
        items = [r.choice(pool_) for _ in range(r.randint(2, 10))]
        opts = {}
        if r.random() < 0.3:
            opts["F_CFI"] = True
        if r.random() < 0.3:
            opts["debug"] = True
        if r.random() < 0.2:
            opts["doxygen"] = False
        if r.random() < 0.2:
            opts["F_create_bufferify_function"] = False if r.random() < 0.3 else True
        fmt = {}
        if r.random() < 0.3:
            fmt["C_prefix"] = r.choice(["ZZ_", "my", "Lib_"])
        ns = r.choice([None, None, "outer", "outer inner"]) if lang == "c++" else None
        name = "gmix%d" % k
        out.append((name, library(name, lang, items, wraps, opts, fmt, ns),
                    {"rows": [x[0]["id"] for x in items], "lang": lang, "wraps": wraps}))
    return out


def level_a_specs(monitors=(), thorough=False, count=None):
    return [spec_for(d, name, monitors) for name, d, meta in libraries(thorough, count)]


# ------------------------------------------------------------------ long argument names (C13: 132-column limit)

_ATTR_WITH_NAMES = ("implied", "dimension", "len", "size", "charlen")
_KEYWORDS = {"void", "int", "long", "short", "char", "double", "float", "bool", "const", "unsigned", "signed", "size_t"}


def _split_top(s, sep=","):
    out, cur, depth = [], "", 0
    for ch in s:
        if ch in "(<[":
            depth += 1
        elif ch in ")>]":
            depth -= 1
        if ch == sep and depth == 0:
            out.append(cur)
            cur = ""
        else:
            cur += ch
    out.append(cur)
    return out


def long_names_decl(decl, length):
    """The declaration with every parameter renamed to an identifier of `length` characters (references to the
    parameters inside implied / dimension / len expressions follow).  None when the text is not a plain function
    declaration this light-weight reader understands."""
    import re
    if decl.lstrip().startswith(("class", "struct", "enum", "typedef", "namespace", "template", "~")):
        return None
    i = decl.find("(")
    if i < 0:
        return None
    depth = 0
    j = None
    for k in range(i, len(decl)):
        if decl[k] == "(":
            depth += 1
        elif decl[k] == ")":
            depth -= 1
            if depth == 0:
                j = k
                break
    if j is None:
        return None
    plist = decl[i + 1:j]
    if not plist.strip() or plist.strip() == "void":
        return None
    params = _split_top(plist)
    names = []
    for p in params:
        core = re.split(r"\s\+|=", p, 1)[0].strip()
        if "(" in core:                      # function pointer parameter
            return None
        m = re.search(r"([A-Za-z_]\w*)\s*(\[[^\]]*\])?$", core)
        if not m or m.group(1) in _KEYWORDS:
            return None
        names.append(m.group(1))
    if len(set(names)) != len(names):
        return None
    new = {}
    for n in names:
        base = "%s_long_argument_name_for_the_column_limit_%s" % (n, "x" * 63)
        new[n] = base[:max(length, len(n) + 2)]
    def attr(m):
        if m.group(1) not in _ATTR_WITH_NAMES:
            return m.group(0)
        return "+%s(%s)" % (m.group(1), re.sub(r"\b([A-Za-z_]\w*)\b", lambda x: new.get(x.group(1), x.group(1)), m.group(2)))
    attr_re = r"\+(\w+)\(((?:[^()]|\([^()]*\))*)\)"
    out = []
    for p, n in zip(params, names):
        parts = re.split(r"(\s\+|=)", p, 1)
        core = parts[0]
        rest = "".join(parts[1:])
        k = core.rfind(n)
        core = core[:k] + new[n] + core[k + len(n):]
        out.append(core + re.sub(attr_re, attr, rest))
    return decl[:i + 1] + ",".join(out) + ")" + re.sub(attr_re, attr, decl[j + 1:])


def long_names(d, length):
    """Copy of a library description with long parameter names; returns (dict, number of declarations renamed)."""
    d = copy.deepcopy(d)
    n = 0

    def walk(decls):
        nonlocal n
        for e in decls:
            if not isinstance(e, dict):
                continue
            if "declarations" in e and isinstance(e["declarations"], list):
                walk(e["declarations"])
            if isinstance(e.get("decl"), str) and not any(k in e for k in ("fortran_generic", "attrs", "splicer", "fstatements", "cxx_template")):
                nd = long_names_decl(e["decl"], length)
                if nd is not None:
                    e["decl"] = nd
                    n += 1
    walk(d.get("declarations") or [])
    return d, n
