"""Admitted-grammar table (E2): each row is one documented declaration pattern.

A row is a dict:
  id      unique name
  decl    list of YAML declaration entries (dicts with at least 'decl'); '{n}' is
          replaced by a unique stem, '{T}' by a type from 'types'
  types   list of native types to instantiate '{T}' over (optional)
  langs   languages of the wrapped library for which the row is valid
  wraps   wrappers that support the row: subset of c, fortran, python, lua
  doc     where the pattern is documented (docs/*.rst or upstream regression input)
"""

INT_TYPES = ["int", "long", "short", "long long", "unsigned int", "size_t", "int32_t", "int64_t"]
REAL_TYPES = ["float", "double"]
NUM = ["int", "long", "double", "float", "short", "long long", "unsigned int", "size_t", "int32_t", "int64_t"]
CORE = ["int", "double", "long", "float"]

ALLW = ("c", "fortran", "python", "lua")
CFP = ("c", "fortran", "python")
CF = ("c", "fortran")
BOTH = ("c", "c++")
CXX = ("c++",)

ROWS = []


def row(id, decl, types=None, langs=BOTH, wraps=CFP, doc="", **kw):
    if isinstance(decl, (str, dict)):
        decl = [decl]
    decl = [d if isinstance(d, dict) else {"decl": d} for d in decl]
    r = dict(id=id, decl=decl, types=types, langs=langs, wraps=wraps, doc=doc)
    r.update(kw)
    ROWS.append(r)


# ---- scalars
row("void0", "void {n}(void)", wraps=ALLW, doc="docs/tutorial.rst NoReturnNoArguments")
row("scalar2", "{T} {n}({T} a, {T} b)", types=NUM, wraps=ALLW, doc="docs/tutorial.rst PassByValue; docs/types.rst")
row("mixed", "double {n}(double a, int b)", wraps=ALLW, doc="docs/tutorial.rst PassByValue")
row("bool1", "bool {n}(bool a)", wraps=ALLW, doc="docs/types.rst Bool; regression clibrary.yaml")
row("char1", "char {n}(char a)", wraps=CFP, doc="regression strings.yaml passChar/returnChar")
# ---- pointers to scalars
row("ptr_in", "{T} {n}(const {T} *a)", types=CORE, doc="docs/pointers.rst; pointers.yaml intargs_in")
row("ptr_inout", "void {n}({T} *a)", types=CORE, doc="pointers.yaml intargs_inout")
row("ptr_out", "void {n}({T} *a +intent(out))", types=CORE, doc="pointers.yaml intargs_out")
row("ptr_mixed", "void {n}(const int a +intent(in), int *b +intent(inout), int *c +intent(out))",
    doc="pointers.yaml intargs")
row("ref_out", "void {n}({T} &a +intent(out), {T} &b +intent(inout))", types=CORE, langs=CXX,
    doc="tutorial.yaml getMinMax")
row("bool_ptr", "void {n}(const bool a, bool *b +intent(out), bool *c +intent(inout))",
    doc="clibrary.yaml checkBool")
# ---- arrays
row("arr_in", "{T} {n}(const {T} *a +rank(1), int n +implied(size(a)))", types=CORE,
    doc="pointers.yaml Sum/accumulate")
# implied values that are expressions with literals / several arguments (docs/fortran.rst, attribute implied)
row("implied_expr", [{"decl": "int {n}(int first, int count, int last +implied(first+count-1))"},
                     {"decl": "int {n}b(const int *v +rank(1), int twice +implied(2*size(v)))"},
                     {"decl": "int {n}c(double x, int eight +implied(8))"},
                     {"decl": "int {n}d(const char *text, int ltext +implied(len(text)+1))"}], wraps=CF,
    doc="docs/fortran.rst implied; pointers.yaml Sum")
row("arr_in_sizet", "int {n}(const int *a +rank(1), size_t n +implied(size(a)))", doc="pointers.yaml accumulate")
row("arr_out_dim", "void {n}(int n, {T} *a +intent(out)+dimension(n))", types=CORE,
    doc="pointers.yaml iota_dimension")
row("arr_out_fixed", "void {n}({T} *a +intent(out)+dimension(3))", types=CORE, doc="pointers.yaml fillIntArray")
row("arr_inout", "void {n}({T} *a +rank(1)+intent(inout), int n +implied(size(a)))", types=CORE,
    doc="pointers.yaml incrementIntArray")
row("arr_out_alloc", "void {n}(int n, {T} *a +intent(out)+deref(allocatable)+dimension(n))", types=["int", "double"],
    doc="pointers.yaml iota_allocatable")
row("arr_in_out_sized", "void {n}(double *in +intent(in)+rank(1), double *out +intent(out)+deref(allocatable)+dimension(size(in)), int n +implied(size(in)))",
    doc="pointers.yaml cos_doubles")
row("arr_2d_in", "void {n}(const int *a +dimension(10,20))", wraps=CF, doc="pointers.yaml DimensionIn")
row("pp_out_scalar", "void {n}(int **a +intent(out))", wraps=CF, doc="pointers.yaml getPtrToScalar")
row("pp_out_fixed", "void {n}(int **a +intent(out)+dimension(10))", wraps=CF, doc="pointers.yaml getPtrToFixedArray")
row("pp_out_dyn", "void {n}(int **a +intent(out)+dimension(na), int *na +intent(out)+hidden)", wraps=CF,
    doc="pointers.yaml getPtrToDynamicArray")
row("pp_out_raw", "void {n}(int **a +intent(out)+deref(raw))", wraps=CF, doc="pointers.yaml getRawPtrToScalar")
row("voidp", "void *{n}(int flag)", wraps=CF, doc="pointers.yaml returnAddress1")
row("voidpp_out", "void {n}(void **addr +intent(out))", wraps=CF, doc="pointers.yaml fetchVoidPtr")
# ---- pointer results
row("res_ptr_scalar", "int *{n}(void)", wraps=CFP, doc="pointers.yaml returnIntPtrToScalar")
row("res_ptr_fixed", "{T} *{n}(void) +dimension(10)", types=["int", "double"], wraps=CF,
    doc="pointers.yaml returnIntPtrToFixedArray")
row("res_ptr_deref_scalar", "int *{n}(void) +deref(scalar)", wraps=CF, doc="pointers.yaml returnIntScalar")
row("res_ptr_raw", "int *{n}(void) +deref(raw)", wraps=CF, doc="pointers.yaml returnIntRaw")
row("res_const_ptr", "const int *{n}(void)", wraps=CF, doc="pointers.yaml returnIntPtrToConstScalar")
# ---- char*
row("cstr_in", "int {n}(const char *s)", wraps=ALLW, doc="docs/types.rst char; strings.yaml")
row("cstr_out", "void {n}(char *d +intent(out)+charlen(40), const char *s)", doc="strings.yaml passCharPtr")
row("cstr_inout", "void {n}(char *s +intent(inout))", doc="strings.yaml passCharPtrInOut")
row("cstr_res", "const char *{n}(void)", wraps=ALLW, doc="strings.yaml getCharPtr1")
row("cstr_res_len", "const char *{n}(void) +len(30)", doc="strings.yaml getCharPtr2")
row("cstr_res_asarg", {"decl": "const char *{n}(void)", "format": {"F_string_result_as_arg": "output"}},
    wraps=CF, doc="strings.yaml getCharPtr3")
row("cstr_res_raw", "const char *{n}(void) +deref(raw)", wraps=CF, doc="strings.yaml getCharPtr4")
row("charpp_in", "int {n}(char **names +intent(in))", wraps=CFP, doc="pointers.yaml acceptCharArrayIn")
# ---- std::string
row("str_cref", "int {n}(const std::string &s)", langs=CXX, wraps=ALLW, doc="strings.yaml acceptStringConstReference")
row("str_val", "int {n}(std::string s)", langs=CXX, doc="strings.yaml acceptStringInstance")
row("str_ref_out", "void {n}(std::string &s +intent(out))", langs=CXX, doc="strings.yaml acceptStringReferenceOut")
row("str_ref_inout", "void {n}(std::string &s)", langs=CXX, doc="strings.yaml acceptStringReference")
row("str_cptr", "int {n}(const std::string *s)", langs=CXX, doc="strings.yaml acceptStringPointerConst")
row("str_ptr_inout", "void {n}(std::string *s)", langs=CXX, doc="strings.yaml acceptStringPointer")
row("str_ptr_out", "void {n}(std::string *s +intent(out))", langs=CXX, doc="strings.yaml fetchStringPointer")
row("str_two_out", "void {n}(std::string &a +intent(out), std::string &b +intent(out))", langs=CXX,
    doc="strings.yaml returnStrings")
row("str_res_val", "const std::string {n}(void)", langs=CXX, doc="strings.yaml getConstStringResult")
row("str_res_len", "const std::string {n}(void) +len(30)", langs=CXX, doc="strings.yaml getConstStringLen")
row("str_res_cref", "const std::string &{n}(void)", langs=CXX, wraps=ALLW, doc="strings.yaml getConstStringRefPure")
row("str_res_cref_len", "const std::string &{n}(void) +len(30)", langs=CXX, doc="strings.yaml getConstStringRefLen")
row("str_res_ptr_lib", "const std::string *{n}(void) +owner(library)", langs=CXX, wraps=CF,
    doc="strings.yaml getConstStringPtrAlloc")
row("str_res_ptr_caller", "const std::string *{n}(void) +owner(caller)", langs=CXX, wraps=CF,
    doc="strings.yaml getConstStringPtrOwnsAlloc")
row("str_res_asarg", {"decl": "const std::string &{n}(void)", "format": {"F_string_result_as_arg": "output"}},
    langs=CXX, wraps=CF, doc="strings.yaml getConstStringRefAsArg")
row("str_concat", "const std::string {n}(const std::string &a, const std::string &b)", langs=CXX,
    doc="tutorial.yaml ConcatenateStrings")
# ---- std::vector
row("vec_in", "{T} {n}(const std::vector<{T}> &v)", types=["int", "double"], langs=CXX, doc="vectors.yaml vector_sum")
row("vec_out", "void {n}(std::vector<{T}> &v +intent(out))", types=["int", "double"], langs=CXX,
    doc="vectors.yaml vector_iota_out")
row("vec_out_alloc", "void {n}(std::vector<int> &v +intent(out)+deref(allocatable))", langs=CXX, wraps=CF,
    doc="vectors.yaml vector_iota_out_alloc")
row("vec_inout", "void {n}(std::vector<int> &v)", langs=CXX, wraps=CF, doc="vectors.yaml vector_increment")
row("vec_inout_alloc", "void {n}(std::vector<int> &v +intent(inout)+deref(allocatable))", langs=CXX, wraps=CF,
    doc="vectors.yaml vector_iota_inout_alloc")
row("vec_str_in", "int {n}(const std::vector<std::string> &v)", langs=CXX, wraps=CF,
    doc="vectors.yaml vector_string_count")
row("vec_res", "std::vector<int> {n}(int n)", langs=CXX, wraps=CF, doc="vectors.yaml ReturnVectorAlloc")
# ---- enums / typedef
row("enum_fn", [{"decl": "enum {n}_Color {{ {n}_RED, {n}_BLUE = 5, {n}_WHITE }}"},
                {"decl": "{n}_Color {n}({n}_Color c)", "c_only_decl": "enum {n}_Color {n}(enum {n}_Color c)"}],
    wraps=CFP, doc="tutorial.yaml colorfunc; enum.yaml")
# several user types whose header is the same for C and C++ (docs/typemaps.rst fields c_header / cxx_header): the
# generated header needs all of them at once, in declaration order
row("typedef_headers", [{"decl": "typedef int {n}_A", "fields": {"c_header": "{n}_alpha.h", "cxx_header": "{n}_alpha.h"}},
                        {"decl": "typedef int {n}_B", "fields": {"c_header": "{n}_beta.h", "cxx_header": "{n}_beta.h"}},
                        {"decl": "typedef double {n}_C", "fields": {"c_header": "{n}_gamma.h", "cxx_header": "{n}_gamma.h"}},
                        {"decl": "typedef long {n}_D", "fields": {"c_header": "{n}_delta.h", "cxx_header": "{n}_delta.h"}},
                        {"decl": "typedef int {n}_E", "fields": {"c_header": "{n}_eps.h", "cxx_header": "{n}_eps.hpp"}},
                        {"decl": "{n}_A {n}({n}_B b, {n}_C c, {n}_D d, {n}_E e, {n}_A a)"}], wraps=CF,
    doc="docs/typemaps.rst; regression include.yaml CustomType")
row("typedef_fn", [{"decl": "typedef int {n}_ID"}, {"decl": "{n}_ID {n}({n}_ID a)"}], wraps=CFP,
    doc="tutorial.yaml typefunc")
# ---- struct
row("struct_fn", [{"decl": "struct {n}_S {{ int i; double d; }};"},
                  {"decl": "int {n}_byval({n}_S s)", "c_only_decl": "int {n}_byval(struct {n}_S s)"},
                  {"decl": "int {n}_in(const {n}_S *s)", "c_only_decl": "int {n}_in(const struct {n}_S *s)"},
                  {"decl": "void {n}_out({n}_S *s +intent(out), int i, double d)",
                   "c_only_decl": "void {n}_out(struct {n}_S *s +intent(out), int i, double d)"},
                  {"decl": "void {n}_inout({n}_S *s +intent(inout))",
                   "c_only_decl": "void {n}_inout(struct {n}_S *s +intent(inout))"},
                  {"decl": "{n}_S {n}_ret(int i, double d)", "c_only_decl": "struct {n}_S {n}_ret(int i, double d)"}],
    wraps=CF, doc="docs/struct.rst; struct.yaml")
# a struct whose only C_PTR-typed parts are its own pointer members (struct.yaml Cstruct_ptr: "char *cfield; const double *const_dvalue")
row("struct_ptr_member", [{"decl": "struct {n}_S {{ int n; double *vals; const char *label; }};"},
                          {"decl": "int {n}_count(int k)"}],
    wraps=CF, doc="docs/struct.rst; struct.yaml Cstruct_ptr (pointer members)")
row("struct_ptr_member_only", [{"decl": "struct {n}_S {{ const int *first; }};"}],
    wraps=CF, doc="docs/struct.rst; struct.yaml Cstruct_ptr (pointer members)")
# ---- overloads / defaults / templates / generic
row("overload2", [{"decl": "int {n}(int a)"}, {"decl": "int {n}(double a, int b)"}], langs=CXX, wraps=ALLW,
    doc="tutorial.yaml OverloadedFunction / UseDefaultOverload")
row("overload_sfx", [{"decl": "void {n}(const std::string &name)", "format": {"function_suffix": "_from_name"}},
                     {"decl": "void {n}(int indx)", "format": {"function_suffix": "_from_index"}}],
    langs=CXX, wraps=ALLW, doc="tutorial.yaml OverloadedFunction")
row("default2", "double {n}(double a = 3.1415, bool b = true)", langs=CXX, wraps=ALLW,
    doc="tutorial.yaml UseDefaultArguments")
row("default_sfx", {"decl": "int {n}(int a, int b = 0, int c = 1)",
                    "default_arg_suffix": ["_a", "_a_b", "_a_b_c"]}, langs=CXX, wraps=ALLW,
    doc="tutorial.yaml UseDefaultOverload")
row("default_overload", [{"decl": "int {n}(int num, int offset = 0, int stride = 1)"},
                         {"decl": "int {n}(double type, int num, int offset = 0, int stride = 1)"}],
    langs=CXX, wraps=ALLW, doc="tutorial.yaml UseDefaultOverload")
row("template_arg", {"decl": "template<typename ArgType> void {n}(ArgType arg)",
                     "cxx_template": [{"instantiation": "<int>"}, {"instantiation": "<double>"}]},
    langs=CXX, wraps=CFP, doc="tutorial.yaml TemplateArgument; docs/templates.rst")
row("template_ret", {"decl": "template<typename RetType> RetType {n}()",
                     "cxx_template": [{"instantiation": "<int>"}, {"instantiation": "<double>"}]},
    langs=CXX, wraps=CF, doc="tutorial.yaml TemplateReturn")
row("generic_real", {"decl": "void {n}(double arg)",
                     "fortran_generic": [{"decl": "(float arg)", "function_suffix": "_float"},
                                         {"decl": "(double arg)", "function_suffix": "_double"}]},
    wraps=CF, doc="generic.yaml GenericReal; docs/fortran.rst")
row("generic_rank_scalar", {"decl": "void {n}(double factor, int *values, int nvalues)",
                            "fortran_generic": [{"decl": "(double factor, int *values)", "function_suffix": "_scalar"},
                                                {"decl": "(float factor, int *values +rank(1))", "function_suffix": "_float_array"},
                                                {"decl": "(double factor, int *values +rank(1))", "function_suffix": "_array"}]},
    wraps=CF, doc="generic.yaml AssignValues / SavePointer: entries that differ in rank (each scalar / array pattern gets its own bind(C) interface) and in the type of a by-value scalar")
row("generic_attrs", {"decl": "void {n}(double *a +rank(1)+intent(inout), int n +implied(size(a)), double f)",
                      "fortran_generic": [{"decl": "(float f)"}, {"decl": "(double f)"}]},
    wraps=CF, doc="generic.yaml + docs/fortran.rst: fortran_generic variants of a function whose other arguments carry attributes")
row("generic_nosfx", {"decl": "long {n}(long a, long b)",
                      "fortran_generic": [{"decl": "(int a, int b)"}, {"decl": "(long a, long b)"}]},
    wraps=CF, doc="generic.yaml GenericReal2")
row("assumed_rank", {"decl": "int {n}(int *data +intent(in)+dimension(..))",
                     "options": {"F_assumed_rank_max": 2}}, wraps=CF, doc="generic.yaml SumValues")
# ---- classes
row("class_basic", {"decl": "class {n}_C", "declarations": [
        {"decl": "{n}_C()", "format": {"function_suffix": "_default"}},
        {"decl": "{n}_C(int flag)", "format": {"function_suffix": "_flag"}},
        {"decl": "~{n}_C() +name(delete)"},
        {"decl": "int get()"},
        {"decl": "void set(int v)"},
        {"decl": "int add(int a, int b = 2) const"},
        {"decl": "static int count()"},
    ]}, langs=CXX, wraps=ALLW, doc="docs/classes.rst; classes.yaml Class1")
row("class_named", {"decl": "class {n}_N", "declarations": [
        {"decl": "{n}_N() +name(new)"},
        {"decl": "{n}_N(int flag) +name(new_flag)"},
        {"decl": "~{n}_N() +name(destroy)"},
        {"decl": "int value() const"},
    ]}, langs=CXX, wraps=ALLW, doc="docs/tutorial.rst Class1() +name(new), ~Class1() +name(delete)")
# many overloads with long (but legal, < 40 character) names: the type-bound generic line lists every specific
row("class_long_overloads", {"decl": "class {n}_SB", "declarations": [
        {"decl": "{n}_SB()"},
        {"decl": "void record_calibrated_measurement(int value)"},
        {"decl": "void record_calibrated_measurement(double value)"},
        {"decl": "void record_calibrated_measurement(int value, int channel)"},
        {"decl": "void record_calibrated_measurement(double value, int channel)"},
        {"decl": "void record_calibrated_measurement(long value, int channel, int flags)"},
        {"decl": "void record_calibrated_measurement(float value, int channel, int flags, int extra)"},
    ]}, langs=CXX, wraps=CF, doc="docs/classes.rst, docs/fortran.rst (type-bound generic of overloaded methods)")
row("class_args", [{"decl": "class {n}_K", "declarations": [
        {"decl": "{n}_K()"},
        {"decl": "~{n}_K() +name(dtor)"},
        {"decl": "int value() const"},
        {"decl": "bool same(const {n}_K &other) const"},
        {"decl": "const std::string &name()"},
    ]},
    {"decl": "int {n}_use(const {n}_K *arg)"},
    {"decl": "{n}_K *{n}_getptr()"},
    {"decl": "const {n}_K &{n}_getref()"},
    {"decl": "{n}_K {n}_copy(int flag)"},
    {"decl": "void {n}_byval({n}_K arg)"},
    ], langs=CXX, wraps=CF, doc="classes.yaml useclass/getclass3/getClassCopy/passClassByValue")
row("class_member", {"decl": "class {n}_M", "declarations": [
        {"decl": "int m_flag +readonly;"},
        {"decl": "int m_test +name(test);"},
        {"decl": "{n}_M()"},
    ]}, langs=CXX, wraps=CFP, doc="classes.yaml Class1 m_flag / m_test")
row("enum_expr", [{"decl": "enum {n}_Access {{ {n}_READ = 1, {n}_WRITE = 2, {n}_RW = {n}_READ + {n}_WRITE }}"},
                  {"decl": "enum {n}_Level {{ {n}_LO = -3, {n}_MID = ({n}_LO + 7) * 2, {n}_HI }}"},
                  ],
    wraps=CF, doc="enum.yaml: enumerators whose value is an expression over earlier enumerators, also as the last one")
row("enum_expr_scoped", [{"decl": "enum class {n}_Phase {{ SOLID = 10, LIQUID = SOLID * 2, GAS = LIQUID + SOLID }}"}],
    langs=CXX, wraps=CF, doc="enum.yaml / scope.yaml: scoped enumeration with expression values")
row("class_enum", {"decl": "class {n}_E", "declarations": [
        {"decl": "enum DIRECTION {{ UP = 2, DOWN, LEFT = 100, RIGHT }};"},
        {"decl": "{n}_E()"},
        {"decl": "DIRECTION dir(DIRECTION arg)"},
    ]}, langs=CXX, wraps=CFP, doc="classes.yaml Class1::DIRECTION")
row("class_enum_member", [{"decl": "enum {n}_MeasurementCalibrationState {{ {n}_UNCALIBRATED, {n}_CALIBRATED = 4 }}"},
    {"decl": "class {n}_EM", "declarations": [
        {"decl": "enum Mode {{ FAST = 1, SAFE }};"},
        {"decl": "{n}_EM()"},
        {"decl": "Mode m_mode;"},
        {"decl": "{n}_MeasurementCalibrationState m_calibration_state_of_sensor;"},
        {"decl": "int m_count;"},
    ]}], langs=CXX, wraps=CF, doc="classes.yaml member variables + enum.yaml: class members whose type is an enumeration (getter and setter)")
row("namespace_fn", {"decl": "namespace {n}_ns", "declarations": [
        {"decl": "int {n}_inner(int a)"},
        {"decl": "namespace {n}_deep", "declarations": [{"decl": "void {n}_deepfn(double *x +intent(out))"}]},
    ]}, langs=CXX, wraps=CFP, doc="docs/namespaces.rst; namespace.yaml")
row("namespace_scalar", {"decl": "namespace {n}_ns", "declarations": [
        {"decl": "int {n}nsin(int a)"},
        {"decl": "namespace {n}_deep", "declarations": [{"decl": "int {n}nsdeep(int a, int b)"}]},
    ]}, langs=CXX, wraps=ALLW, doc="docs/namespaces.rst; namespace.yaml (scalar functions: every wrapper language)")
row("namespace_extern_c", {"decl": "namespace {n}_ns", "declarations": [
        {"decl": "int {n}nsplain(int a)", "options": {"C_extern_C": True}},
        {"decl": "double {n}nsplain2(double a, int b)", "options": {"C_extern_C": True}},
    ]}, langs=CXX, wraps=CF, doc="docs/reference.rst C_extern_C + docs/namespaces.rst: a namespace whose functions all have C linkage and need no C wrapper")
row("class_inherit", [{"decl": "class {n}_Shape", "declarations": [
        {"decl": "{n}_Shape()"}, {"decl": "int get_ivar() const"}]},
    {"decl": "class {n}_Circle : public {n}_Shape", "declarations": [{"decl": "{n}_Circle()"}]}],
    langs=CXX, wraps=CF, doc="classes.yaml Shape/Circle")
row("class_template", [{"decl": "template<typename T> class {n}_vec",
                        "cxx_template": [{"instantiation": "<int>"}, {"instantiation": "<double>"}],
                        "declarations": [{"decl": "{n}_vec()"}, {"decl": "void push_back(const T &value +intent(in))"},
                                         {"decl": "T &at(size_t n)"}]}],
    langs=CXX, wraps=CF, doc="templates.yaml vector; docs/templates.rst")
row("callback", "int {n}(int (*incr)(int) +external)", wraps=CF, doc="clibrary.yaml callback1; docs/fortran.rst")
row("callback_overload", [{"decl": "int {n}(int (*get)(int) +external, int a)"},
                          {"decl": "int {n}(double (*get)(double x) +external, double a)"},
                          {"decl": "void {n}b(void (*report)(int code) +external)"}],
    langs=CXX, wraps=CF, doc="docs/fortran.rst callbacks (abstract interfaces) + overloads: two overloads whose callback arguments have the same name")
row("global_var", "extern int {n}_flag;", wraps=("c", "fortran", "python"), doc="tutorial.yaml global_flag")


def by_id(i):
    for r in ROWS:
        if r["id"] == i:
            return r
    raise KeyError(i)
