#!/venv/bin/python
"""Compare freshly generated corpus outputs with upstream's stored references (sanity tool, not a check)."""
import os, sys
sys.path.insert(0, os.path.dirname(os.path.abspath(__file__)))
from vf import corpus, pool, common
cfgs = corpus.configs()
res = pool.run_cases("vf.shroudrun", [corpus.spec(c) for c in cfgs])
bad = 0
for c, r in zip(cfgs, res):
    ref = os.path.join(common.REPO, "regression", "reference", c["name"])
    if r.get("exit") != 0:
        print(c["name"], "FAILED", r.get("exc")); bad += 1; continue
    for rel, text in sorted(r["outputs"].items()):
        base = os.path.basename(rel)
        p = os.path.join(ref, base)
        if not os.path.exists(p):
            print(c["name"], "no reference for", base); continue
        if open(p).read() != text:
            print(c["name"], "DIFF", base); bad += 1
print("differences:", bad)
