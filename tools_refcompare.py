#!/venv/bin/python
"""Compare freshly generated corpus outputs with upstream's stored references (sanity tool, not a check)."""
import os, sys
sys.path.insert(0, os.path.dirname(os.path.abspath(__file__)))
from vf import corpus, pool, common
cfgs = corpus.configs()
res = pool.run_cases("vf.shroudrun", [corpus.spec(c) for c in cfgs])
bad = 0
for c, r in zip(cfgs, res):
    ref = os.path.join(common.REPO, "regression", "reference", c["name"])
    if r.get("exit") != 0:
        print(c["name"], "FAILED", r.get("exc")); bad += 1; continue
    for rel, text in sorted(r["outputs"].items()):
        base = os.path.basename(rel)
        p = os.path.join(ref, base)
        if not os.path.exists(p):
            print(c["name"], "no reference for", base); continue
        if open(p).read() != text:
            print(c["name"], "DIFF", base); bad += 1
print("differences:", bad)

# the upstream regression driver itself (also compares the list of files written and the 'output' file)
import subprocess, tempfile, shutil, stat
tmp = tempfile.mkdtemp(prefix="dotest-")
try:
    exe = os.path.join(tmp, "shroud")
    open(exe, "w").write('#!/bin/bash\nPYTHONPATH=%s exec %s -c "import shroud.main as m; m.main()" "$@"\n' % (common.REPO, sys.executable))
    os.chmod(exe, 0o755)
    reg = os.path.join(common.REPO, "regression")
    p = subprocess.run([sys.executable, "do-test.py"], cwd=reg, capture_output=True, text=True,
                       env=dict(os.environ, TEST_INPUT_DIR=reg, TEST_OUTPUT_DIR=os.path.join(tmp, "out"), EXECUTABLE_DIR=exe))
    failed = [ln for ln in p.stdout.split("\n") if "FAILED" in ln]
    print("upstream do-test.py:", "all pass" if not failed and "All tests passed" in p.stdout else "FAILED %s" % failed)
finally:
    shutil.rmtree(tmp, ignore_errors=True)
