#!/venv/bin/python
"""Keep the commit ids in known_findings.json 'fixed' entries in step with /repo (fix commits get
rebased when a follow-up is squashed into them).  Each entry's commit subject is remembered in
'fixed_subjects' so the id can be looked up again."""
import json, os, re, subprocess
HERE = os.path.dirname(os.path.abspath(__file__))
p = os.path.join(HERE, "known_findings.json")
k = json.load(open(p))
subj = k.setdefault("fixed_subjects", {})
log = subprocess.check_output(["git", "-C", "/repo", "log", "--format=%h\t%s"], text=True).strip().split("\n")
by_subject = {l.split("\t", 1)[1]: l.split("\t", 1)[0] for l in log}
out = []
for e in k["fixed"]:
    m = re.match(r"fixed: property=(\w+) (\w+) (.*)", e, re.S)
    prop, h, text = m.groups()
    key = "%s|%s" % (prop, text[:60])
    if key not in subj:
        try:
            subj[key] = subprocess.check_output(["git", "-C", "/repo", "log", "-1", "--format=%s", h], text=True, stderr=subprocess.DEVNULL).strip()
        except subprocess.CalledProcessError:
            subj[key] = None
    s = subj[key]
    nh = by_subject.get(s)
    if nh is None:
        print("NO COMMIT FOR", key, "subject", s)
        nh = h
    out.append("fixed: property=%s %s %s" % (prop, nh, text))
k["fixed"] = out
json.dump(k, open(p, "w"), indent=1)
print("fixed entries:", len(out))
